"""C15 -- loading a package is deterministic.

UNORDERED rule: iterating a set binds an ARBITRARY permutation (a fork per permutation), dictionaries iterate in
insertion order and the contract presents every insertion order; a function is deterministic when its result equals a
canonical, order-free specification for every permutation.  Sites under contract: the two statements that normalise
`variable_files` (conf.py __init__ / parametrize), layer_many_variable_files (fold order, last wins),
ComponentSpecification._memoization_info_to_hash (serialisation), dsl.namespace_to_flowir.hash_environment.
Whole-load determinism is not claimed; an inventory of unordered iterations in the anchored files is reported."""
import ast
import itertools
import os
import subprocess
import sys
import z3
from pyvc.spec import Target, Lemma, State, NULLLOG
from pyvc.values import Obj, Extern, FlexDict, unflex, SymBytes
from pyvc.core import And, Or, Not, Implies, Iff, If, Eq, In, Sym, compare, binop, to_z3, wrap
from pyvc import extract

CF = 'python/experiment/model/conf.py'
G = 'python/experiment/model/graph.py'
DSL = 'python/experiment/model/frontends/dsl.py'
FILES = ['user/b.yaml', 'user/a.yaml', 'z.yaml']


class VariableFilesOrder(Target):
    prop = 'C15'
    file = CF
    set_iter = 'permute'
    where = '__init__'
    native_replay = False
    trusted = ["set iteration order is arbitrary (hash randomisation); dict / list order is insertion order"]
    assumptions = ["<= 3 variable files"]

    @property
    def qualname(self):
        return 'FlowIRExperimentConfiguration.' + self.where

    @property
    def name(self):
        return self.qualname + '[variable_files]'

    slice = ('variable_files = ', None, False)

    def extracted(self):
        ex = extract.statement_slice(self.file, self.qualname, 'variable_files = ', None, False)
        ex.node.body = ex.node.body[:1]          # the single normalising statement
        ex.source = ast.unparse(ex.node.body[0])
        import hashlib
        ex.sha256 = hashlib.sha256(ex.source.encode()).hexdigest()
        ex.node.args.args = []
        return ex

    def setup(self, c):
        n = c.choice('n_files', 4)
        dup = c.choice('with_duplicate', 2) if n >= 2 else 0
        files = FILES[:n] + ([FILES[0]] if dup else [])
        arg = c.one_of('variable_files', [None, lambda: list(files)]) if n == 0 else list(files)
        return State(kwargs={'variable_files': arg}, files=files, arg=arg)

    def ensures(self, c, st, out):
        if out.kind == 'raise':
            return [('no-exception', False)]
        res = st.env['variable_files']
        given = st.arg or []
        dedup = list(dict.fromkeys(given))
        # the statement: layered in the order given (a repeated file may be dropped, the order may not change)
        return [('order-of-the-given-files-is-preserved', res == given or res == dedup)]

    def custom_replay(self, ob):
        stmt = self.extracted().source
        code = ("variable_files=['user/b.yaml','user/a.yaml','z.yaml']\n%s\nprint(variable_files)" % stmt)
        seen = {}
        for seed in range(12):
            r = subprocess.run([sys.executable, '-c', code], capture_output=True, text=True,
                               env=dict(os.environ, PYTHONHASHSEED=str(seed)))
            seen.setdefault(r.stdout.strip(), []).append(seed)
        detail = {"statement": stmt, "orders_by_PYTHONHASHSEED": seen}
        return ('confirmed' if len(seen) > 1 or "['user/b.yaml', 'user/a.yaml', 'z.yaml']" not in seen else 'contradicted'), detail


class VariableFilesOrderParametrize(VariableFilesOrder):
    where = 'parametrize'


class LayerFold(Target):
    prop = 'C15'
    name = 'FlowIRExperimentConfiguration.layer_many_variable_files[order]'
    file = CF
    qualname = 'FlowIRExperimentConfiguration.layer_many_variable_files'
    trusted = ["FlowIR.override_object (right-biased deep merge, C04)"]

    def setup(self, c):
        n = 1 + c.choice('files', 3)
        files = ['file%d' % i for i in range(n)]
        vals = [c.str('value%d' % i) for i in range(n)]
        c.ghost['merged'] = []

        def read(c, path, errs, flag):
            return {'global': {'v': vals[files.index(path)]}}
        cls = Obj('cls', read_user_variables=Extern('read_user_variables', read))
        return State(args=[cls, files], files=files, vals=vals)

    def externs(self, c, st):
        def override(c, agg, new):
            agg.setdefault('global', {}).update(new['global'])
            return agg
        return {'experiment.model.frontends.flowir.FlowIR.override_object': Extern('FlowIR.override_object', override)}

    def ensures(self, c, st, out):
        if out.kind == 'raise':
            return [('no-exception', False)]
        v = out.value.get('global', {}).get('v')
        return [('the-last-file-wins', v is st.vals[-1])]


def canon(v):
    """order-free specification of the serialisation: keys ascending, list members ascending"""
    if isinstance(v, dict):
        out = ''
        for k in sorted(v):
            out = binop('+', binop('+', out, k), canon(v[k]))
        return out
    if isinstance(v, list):
        if len(v) == 2:
            a, b = canon(v[0]), canon(v[1])
            return If(compare('<=', v[0], v[1]), binop('+', a, b), binop('+', b, a))
        assert len(v) <= 1
        return canon(v[0]) if v else ''
    if v is None:
        return 'None'
    return v if isinstance(v, (str, Sym)) else str(v)


class HashSerialisation(Target):
    prop = 'C15'
    name = 'ComponentSpecification._memoization_info_to_hash[order]'
    file = G
    qualname = 'ComponentSpecification._memoization_info_to_hash'
    trusted = ["hashlib.md5 is a function of the bytes it is fed"]
    assumptions = ["info shape: 3 keys, one nested dictionary with 2 keys, one list with 2 strings; every insertion order"]

    def setup(self, c):
        vals = {k: c.str(k, sample='sample-' + k) for k in ('executable', 'image', 'f.a', 'f.b', 'x', 'y')}
        top = [('executable', vals['executable']), ('image', vals['image']), ('files', None), ('args', None)]
        order = list(itertools.permutations(range(4)))[c.choice('top_order', 24)]
        inner_swap = c.choice('inner_order', 2)
        inner = [('a', vals['f.a']), ('b', vals['f.b'])]
        if inner_swap:
            inner.reverse()
        lst = [vals['x'], vals['y']] if not c.choice('list_order', 2) else [vals['y'], vals['x']]
        info = {}
        for i in order:
            k, v = top[i]
            info[k] = dict(inner) if k == 'files' else (list(lst) if k == 'args' else v)
        c.ghost['fed'] = None
        return State(args=[info], info=info)

    def real_function(self):
        import experiment.model.graph as g
        return g.ComponentSpecification._memoization_info_to_hash

    def externs(self, c, st):
        def md5(c):
            def update(c, data):
                c.ghost['fed'] = data.s if isinstance(data, SymBytes) else (data.decode('utf-8') if isinstance(data, bytes) else data)
            return Obj('md5', update=Extern('md5.update', update), hexdigest=Extern('md5.hexdigest', lambda c: 'digest'))
        return {'hashlib.md5': Extern('hashlib.md5', md5)}

    def ensures(self, c, st, out):
        if out.kind == 'raise':
            return [('no-exception', False)]
        fed = c.ghost['fed']
        return [('serialisation-is-independent-of-insertion-order', Eq(fed, canon(st.info)) if fed is not None else False)]


class HashEnvironment(Target):
    prop = 'C15'
    name = 'namespace_to_flowir.hash_environment'
    file = DSL
    qualname = 'namespace_to_flowir.hash_environment'

    def setup(self, c):
        keys = ['B', 'A', 'C']
        vals = {k: c.one_of('value.%s' % k, [None, lambda k=k: c.str('v.' + k)]) for k in keys}
        order = list(itertools.permutations(range(3)))[c.choice('insertion_order', 6)]
        env = {}
        for i in order:
            env[keys[i]] = vals[keys[i]]
        return State(args=[env], free={'typing': __import__('typing')}, vals=vals)

    def ensures(self, c, st, out):
        if out.kind == 'raise':
            return [('no-exception', False)]
        want = tuple((k, st.vals[k]) for k in sorted(st.vals) if st.vals[k] is not None)
        got = out.value
        ok = isinstance(got, tuple) and len(got) == len(want) and all(
            g[0] == w[0] and (g[1] is w[1] or (isinstance(g[1], Sym) and isinstance(w[1], Sym) and z3.eq(g[1].e, w[1].e))
                              or (not isinstance(g[1], Sym) and g[1] == w[1])) for g, w in zip(got, want))
        return [('environment-hash-is-independent-of-insertion-order', ok)]


class DslComponentNames(Target):
    """'the same component names ... in every process': the names namespace_to_flowir gives to the flattened steps are a
    function of the ORDERED list of step names -- the first step with a name keeps it, the k-th further one gets the
    suffix -<numeral(k)> -- so they depend neither on hashes nor on anything but the document order; steps that share a
    name still end up with different component names."""
    prop = 'C15'
    name = 'namespace_to_flowir[component names]'
    file = DSL
    qualname = 'namespace_to_flowir'
    slice = ('component_names: typing.Dict[str, int] = {}', 'complete = experiment.model.frontends.flowir.FlowIRConcrete(', False)
    pure = ('number_to_roman_like_numeral',)
    compare_return = False
    trusted = ["number_to_roman_like_numeral is injective on 1.. (native)", "re fullmatch of SignatureNamePattern on concrete names"]
    assumptions = ["<= 4 flattened steps with names from ['simulate', 'stage1.analyse', 'simulate', 'simulate'] in every order"]

    def setup(self, c):
        import collections
        pool = ['simulate', 'stage1.analyse', 'simulate', 'simulate']
        n = 1 + c.choice('steps', 4)
        order = list(itertools.permutations(range(4)))[c.choice('order', 24)][:n]
        steps = [pool[i] for i in order]
        comps = collections.OrderedDict()
        objs = []
        import experiment.model.frontends.dsl as dsl_mod
        for k, nm in enumerate(steps):
            o = Obj('digested%d' % k, step_name=nm, flowir={},
                    scope=Obj('scope', template=Obj('template', _cls=dsl_mod.Component), location=['entry', 'step%d' % k]))
            comps[('entry', 'step%d' % k)] = o
            objs.append(o)
        return State(kwargs={'components': comps}, steps=steps, objs=objs)

    def externs(self, c, st):
        import experiment.model.frontends.dsl as dsl_mod
        return {}

    def ensures(self, c, st, out):
        if out.kind == 'raise':
            return [('no-exception', False)]
        import experiment.model.frontends.dsl as dsl_mod
        seen = {}
        want = []
        for nm in st.steps:
            if nm not in seen:
                seen[nm] = 0
                full = nm
            else:
                seen[nm] += 1
                full = '%s-%s' % (nm, dsl_mod.number_to_roman_like_numeral(seen[nm]))
            stage, _, name = full.rpartition('.')
            want.append((int(stage[5:]) if stage else 0, name))
        got = [(o.flowir.get('stage'), o.flowir.get('name')) for o in st.objs]
        return [('names-follow-the-document-order-rule', got == want),
                ('steps-that-share-a-name-get-different-component-names', len(set(got)) == len(got))]

    def cross_compare(self, *a):
        return []


class UnorderedInventory:
    """inventory (reported, not an obligation) of iterations over set()/os.listdir/glob results in the anchored files"""
    name = 'unordered-iteration-inventory'

    def run(self, tier='quick', seed=0):
        files = [CF, 'python/experiment/model/frontends/flowir.py', DSL, G]
        sites = []
        for f in files:
            src, tree = extract.parse_file(f)
            parents = {}
            for n in ast.walk(tree):
                for ch in ast.iter_child_nodes(n):
                    parents[id(ch)] = n
            for n in ast.walk(tree):
                if isinstance(n, ast.Call):
                    d = ast.unparse(n.func)
                    if d in ('set', 'os.listdir', 'glob.glob', 'frozenset'):
                        p = parents.get(id(n))
                        wrapped = isinstance(p, ast.Call) and ast.unparse(p.func) in ('sorted', 'len', 'bool')
                        sites.append({"file": f.split('/')[-1], "line": n.lineno, "call": d, "order_insensitive_use": bool(wrapped)})
        return {"name": self.name, "bounded": True, "bound": "syntactic inventory", "cases": len(sites), "violations": [],
                "summary": "%d unordered-collection constructions, %d directly wrapped in sorted/len" % (
                    len(sites), sum(1 for s in sites if s['order_insensitive_use'])), "sites": sites[:80]}


def _reachable_ids(root, seen=None):
    seen = set() if seen is None else seen
    if id(root) in seen:
        return seen
    if isinstance(root, (dict, list, set, tuple)):
        seen.add(id(root))
        for x in (list(root.values()) + list(root.keys()) if isinstance(root, dict) else list(root)):
            _reachable_ids(x, seen)
    return seen


def _snapshot(v):
    import copy
    return copy.deepcopy(v)


PARSED = {'user/a.yaml': {'global': {'x': 'a-global', 'only-a': '1'}, 'stages': {0: {'x': 'a-stage0'}}},
          'user/b.yaml': {'global': {'x': 'b-global'}, 'stages': {0: {'y': 'b-stage0'}, 1: {'z': 'b-stage1'}}}}


class ReadUserVariables(Target):
    """'the same package with the same options loads the same in every process' also means: independent of what the
    process loaded BEFORE.  layer_many_variable_files merges later files INTO the object parsed from the first one
    (FlowIR.override_object works in place and shares novel keys), so the parsed objects must not outlive the call:
    read_user_variables hands out a private object, or the layering leaves the parsed objects alone -- the property needs
    one of the two (alternative mechanisms)."""
    prop = 'C15'
    name = 'FlowIRExperimentConfiguration.read_user_variables'
    file = CF
    qualname = 'FlowIRExperimentConfiguration.read_user_variables'
    inline_class = {'cls': (CF, 'FlowIRExperimentConfiguration')}
    pure = ('os.path.splitext', 'os.path.abspath')
    compare_return = False
    alternatives = {'callers-get-a-private-object': 'parsed-variable-files-do-not-outlive-the-load'}
    trusted = ["the YAML / DOSINI readers return a newly built dictionary per call", "os.stat (only if the code asks)"]

    def alt_case(self, c, st):
        return 'variable-files'

    def setup(self, c):
        path = c.one_of('file', ['user/a.yaml', 'user/b.conf'])
        validate = c.one_of('validate', [True, False])
        cls = Obj('FlowIRExperimentConfiguration-class',
                  _validate_user_variables=Extern('_validate_user_variables', lambda c, *a, **k: []))
        return State(args=[cls, path, [], validate], cls=cls, path=path)

    def real_function(self):
        import experiment.model.conf as conf_mod
        return conf_mod.FlowIRExperimentConfiguration.read_user_variables.__func__

    def externs(self, c, st):
        fetch = lambda c, path, errs: _snapshot(PARSED['user/a.yaml'])
        return {'DOSINIExperimentConfiguration._fetch_user_variables': Extern('DOSINI._fetch_user_variables', fetch),
                'FlowIRExperimentConfiguration._fetch_user_variables': Extern('FlowIR._fetch_user_variables', fetch),
                'os.stat': Extern('os.stat', lambda c, p: Obj('stat', st_mtime_ns=1, st_size=10, st_mtime=1.0))}

    def ensures(self, c, st, out):
        if out.kind == 'raise':
            return [('no-exception', False)]
        kept = set()
        for v in object.__getattribute__(st.cls, '_fields').values():
            _reachable_ids(v, kept)
        return [('returns-what-the-file-holds', out.value == PARSED['user/a.yaml']),
                ('callers-get-a-private-object', not (_reachable_ids(out.value) & kept))]


class LayerFoldFrame(Target):
    """the other half: does layering modify the objects it got from read_user_variables?  (REAL FlowIR.override_object,
    executed natively on concrete dictionaries)"""
    prop = 'C15'
    name = 'FlowIRExperimentConfiguration.layer_many_variable_files[frame]'
    file = CF
    qualname = 'FlowIRExperimentConfiguration.layer_many_variable_files'
    pure = ('experiment.model.frontends.flowir.FlowIR.override_object',)
    compare_return = False
    alternatives = {'parsed-files-are-left-alone': 'parsed-variable-files-do-not-outlive-the-load'}
    trusted = ["FlowIR.override_object: the real function, run natively on concrete dictionaries"]

    def alt_case(self, c, st):
        return 'variable-files'

    def setup(self, c):
        order = c.one_of('order', [['user/a.yaml', 'user/b.yaml'], ['user/b.yaml', 'user/a.yaml']])
        handed_out = {}

        def read(c, path, errs, flag):
            handed_out[path] = _snapshot(PARSED[path])
            return handed_out[path]
        cls = Obj('cls', read_user_variables=Extern('read_user_variables', read))
        return State(args=[cls, list(order)], order=order, handed_out=handed_out)

    def ensures(self, c, st, out):
        if out.kind == 'raise':
            return [('no-exception', False)]
        last, first = st.order[-1], st.order[0]
        want_x = PARSED[last]['global']['x']
        return [('the-last-file-wins', out.value['global']['x'] == want_x),
                ('parsed-files-are-left-alone', all(st.handed_out[p] == PARSED[p] for p in st.order))]


import contracts.C17 as _c17


class EnvironmentsAreAFunctionOfTheMaps(_c17.EnvironmentWithName):
    """'the same ... environments ... independent of dictionary ordering': the resolved environment equals a specification
    that is a function of the environment MAPS (which variable has which value) -- C17's contract of environmentWithName --
    so two equal documents that list the variables in a different order resolve to the same environment."""
    prop = 'C15'


# "the same resolved configurations in every process": replication must not depend on the order of its own bookkeeping lists
# (sets / dictionaries of references) -- C03's contract on overlapping replicated producers, for both orders of that list
from pyvc.spec import shared as _shared
import contracts.C03 as _c03
REPLICATION_ORDER = [_shared(_c03.CompileReplicaOverlappingProducers(), 'C15')]

TARGETS = REPLICATION_ORDER + [VariableFilesOrder(), VariableFilesOrderParametrize(), LayerFold(), HashSerialisation(), HashEnvironment(),
           ReadUserVariables(), LayerFoldFrame(), EnvironmentsAreAFunctionOfTheMaps(), DslComponentNames()]
LEMMAS = []
BOUNDED = [UnorderedInventory()]
