"""C05 -- DoWhile unrolling is wired correctly for any number of iterations.

Iteration numbers are SYMBOLIC non-negative integers (no bound: 9 vs 10 is just another model); instance names are the
structured strings  str(i) + '#' + name  that rewrite_components produces (that production is itself proved).  The
number of instances presented to a function is bounded (<= 3 per call), which is enough for every "pick the numerically
highest / sort in increasing order" clause: an order that is right on every 3 elements is right.
Functions under contract: graph.py WorkflowGraph.compute_dowhile_state, DataReference.resolve.looped_reference_to_paths,
WorkflowGraph._discover_dowhile_placeholders (latest); flowir.py map_placeholder_id_to_iteration, rewrite_components,
instantiate_dowhile (loop bindings -> iteration i-1)."""
import z3
from pyvc.spec import Target, Lemma, State, Outcome, NULLLOG
from pyvc.values import Obj, Extern, FlexDict, unflex
from pyvc.core import And, Or, Not, Implies, Iff, If, Eq, In, Sym, compare, binop, OutsideSubset, EngineError

import experiment.model.errors as errors
import experiment.model.frontends.flowir as flowir_mod

FlowIR = flowir_mod.FlowIR
F = 'python/experiment/model/frontends/flowir.py'
G = 'python/experiment/model/graph.py'
K = 3


def instance_name(c, i, base):
    return c.join_parts('#', [c.numeral(i), base])


def iterations(c, k, label='it'):
    its = [c.int('%s%d' % (label, j)) for j in range(k)]
    for j, i in enumerate(its):
        c.require(compare('>=', i, 0))
        for i2 in its[:j]:
            c.require(Not(Eq(i, i2)))
    return its


def maximum(xs):
    m = xs[0]
    for x in xs[1:]:
        m = If(compare('>', x, m), x, m)
    return m


class Ref:
    """a compiled reference (token): what compile_reference was called with"""

    def __init__(self, producer, filename, method, stage):
        self.producer, self.filename, self.method, self.stage = producer, filename, method, stage


def compile_extern():
    return Extern('FlowIR.compile_reference',
                  lambda c, producer, filename, method, stage_index=None: Ref(producer, filename, method, stage_index))


class ComputeDoWhileState(Target):
    prop = 'C05'
    name = 'WorkflowGraph.compute_dowhile_state'
    file = G
    qualname = 'WorkflowGraph.compute_dowhile_state'
    trusted = ["FlowIR.ParseDataReferenceFull / compile_reference (C09)", "python sorted() is a stable sort by key"]
    assumptions = ["<= %d instances of the condition per call (their iteration numbers are unbounded symbolic integers)" % K]

    def setup(self, c):
        k = 1 + c.choice('instances', K)
        its = iterations(c, k)
        stage = 1
        ids = [(stage, instance_name(c, i, 'cond')) for i in its] + [(stage, instance_name(c, its[0], 'other'))]
        dw = {'document': {'condition': 'stage0.cond/out.txt:output', 'stage': 1}}
        this = Obj('graph', _documents={FlowIR.LabelDoWhile: {'loop': dw}}, log=NULLLOG)
        return State(args=[this, 'loop', ids], its=its, dw=dw, ids=ids)

    def externs(self, c, st):
        return {'experiment.model.frontends.flowir.FlowIR': Obj('FlowIR', LabelDoWhile=FlowIR.LabelDoWhile,
                                                                ParseDataReferenceFull=Extern('ParseDataReferenceFull', lambda c, ref, stage=None: (1, 'cond', 'out.txt', 'output')),
                                                                compile_reference=compile_extern())}

    def ensures(self, c, st, out):
        if out.kind == 'raise':
            return [('no-exception', False)]
        state = st.dw.get('state')
        if not isinstance(state, dict):
            return [('state-recorded', False)]
        m = maximum(st.its)
        cond = state['currentCondition']
        want_name = instance_name(c, m, 'cond') if c.mode != 'sym' else None
        cl = [('current-iteration-is-the-numerically-highest', Eq(state['currentIteration'], m))]
        if isinstance(cond, Ref):
            prod = cond.producer
            if c.mode == 'sym':
                cl.append(('current-condition-comes-from-that-iteration',
                           Eq(prod, Sym(z3.Concat(z3.IntToStr(m.e if isinstance(m, Sym) else z3.IntVal(m)), z3.StringVal('#cond'))))))
            else:
                cl.append(('current-condition-comes-from-that-iteration', prod == '%d#cond' % m))
        else:
            cl.append(('current-condition-comes-from-that-iteration', False))
        return cl


class MapPlaceholder(Target):
    prop = 'C05'
    name = 'map_placeholder_id_to_iteration'
    file = F
    qualname = 'map_placeholder_id_to_iteration'
    assumptions = ComputeDoWhileState.assumptions

    def setup(self, c):
        k = 1 + c.choice('instances', K)
        its = iterations(c, k)
        ids = [(0, instance_name(c, i, 'comp')) for i in its] + [(0, 'plain')]
        return State(args=[(0, 'comp'), [], ids], its=its)

    def ensures(self, c, st, out):
        if out.kind == 'raise':
            return [('no-exception', False)]
        m = maximum(st.its)
        r = out.value
        if not (isinstance(r, tuple) and len(r) == 2):
            return [('returns-an-id', False)]
        if c.mode == 'sym':
            want = Sym(z3.Concat(z3.IntToStr(m.e if isinstance(m, Sym) else z3.IntVal(m)), z3.StringVal('#comp')))
        else:
            want = '%d#comp' % m
        return [('latest-is-the-numerically-highest-iteration', Eq(r[1], want))]


class LoopedReferencePaths(Target):
    prop = 'C05'
    name = 'DataReference.resolve.looped_reference_to_paths'
    file = G
    qualname = 'DataReference.resolve.looped_reference_to_paths'
    assumptions = ComputeDoWhileState.assumptions
    trusted = ["workingDirectoryForComponent returns the component's directory"]

    def setup(self, c):
        k = 1 + c.choice('instances', K)
        its = iterations(c, k)
        refs = [c.join_parts('.', ['stage0', instance_name(c, i, 'comp')]) for i in its]
        # present the instances in an arbitrary order: rotate
        rot = c.choice('rotation', k)
        order = list(range(k))[rot:] + list(range(k))[:rot]
        represents = [refs[j] for j in order]
        c.ghost['asked'] = []

        def workdir(c, stage, name):
            c.ghost['asked'].append(name)
            return '/inst/stages/stage0/comp'
        nodes = Obj('nodes', __getitem__=Extern('nodes.__getitem__', lambda c, name: {
            'componentSpecification': Obj('spec', identification=Obj('cid', stageIndex=0, componentName=name),
                                          path_to_stdout=Extern('path_to_stdout', lambda c: '/inst/out.stdout'))}))
        graph = Obj('workflowGraph', _placeholders={'stage0.comp': {'represents': represents}},
                    graph=Obj('nx', nodes=nodes),
                    rootStorage=Obj('storage', workingDirectoryForComponent=Extern('workingDirectoryForComponent', workdir)))
        this = Obj('ref', producerIdentifier=Obj('pid', identifier='stage0.comp'), absoluteReference='stage0.comp:loopref',
                   method='loopref', fileRef=None)
        return State(args=[], free={'self': this, 'workflowGraph': graph}, its=its, refs=refs, order=order)

    def ensures(self, c, st, out):
        if out.kind == 'raise':
            return [('no-exception', False)]
        asked = c.ghost['asked']          # names of the components in the order they were resolved
        k = len(st.its)
        if len(asked) != k:
            return [('lists-every-instance', False)]
        # the j-th listed instance must be the one with the j-th smallest iteration number
        cl = [('lists-every-instance', True)]
        ok = True
        for a in range(k):
            for b in range(a + 1, k):
                ia, ib = self._iteration_of(c, st, asked[a]), self._iteration_of(c, st, asked[b])
                ok = And(ok, compare('<', ia, ib))
        cl.append(('instances-in-increasing-iteration-order', ok))
        return cl

    def _iteration_of(self, c, st, name):
        if c.mode != 'sym':
            return int(str(name).split('.', 1)[1].split('#', 1)[0])
        # name is the component name  str(i)#comp  of one of the instances: recover i structurally
        for i in st.its:
            nm = z3.simplify(z3.Concat(z3.StringVal('stage0.'), z3.IntToStr(i.e), z3.StringVal('#'), z3.StringVal('comp')))
            if z3.eq(z3.simplify(name.e), nm):
                return i
        raise EngineError("listed name %r is not one of the instances" % (name,))


class RewriteComponents(Target):
    prop = 'C05'
    name = 'rewrite_components'
    file = F
    qualname = 'rewrite_components'
    trusted = ["FlowIR.replace_strings returns a rewritten copy of the component (C03/C09)"]

    def setup(self, c):
        it_no = c.one_of('iteration_no', [None, lambda: c.int('iteration')])
        if it_no is not None:
            c.require(compare('>=', it_no, 0))
        name = c.str('name')
        stage = c.int('stage')
        off = c.int('import_to_stage')
        has_vars = c.choice('has_variables', 2)
        comp = {'name': name, 'stage': stage, 'command': {'executable': 'x'}}
        if has_vars:
            comp['variables'] = {'v': '1'}
        return State(args=[[comp], {}, set(), off], kwargs={'iteration_no': it_no, 'looped_components': set()},
                     it_no=it_no, cname=name, stage=stage, off=off, comp=comp)

    def externs(self, c, st):
        def replace_strings(c, comp, fn):
            new = FlexDict({k: (FlexDict(v) if isinstance(v, dict) else v) for k, v in comp.items()})
            return new
        return {'FlowIR.replace_strings': Extern('FlowIR.replace_strings', replace_strings)}

    def ensures(self, c, st, out):
        if out.kind == 'raise':
            return [('no-exception', False)]
        res = out.value
        if not (isinstance(res, list) and len(res) == 1):
            return [('one-instance-per-component', False)]
        new = res[0]
        cl = [('one-instance-per-component', True),
              ('stage-is-offset-by-the-import-stage', Eq(new['stage'], binop('+', st.stage, st.off))),
              ('template-is-not-modified', st.comp['name'] is st.cname and 'loopIteration' not in st.comp.get('variables', {}))]
        if st.it_no is None:
            cl.append(('name-unchanged-outside-loops', Eq(new['name'], st.cname)))
        else:
            if c.mode == 'sym':
                want = Sym(z3.Concat(z3.IntToStr(st.it_no.e), z3.StringVal('#'), st.cname.e))
            else:
                want = '%d#%s' % (st.it_no, st.cname)
            cl += [('instance-is-named-iteration#name', Eq(new['name'], want)),
                   ('instance-knows-its-iteration', Eq(new.get('variables', {}).get('loopIteration'), st.it_no))]
        return cl


def _named(c, value, iteration, base):
    """value == str(iteration) + '#' + base, whatever representation the engine chose for the formatted string"""
    from pyvc import sstr
    if c.mode != 'sym':
        return value == '%d#%s' % (iteration, base)
    if isinstance(value, sstr.SStr):
        try:
            return bool(sstr.equal(value, sstr.SStr([sstr.Num(iteration), sstr.Lit('#' + base)])))
        except OutsideSubset:
            return False
    want = Sym(z3.Concat(z3.IntToStr(iteration.e if isinstance(iteration, Sym) else z3.IntVal(iteration)), z3.StringVal('#' + base)))
    return Eq(value, want)


class InstantiateDoWhile(Target):
    prop = 'C05'
    name = 'instantiate_dowhile'
    file = F
    qualname = 'instantiate_dowhile'
    trusted = ["ParseDataReferenceFull / compile_reference are inverse on the parts (C09)",
               "rewrite_components applies the bindings it is given (proved separately for naming)"]
    assumptions = ["one loop-carried binding, one aggregate (loopref) binding and one ordinary binding"]
    inline = {'extract_ids_from_components': (F, 'extract_ids_from_components')}

    def setup(self, c):
        it_no = c.int('iteration')
        c.require(compare('>=', it_no, 0))
        lb_carried = Ref('prod', 'out.txt', 'ref', 0)
        lb_agg = Ref('prod', None, 'loopref', 0)
        b_plain = Ref('outside', 'f', 'copy', 0)
        which = c.choice('loop_bindings', 3)      # 0: both, 1: none, 2: only carried
        loop_bindings = {} if which == 1 else ({'carried': lb_carried} if which == 2 else {'carried': lb_carried, 'agg': lb_agg})
        tmpl = {FlowIR.FieldComponents: [{'name': 'prod', 'stage': 0}, {'name': 'cond', 'stage': 0}],
                'inputBindings': {'carried': {'type': 'ref'}, 'agg': {'type': 'loopref'}, 'plain': {'type': 'copy'}},
                'loopBindings': loop_bindings, 'condition': Ref('cond', 'out.txt', 'output', 0)}
        bindings = {'carried': Ref('init', 'out.txt', 'ref', 0), 'agg': Ref('init', None, 'loopref', 0), 'plain': b_plain}
        c.ghost['rewrite'] = None
        return State(args=[tmpl, bindings, 2, 'loop', {(0, 'init'), (0, 'outside')}], kwargs={'label': 'L', 'iteration_no': it_no},
                     it_no=it_no, tmpl=tmpl, loop_bindings=loop_bindings, carried=lb_carried, agg=lb_agg, plain=b_plain,
                     orig_bindings=dict(bindings))

    def externs(self, c, st):
        def parse(c, ref, stage=None):
            return (ref.stage, ref.producer, ref.filename, ref.method)

        def rewrite_components(c, components, bindings, known, import_to_stage, iteration_no=None, looped=None):
            c.ghost['rewrite'] = (dict(bindings), iteration_no)
            return ['<rewritten>']

        def offset(c, lb, off):
            return {k: Ref(v.producer, v.filename, v.method, v.stage) for k, v in (lb or {}).items()}
        return {'FlowIR.ParseDataReferenceFull': Extern('ParseDataReferenceFull', parse),
                'FlowIR.compile_reference': compile_extern(),
                'rewrite_components': Extern('rewrite_components', rewrite_components),
                'rewrite_loopbindings_for_stage_offset': Extern('rewrite_loopbindings_for_stage_offset', offset),
                'validate_input_bindings_names': Extern('validate_input_bindings_names', lambda c, b: None),
                'validate_provided_bindings': Extern('validate_provided_bindings', lambda c, *a, **k: None),
                'pprint.pformat': Extern('pformat', lambda c, v: 'x')}

    def ensures(self, c, st, out):
        if out.kind == 'raise':
            return [('no-exception', False)]
        rw = c.ghost['rewrite']
        if rw is None:
            return [('components-are-rewritten', False)]
        used, it = rw
        comps, new_tmpl = out.value
        first = Eq(st.it_no, 0)
        cl = [('iteration-number-is-passed-on', Eq(it, st.it_no)),
              ('ordinary-bindings-are-the-original-ones', used.get('plain') is st.plain),
              ('stored-template-loop-bindings-are-not-rewritten', new_tmpl.get('loopBindings') is not st.loop_bindings and
               all(new_tmpl['loopBindings'][k].producer == 'prod' and new_tmpl['loopBindings'][k].stage == 0
                   for k in new_tmpl.get('loopBindings', {})))]
        if 'carried' in st.loop_bindings:
            b = used.get('carried')
            is_ref = isinstance(b, Ref)
            cl += [('first-iteration-uses-the-given-binding', Implies(first, b is st.orig_bindings['carried'])),
                   ('loop-carried-input-comes-from-the-previous-iteration',
                    Implies(Not(first), And(is_ref, _named(c, b.producer, binop('-', st.it_no, 1), 'prod') if is_ref else False,
                                            (b.filename == 'out.txt' and b.method == 'ref' and b.stage == 0) if is_ref else False)))]
        if 'agg' in st.loop_bindings:
            b = used.get('agg')
            is_ref = isinstance(b, Ref)
            cl.append(('aggregate-binding-keeps-the-placeholder',
                       Implies(Not(first), And(is_ref, (b.producer == 'prod' and b.method == 'loopref') if is_ref else False))))
        return cl


class DiscoverPlaceholders(Target):
    prop = 'C05'
    name = 'WorkflowGraph._discover_dowhile_placeholders'
    file = G
    qualname = 'WorkflowGraph._discover_dowhile_placeholders'
    compare_return = False      # the order of `represents` follows set iteration order (consumers sort it)
    assumptions = ComputeDoWhileState.assumptions
    trusted = ["FlowIR.apply_replicate returns the placeholder components of the document (C03)"]

    def setup(self, c):
        from pyvc.values import IdSet
        k = 1 + c.choice('instances', K)
        its = iterations(c, k)
        ids = [(1, instance_name(c, i, 'comp')) for i in its]
        other = (1, instance_name(c, its[0], 'other'))
        remaining = IdSet(ids + [other]) if c.mode == 'sym' else set(ids + [other])
        doc = {'components': [{'stage': 0, 'name': 'comp'}], 'stage': 1, 'name': 'loop'}
        conf = Obj('conf', top_level_folders=[], get_application_dependencies=Extern('get_application_dependencies', lambda c: []))
        this = Obj('graph', _documents={FlowIR.LabelDoWhile: {'loop': {'document': doc}}}, configuration=conf,
                   _placeholders={}, log=NULLLOG)
        return State(args=[this, 'loop', {}, remaining], its=its, ids=ids)

    def externs(self, c, st):
        fl = Obj('FlowIR', LabelDoWhile=FlowIR.LabelDoWhile,
                 apply_replicate=Extern('FlowIR.apply_replicate', lambda c, comps, *a, **k: [dict(x) for x in comps]))
        return {'experiment.model.frontends.flowir.FlowIR': fl}

    def ensures(self, c, st, out):
        if out.kind == 'raise':
            return [('no-exception', False)]
        ph = out.value.get('stage1.comp') if isinstance(out.value, dict) else None
        if not isinstance(ph, dict):
            return [('placeholder-recorded', False)]
        m = maximum(st.its)
        if c.mode == 'sym':
            want = Sym(z3.Concat(z3.StringVal('stage1.'), z3.IntToStr(m.e if isinstance(m, Sym) else z3.IntVal(m)), z3.StringVal('#comp')))
        else:
            want = 'stage1.%d#comp' % m
        return [('placeholder-recorded', True),
                ('represents-every-instance', len(ph['represents']) == len(st.its)),
                ('latest-is-the-numerically-highest-iteration', Eq(ph['latest'], want))]


class NextIterationKeepsStoredDocument(Target):
    """instantiate_dowhile_next_iteration up to (and including) its call of instantiate_dowhile, with the real
    instantiate_dowhile and rewrite_loopbindings_for_stage_offset interpreted from their source: the STORED DoWhile
    document handed in must come out unchanged, whichever of the two functions protects it (history quantifier:
    no stage-offset drift of the loop bindings over repeated instantiations)."""
    prop = 'C05'
    name = 'WorkflowGraph.instantiate_dowhile_next_iteration[stored-document]'
    file = G
    qualname = 'WorkflowGraph.instantiate_dowhile_next_iteration'
    slice = (None, 'instantiate_dowhile(', True)
    inline = {'experiment.model.frontends.flowir.instantiate_dowhile': (F, 'instantiate_dowhile'),
              'rewrite_loopbindings_for_stage_offset': (F, 'rewrite_loopbindings_for_stage_offset'),
              'extract_ids_from_components': (F, 'extract_ids_from_components')}
    native_replay = False
    trusted = InstantiateDoWhile.trusted + ["expand_bindings returns the bindings (latest loop instances resolved)"]

    def setup(self, c):
        it_no = c.int('next_iteration')
        c.require(compare('>=', it_no, 1))
        stage = c.one_of('import_stage', [0, 2])
        lb = {'carried': Ref('prod', 'out.txt', 'ref', 0)}
        doc = {FlowIR.FieldComponents: [{'name': 'prod', 'stage': 0}, {'name': 'cond', 'stage': 0}],
               'inputBindings': {'carried': {'type': 'ref'}}, 'loopBindings': lb,
               'condition': Ref('cond', 'out.txt', 'output', 0), 'stage': stage, 'name': 'loop',
               'bindings': {'carried': Ref('init', 'out.txt', 'ref', 0)}}
        this = Obj('graph', log=NULLLOG, _concrete=Obj('concrete', get_component_identifiers=Extern(
            'get_component_identifiers', lambda c, a, b: {(0, 'init')})))
        c.ghost['rewrite'] = None
        return State(kwargs={'self': this, 'do_while': doc, 'next_iter_number': it_no, 'store_flowir_to_disk': False},
                     doc=doc, lb=lb, ref=lb['carried'], stage=stage)

    def externs(self, c, st):
        def parse(c, ref, stage=None):
            return (ref.stage, ref.producer, ref.filename, ref.method)
        fl = Obj('FlowIR', FieldComponents=FlowIR.FieldComponents, ParseDataReferenceFull=Extern('ParseDataReferenceFull', parse),
                 compile_reference=compile_extern())
        return {'FlowIR.ParseDataReferenceFull': Extern('ParseDataReferenceFull', parse),
                'FlowIR.compile_reference': compile_extern(), 'FlowIR.FieldComponents': FlowIR.FieldComponents,
                'experiment.model.frontends.flowir.FlowIR': fl,
                'experiment.model.frontends.flowir.expand_bindings': Extern('expand_bindings', lambda c, b, s: b),
                'rewrite_components': Extern('rewrite_components', lambda c, *a, **k: ['<rewritten>']),
                'validate_input_bindings_names': Extern('validate_input_bindings_names', lambda c, b: None),
                'validate_provided_bindings': Extern('validate_provided_bindings', lambda c, *a, **k: None),
                'pprint.pformat': Extern('pformat', lambda c, v: 'x')}

    def ensures(self, c, st, out):
        if out.kind == 'raise':
            return [('no-exception', False)]
        lb = st.doc.get('loopBindings')
        same = lb is st.lb and list(lb) == ['carried'] and lb['carried'] is st.ref and st.ref.stage == 0 \
            and st.ref.producer == 'prod'
        return [('stored-document-loop-bindings-are-unchanged', same),
                ('stored-document-keeps-its-bindings', 'bindings' in st.doc)]


class GetAllLoopedIds(Target):
    """The helper every DoWhile computation starts from: the ids of ALL loop instances -- names <iteration>#<name> for
    ANY iteration number (symbolic, unbounded) -- and nothing else."""
    prop = 'C05'
    name = 'WorkflowGraph._get_all_looped_ids'
    file = G
    qualname = 'WorkflowGraph._get_all_looped_ids'
    inline_class = {'this': (G, 'WorkflowGraph')}
    assumptions = ["<= 2 loop instances (iteration numbers unbounded symbolic integers) next to an ordinary component"]
    trusted = ["FlowIRConcrete.get_component_identifiers returns the identifiers of the components"]

    def setup(self, c):
        k = 1 + c.choice('instances', 2)
        its = iterations(c, k)
        ids = [(1, instance_name(c, i, 'comp')) for i in its]
        plain = (0, 'source')
        cached = c.one_of('use_cached_ids', [False, True])
        conc = Obj('concrete', get_component_identifiers=Extern('get_component_identifiers', lambda c, flag=None: [plain] + list(ids)))
        this = Obj('graph', _concrete=conc, log=NULLLOG)
        return State(args=[this], kwargs={'use_cached_ids': cached}, ids=ids, plain=plain, this=this)

    def ensures(self, c, st, out):
        if out.kind == 'raise':
            return [('no-exception', False)]
        got = list(out.value)
        return [('every-loop-instance-is-listed-whatever-its-iteration-number', all(any(x is y for y in got) for x in st.ids)),
                ('ordinary-components-are-not-listed', not any(x is st.plain for x in got))]

    def cross_compare(self, *a):
        return []


class RewriteAllReferences(Target):
    """Inside iteration i every reference of a looped component to ANOTHER looped component is renamed to that component's
    instance of the SAME iteration (i#name, at the loop's stage offset); aggregate loop references (loopref/loopoutput),
    references to components outside the loop and plain files are left alone.  (Concrete texts: bounded; the iteration
    number is 0, 3, 12 or 120.)"""
    prop = 'C05'
    name = 'rewrite_all_references'
    file = F
    qualname = 'rewrite_all_references'
    set_iter = 'sorted-repr'
    pure = ('FlowIR.discover_reference_strings', 'FlowIR.ParseDataReferenceFull', 'FlowIR.compile_reference', 'rewrite_reference',
            're.sub', 're.escape')
    compare_return = False
    trusted = ["FlowIR.discover_reference_strings / rewrite_reference / re (native on concrete strings; C09 for the parsers)"]
    assumptions = ["BOUNDED: concrete component names; one mention per reference (a reference repeated verbatim in one string is "
                   "only rewritten once by the code: DESIGN 14.10)"]

    def setup(self, c):
        it = c.one_of('iteration', [0, 3, 12, 120])
        offset = c.one_of('import_to_stage', [0, 1])
        spelling = c.one_of('spelling', ['absolute', 'relative'])
        a = 'stage0.A' if spelling == 'absolute' else 'A'
        shape = c.one_of('text', ['plain', 'overlapping-names'])
        if shape == 'plain':
            value = 'run %s:ref %s/out.txt:copy stage0.B:output data/x.dat:copy stage0.A:loopref' % (a, a)
        else:
            # two looped components, the name of one is the tail of the other's (fake_A / A), the longer one mentioned first
            fa = 'stage0.fake_A' if spelling == 'absolute' else 'fake_A'
            value = 'sum %s:output %s:output x-%s:ref' % (fa, a, a)
        known = {(offset, 'outside')}
        looped = {(offset, 'A'), (offset, 'B'), (offset, 'fake_A')}
        return State(args=[value, {}, known, 0, offset], kwargs={'iter_number': it, 'looped_ids': looped}, it=it, offset=offset,
                     shape=shape)

    def ensures(self, c, st, out):
        if out.kind == 'raise':
            return [('no-exception', False)]
        i, o = st.it, st.offset
        if st.shape == 'plain':
            want = 'run stage%d.%d#A:ref stage%d.%d#A/out.txt:copy stage%d.%d#B:output data/x.dat:copy stage%d.A:loopref' % (o, i, o, i, o, i, o)
            return [('looped-references-point-to-the-same-iteration-others-are-left-alone', out.value == want)]
        # every reference is rewritten as a whole token: `A:output` inside `fake_A:output` is not a reference to A
        got = out.value.split(' ')
        return [('a-reference-whose-name-ends-with-another-name-is-rewritten-as-itself',
                 len(got) == 4 and got[1] == 'stage%d.%d#fake_A:output' % (o, i) and got[2] == 'stage%d.%d#A:output' % (o, i))]

    def cross_compare(self, *a):
        return []


class PlaceholderMetadataIsReadOnly(Target):
    """'aggregate loop references list all instances ...': the list placeholder['represents'] is what those references
    expand to.  The scheduler's Controller._comp_get_active_predecessors reads that metadata for a placeholder node (the
    instances plus the component producing the loop condition are its predecessors) -- and must leave it exactly as it
    found it."""
    prop = 'C05'
    name = 'Controller._comp_get_active_predecessors[placeholder]'
    file = 'python/experiment/runtime/control.py'
    qualname = 'Controller._comp_get_active_predecessors'
    pure = ('experiment.model.frontends.flowir.FlowIR.ParseProducerReference', 'FlowIR.ParseProducerReference',
            'FlowIR.ParseDataReferenceFull', 'experiment.model.frontends.flowir.FlowIR.ParseDataReferenceFull')
    compare_return = False
    trusted = ["FlowIR.ParseProducerReference / ParseDataReferenceFull on concrete names (C09)"]
    assumptions = ["a placeholder that represents 2 or 12 instances; the condition is produced by a looped component that is "
                   "or is not among them; every subset of predecessors already done"]

    def setup(self, c):
        import copy
        k = c.one_of('instances', [2, 12])
        represents = ['stage1.%d#add' % i for i in range(k)]
        cond_in_list = c.one_of('condition_component_is_represented', [False, True])
        cond_comp = ('%d#add' % (k - 1)) if cond_in_list else ('%d#stop' % (k - 1))
        placeholders = {'stage1.add': {'represents': list(represents), 'latest': represents[-1], 'DoWhileId': 'stage1.loop',
                                       'stage': 1, 'name': 'add'}}
        done = set(represents[:1]) if c.one_of('first_instance_done', [False, True]) else set()
        dw = {'state': {'currentCondition': 'stage1.%s:output' % cond_comp, 'currentIteration': k - 1}}

        def get_compstate(c, name):
            c.raise_(ValueError, 'no ComponentState for %s' % name)
        wg = Obj('workflowgraph', _placeholders=placeholders,
                 get_document_metadata=Extern('get_document_metadata', lambda c, label, did: dw))
        exp = Obj('experiment', experimentGraph=Obj('eg', configuration=Obj('conf', get_application_dependencies=Extern(
            'get_application_dependencies', lambda c: []))), instanceDirectory=Obj('inst', top_level_folders=[]))
        this = Obj('controller', log=NULLLOG, workflowGraph=wg, experiment=exp, comp_done=done, stop_executing=False,
                   get_compstate=Extern('get_compstate', get_compstate))
        return State(args=[this, 'stage1.add'], this=this, placeholders=placeholders, before=copy.deepcopy(placeholders),
                     represents=represents, cond='stage1.%s' % cond_comp, done=set(done))

    def ensures(self, c, st, out):
        if out.kind == 'raise':
            return [('no-exception', False)]
        want = [p for p in st.represents + ([st.cond] if st.cond not in st.represents else []) if p not in st.done]
        return [('placeholder-metadata-is-left-as-it-was', st.placeholders == st.before),
                ('a-placeholder-waits-for-its-instances-and-the-condition', out.value.get('producers') == want and out.value.get('subjects') == [])]

    def cross_compare(self, *a):
        return []


# loop instances are named <iteration>#<name>: graph.ComponentIdentifier / DataReference must parse and print such names
# consistently (C09's contracts on the real classes, whose producer shapes include loop instances)
from pyvc.spec import shared as _shared
import contracts.C09 as _c09
REFERENCE_CLASSES = [_shared(_c09.ComponentIdentifierClass(), 'C05'), _shared(_c09.DataReferenceClass(), 'C05'),
                     _shared(_c09.CompileReference(), 'C05'), _shared(_c09.ParsePrint(), 'C05')]

TARGETS = REFERENCE_CLASSES + [PlaceholderMetadataIsReadOnly(), RewriteAllReferences(), GetAllLoopedIds(), NextIterationKeepsStoredDocument(), DiscoverPlaceholders(), ComputeDoWhileState(), MapPlaceholder(), LoopedReferencePaths(), RewriteComponents(), InstantiateDoWhile()]
LEMMAS = []
