"""C16 -- memoization hashes identify equivalent work and nothing else.

ComponentSpecification._compute_memoization_info (real source) is executed with the file system, the producers' hashes
and the reference discovery as externs, for every combination of {strong, fuzzy} x {file produced by a component,
direct file} x {present, missing, a directory} x backend.  All names, paths, stages and reference strings carry unique
MARKERS, so "the hash does not depend on where the instance lives, on component or stage names" is the frame clause:
no marker reaches the returned record.  "No hash while an input is missing" is the None clause; the fuzzy rule is
checked on the record.  _memoization_info_to_hash: determinism is C15's; its (non-)injectivity is a lemma here."""
import hashlib
import re
import z3
from pyvc.spec import Target, Lemma, State, NULLLOG
from pyvc.values import Obj, Extern, FlexDict, unflex
from pyvc.core import And, Or, Not, Implies, Iff, If, Eq, In, Sym

import experiment.model.errors as errors
import experiment.model.graph as graph_mod

G = 'python/experiment/model/graph.py'
RealDataReference = graph_mod.DataReference
MARKERS = ['INSTANCE-PATH', 'THISCOMPONENT', 'PRODUCERNAME', 'stage7', 'stage8']     # instance location, component and stage names
# ('direct-DIR/...' is a path the developer wrote on the command line: part of the arguments, not a name)


CONTENTS = [b'contents written first', b'contents written later']     # same length: size and mtime cannot tell them apart


def flatten(v):
    if isinstance(v, dict):
        return ' '.join(flatten(k) + ' ' + flatten(x) for k, x in v.items())
    if isinstance(v, (list, tuple)):
        return ' '.join(flatten(x) for x in v)
    return str(v)


class ComputeInfo(Target):
    prop = 'C16'
    name = 'ComponentSpecification._compute_memoization_info'
    file = G
    qualname = 'ComponentSpecification._compute_memoization_info'
    inline_class = {'this': (G, 'ComponentSpecification')}
    pure = ('re.compile', 're.sub', 're.escape')
    max_paths = 50000
    trusted = ["md5 of a file is a function of its contents", "FlowIR.discover_reference_strings finds the reference spellings "
               "present in the arguments", "producers' hashes (recursion over an acyclic graph)",
               "os.path.exists/isdir/isfile, DataReference.location"]
    assumptions = ["one reference (to a producer's file, to a direct file, or to a producer's whole working directory -- with or "
                   "without a hash of that producer), mentioned in the arguments in either spelling or not at all; backend "
                   "local / kubernetes / lsf"]

    def setup(self, c):
        fuzzy = c.one_of('fuzzy', [False, True])
        whole_dir = c.one_of('reference_to', ['a-file', 'the-producers-working-directory']) == 'the-producers-working-directory'
        if whole_dir:
            # stage7.PRODUCERNAME:ref -- the consumer reads the producer's directory; what identifies that input is the
            # PRODUCER'S OWN hash, which may not exist (yet): then the consumer must not get a hash either
            produced, state = True, 'directory'
            method = c.one_of('method', ['ref', 'copy'])
            prod_hash = c.one_of('producer_has_a_hash', [True, False])
        else:
            produced = c.one_of('file_produced_by_a_component', [True, False])
            state = c.one_of('input', ['file', 'missing', 'directory'])
            method = c.one_of('method', ['ref', 'copy', 'output'])
            # the fuzzy hash of a file a component produces is built from THAT producer's fuzzy hash, which may not exist
            prod_hash = c.one_of('producer_has_a_hash', [True, False]) if produced else True
        mention = c.one_of('mentioned_as', ['absolute', 'relative', 'not-mentioned'])
        backend = c.one_of('backend', ['local', 'kubernetes', 'lsf'])
        custom_js = None
        prod_id = 'stage7.PRODUCERNAME' if produced else 'direct-DIR'
        if whole_dir:
            abs_ref, rel_ref = '%s:%s' % (prod_id, method), 'PRODUCERNAME:%s' % method
            location = '/INSTANCE-PATH/stages/stage7/PRODUCERNAME'
        else:
            abs_ref = '%s/out.txt:%s' % (prod_id, method)
            rel_ref = ('PRODUCERNAME/out.txt:%s' % method) if produced else abs_ref
            location = '/INSTANCE-PATH/stages/stage7/PRODUCERNAME/out.txt' if produced else '/INSTANCE-PATH/direct-DIR/out.txt'
        loc_fail = c.one_of('location()', ['ok', 'raises'])

        def loc(c, graph):
            if loc_fail == 'raises':
                c.raise_(errors.DataReferenceFilesDoNotExistError, [])
            return location
        d = Obj('dataref', stringRepresentation=abs_ref, absoluteReference=abs_ref, relativeReference=rel_ref, method=method,
                fileRef=None if whole_dir else 'out.txt', producerIdentifier=Obj('pid', identifier=prod_id),
                location=Extern('DataReference.location', loc))
        prod_spec = Obj('producer-spec', memoization_hash='PRODHASH-STRONG' if prod_hash else None,
                        memoization_hash_fuzzy='PRODHASH-FUZZY' if prod_hash else None,
                        identification=Obj('cid', identifier=prod_id))
        nodes = {prod_id: {'componentSpecification': prod_spec}} if produced else {}
        graph = Obj('nx', nodes=nodes)
        conf = Obj('conf', get_flowir_concrete=Extern('get_flowir_concrete', lambda c, x: Obj('concrete', get_component_identifiers=Extern(
            'get_component_identifiers', lambda c, a, b: {(7, 'PRODUCERNAME')}))),
            _unreplicated=Obj('unrep', get_component_configuration=Extern('get_component_configuration', lambda c, **k: {
                'command': {'executable': 'bin/EXECUTABLE'}})))
        wg = Obj('workflowgraph', graph=graph, configuration=conf)
        args = {'absolute': 'run --in %s --flag' % abs_ref, 'relative': 'run --in %s --flag' % rel_ref,
                'not-mentioned': 'run --flag'}[mention]
        rm = {'config': {'backend': backend}, 'kubernetes': {'image': 'IMAGE:k8s'}, 'lsf': {'dockerImage': 'IMAGE:lsf'}}
        this = Obj('spec', identification=Obj('cid', identifier='stage8.THISCOMPONENT3', componentName='THISCOMPONENT3', stageIndex=8),
                   workflowAttributes={'memoization': {'embeddingFunction': custom_js}}, dataReferences=[d],
                   workflowGraph=wg, workflowGraphRef=Extern('workflowGraphRef', lambda c: wg),
                   producers={prod_id: prod_spec} if produced else {}, commandDetails={'arguments': args},
                   resourceManager=rm)
        return State(args=[this], kwargs={'fuzzy': fuzzy}, fuzzy=fuzzy, produced=produced, state=state, mention=mention,
                     method=method, backend=backend, loc_fail=loc_fail, abs_ref=abs_ref, rel_ref=rel_ref, location=location,
                     whole_dir=whole_dir, prod_hash=prod_hash, version=[0], this=this)

    def externs(self, c, st):
        def discover(c, arguments, stage, comp_ids, out_map):
            for r in (st.abs_ref, st.rel_ref):
                if r in arguments:
                    out_map[r] = r
        def open_(c, path, mode='r', *a, **k):
            # the referenced file, read in chunks by the real md5_of_file closure; its CONTENTS can change between calls
            left = [CONTENTS[st.version[0]]]

            def read(c, n=-1):
                data, left[0] = left[0], b''
                return data
            f = Obj('rfile', read=Extern('file.read', read))
            f.__enter__ = Extern('file.__enter__', lambda c: f)
            f.__exit__ = Extern('file.__exit__', lambda c, *e: None)
            return f
        def stat_(c, path, *a, **k):
            # what the file system tells WITHOUT reading the file: a rewrite with contents of the same length within the
            # same second leaves size and whole-second mtime as they were -- no function of the contents
            if st.state == 'missing':
                raise FileNotFoundError(path)
            return Obj('stat_result', st_size=len(CONTENTS[0]), st_mtime=1700000000.25, st_mtime_ns=1700000000250000000,
                       st_ino=7, st_dev=1, st_mode=0o100644)
        return {'open': Extern('open', open_),
                'os.stat': Extern('os.stat', stat_), 'os.path.getmtime': Extern('os.path.getmtime', lambda c, p: 1700000000.25),
                'os.path.getsize': Extern('os.path.getsize', lambda c, p: len(CONTENTS[0])),
                'os.path.exists': Extern('os.path.exists', lambda c, p: st.state != 'missing'),
                'os.path.isdir': Extern('os.path.isdir', lambda c, p: st.state == 'directory'),
                'os.path.isfile': Extern('os.path.isfile', lambda c, p: st.state == 'file'),
                'experiment.model.frontends.flowir.FlowIR.discover_reference_strings': Extern('discover_reference_strings', discover),
                'traceback.format_exc': Extern('format_exc', lambda c: 'tb')}

    def ensures(self, c, st, out):
        # a producer without a hash is a missing input of everything that reads its directory: no record (None or an error)
        unhashable_producer = (st.whole_dir and not st.prod_hash and st.mention != 'not-mentioned') or \
            (not st.whole_dir and st.produced and not st.prod_hash and st.fuzzy and st.state == 'file' and st.loc_fail == 'ok')
        if out.kind == 'raise':
            return [('no-exception', unhashable_producer)]
        r = out.value
        missing = st.loc_fail == 'raises' or (st.state == 'missing' and ((not st.fuzzy) or (not st.produced)))
        cl = [('no-hash-while-an-input-is-missing', (r is None) if missing else True),
              ('no-hash-while-a-producer-has-no-hash', (r is None) if unhashable_producer else True)]
        if r is None:
            return cl
        flat = flatten(r)
        md5 = hashlib.md5(CONTENTS[0]).hexdigest()
        cl.append(('record-is-free-of-names-paths-and-stages', not any(m in flat for m in MARKERS)))
        cl.append(('record-has-exactly-files-command-backend', set(r) == {'files', 'command', 'backend'}))
        cl.append(('executable-is-the-unresolved-one', r['command']['executable'] == 'bin/EXECUTABLE'))
        img = {'local': {}, 'kubernetes': {'image': 'IMAGE:k8s'}, 'lsf': {'image': 'IMAGE:lsf'}}[st.backend]
        cl.append(('image-is-part-of-the-record', r['backend'] == img))
        if st.whole_dir and st.prod_hash and st.mention != 'not-mentioned' and st.loc_fail == 'ok':
            tok = '%s:%s:%s' % ('fuzzy' if st.fuzzy else 'producer', 'PRODHASH-FUZZY' if st.fuzzy else 'PRODHASH-STRONG', st.method)
            cl.append(('a-directory-reference-is-replaced-by-the-producers-hash', r['command']['arguments'] == 'run --in %s --flag' % tok))
            cl.append(('a-directory-reference-adds-no-file-entry', r['files'] == []))
        if st.state == 'file' and not st.fuzzy and st.loc_fail == 'ok':
            # the hash follows the CURRENT contents: asking the same object again after the file was rewritten gives the
            # record of the new contents (no digest survives from an earlier request)
            st.version[0] = 1
            again = st.this._compute_memoization_info(st.fuzzy)
            st.version[0] = 0
            md5_later = hashlib.md5(CONTENTS[1]).hexdigest()
            cl.append(('a-later-request-hashes-the-current-contents',
                       isinstance(again, dict) and again.get('files') == ['%s:%s' % (md5_later, st.method)]))
        if st.state == 'file' and not unhashable_producer:
            if not st.fuzzy:
                want_files = ['%s:%s' % (md5, st.method)]
            elif st.produced:
                want_files = ['fuzzy#PRODHASH-FUZZY#out.txt:%s' % st.method]
            else:
                want_files = ['%s:%s' % (md5, st.method)]
            cl.append(('files-are-content-hashes-or-producer-fuzzy-hashes', r['files'] == want_files))
            if st.mention != 'not-mentioned':
                tok = 'file:%s:%s' % (want_files[0].rsplit(':', 1)[0], st.method)
                cl.append(('references-in-arguments-are-replaced-by-hashes', r['command']['arguments'] == 'run --in %s --flag' % tok))
        return cl


class SerialiserInjectivity(Lemma):
    """'same hash only for the same work': the serialisation fed to md5 concatenates keys and values without separators,
    so it is NOT injective -- a recorded finding (changing the encoding would invalidate every stored hash)."""
    prop = 'C16'
    name = 'serialiser-injectivity'

    WITNESS = ({'command': {'arguments': 'Y', 'executable': 'executableX'}},
               {'command': {'arguments': 'Yexecutable', 'executable': 'X'}})

    def obligations(self, c):
        a, b = self.WITNESS
        f = graph_mod.ComponentSpecification._memoization_info_to_hash
        self.same = f(a) == f(b)
        return [('different-records-have-different-serialisations', not self.same)]

    def replay(self, model):
        a, b = self.WITNESS
        f = graph_mod.ComponentSpecification._memoization_info_to_hash
        return ('confirmed' if f(a) == f(b) else 'contradicted'), {"record_a": a, "record_b": b, "hash_a": f(a), "hash_b": f(b)}


class CanMemoize(Target):
    """the consumer of the hashes: Controller.can_memoize reuses a past component only when the CDB returned it for a query
    on EXACTLY this component's hash in the matching field (strong hash <-> memoization-hash, fuzzy hash <->
    memoization-hash-fuzzy); no hash, a disabled kind or no database means no reuse; a candidate is taken only if it is accessible."""
    prop = 'C16'
    name = 'Controller.can_memoize'
    file = 'python/experiment/runtime/control.py'
    qualname = 'Controller.can_memoize'
    compare_return = False
    trusted = ["the CDB answers a query {field: hash} with documents whose field equals hash", "datetime.strptime (native)",
               "_is_memoized_candidate_accessible"]
    assumptions = ["<= 2 candidate documents; strong and fuzzy hashes are different symbolic strings or None"]

    def setup(self, c):
        g = c.ghost
        g['queries'] = []
        fuzzy = c.one_of('fuzzy', [False, True])
        has_cdb = c.one_of('cdb', [True, False])
        disabled = c.one_of('disabled_kind', [None, 'strong', 'fuzzy'])
        strong = c.one_of('strong_hash', [None, 'STRONGHASH'])
        fuzz = c.one_of('fuzzy_hash', [None, 'FUZZYHASH'])
        ndocs = c.choice('candidates', 3)
        docs = [{'instance': 'exp-2026-01-0%dT101010.000000.instance' % (k + 1), 'stage': 0, 'name': 'old%d' % k, 'location': '/x'}
                for k in range(ndocs)]
        access = [c.one_of('doc%d.accessible' % k, [True, False]) for k in range(ndocs)]
        fails = c.one_of('cdb_query', ['ok', 'raises']) if has_cdb else 'ok'

        def query(c, query=None, _api_verbose=False):
            g['queries'].append(dict(query))
            if fails == 'raises':
                c.raise_(RuntimeError, 'cdb down')
            return list(docs)
        cspec = Obj('cspec', workflowAttributes={'memoization': {'disable': ({disabled: True} if disabled else {})}})
        comp = Obj('ComponentState', specification=Obj('spec', reference='stage0.c', componentSpecification=cspec),
                   memoization_hash=strong, memoization_hash_fuzzy=fuzz, memoization_info={})
        this = Obj('controller', log=NULLLOG, cdb=(Obj('cdb', cdb_get_document_component=Extern('cdb_get_document_component', query))
                                                   if has_cdb else None),
                   _is_memoized_candidate_accessible=Extern('_is_memoized_candidate_accessible',
                                                            lambda c, d: access[docs.index(d)]))
        return State(args=[this, comp, fuzzy], fuzzy=fuzzy, has_cdb=has_cdb, disabled=disabled, strong=strong, fuzz=fuzz, docs=docs,
                     access=access, fails=fails)

    def externs(self, c, st):
        return {'pprint.pformat': Extern('pformat', lambda c, v: 'x')}

    def ensures(self, c, st, out):
        if out.kind == 'raise':
            return [('no-exception', False)]
        g = c.ghost
        mine = st.fuzz if st.fuzzy else st.strong
        field = 'memoization-hash-fuzzy' if st.fuzzy else 'memoization-hash'
        allowed = st.has_cdb and st.disabled != ('fuzzy' if st.fuzzy else 'strong') and mine is not None
        cl = [('the-database-is-asked-only-about-this-components-own-hash', all(q == {field: mine} for q in g['queries'])),
              ('no-reuse-without-a-hash-a-database-or-permission', allowed or out.value is None)]
        if allowed and st.fails == 'ok':
            ok = [d for d, a in zip(st.docs, st.access) if a]
            # (which of several equivalent candidates is taken is not part of the statement)
            cl.append(('an-accessible-candidate-returned-for-this-hash-is-reused', (out.value is None and not ok) or
                       any(out.value is d for d in ok)))
        return cl


import contracts.C15 as _c15


class Serialiser(_c15.HashSerialisation):
    """the hash is md5 of a canonical serialisation of the record: equal records (whatever their insertion order) give the
    same text, and every key and value of the record is part of it (C15's contract of _memoization_info_to_hash)"""
    prop = 'C16'


class PopulateWorkdir(Target):
    """the last consumer of a matching hash: Controller._memoize_populate_component_workdir fills THE COMPONENT'S OWN working
    directory from exactly the matched past execution (its local directory if present, else the files of that instance /
    stage / component fetched through the CDB) and reports failure -- 'will not memoize' -- when that cannot be done."""
    prop = 'C16'
    name = 'Controller._memoize_populate_component_workdir'
    file = 'python/experiment/runtime/control.py'
    qualname = 'Controller._memoize_populate_component_workdir'
    compare_return = False
    trusted = ["distutils.dir_util.copy_tree(src, dst) copies src into dst", "cdb_download_component_files fetches that component's files"]
    assumptions = ["matched document local / remote; copying or downloading succeeds or raises"]

    def setup(self, c):
        g = c.ghost
        g['copied'] = []
        g['downloaded'] = []
        local = c.one_of('past_execution_is_local', [True, False])
        fails = c.one_of('transfer', ['ok', 'raises'])
        doc = {'location': '/old/inst/stages/stage3/PAST', 'instance': 'file://gw/old/inst', 'stage': 3, 'name': 'PAST'}

        def download(c, uri, stage, name, dest):
            g['downloaded'].append((uri, stage, name, dest))
            if fails == 'raises':
                c.raise_(RuntimeError, 'cdb down')
        comp = Obj('ComponentState', specification=Obj('spec', reference='stage1.me', directory='/new/inst/stages/stage1/me'))
        this = Obj('controller', log=NULLLOG, cdb=Obj('cdb', cdb_download_component_files=Extern('cdb_download_component_files', download)))
        return State(args=[this, comp, doc], local=local, fails=fails, doc=doc)

    def externs(self, c, st):
        g = c.ghost

        def copy_tree(c, src, dst, *a, **k):
            g['copied'].append((src, dst))
            if st.fails == 'raises':
                c.raise_(OSError, 5, 'io error')
            return []
        return {'os.path.isdir': Extern('os.path.isdir', lambda c, p: st.local and p == st.doc['location']),
                'distutils.dir_util.copy_tree': Extern('copy_tree', copy_tree)}

    def ensures(self, c, st, out):
        if out.kind == 'raise':
            return [('a-failed-transfer-is-reported-not-raised', False)]
        g = c.ghost
        mine = '/new/inst/stages/stage1/me'
        cl = [('a-failed-transfer-is-reported-not-raised', True),
              ('success-iff-the-outputs-were-transferred', out.value is (st.fails == 'ok'))]
        if st.local:
            cl.append(('outputs-come-from-the-matched-execution-and-go-to-the-components-own-directory',
                       g['copied'] == [(st.doc['location'], mine)] and g['downloaded'] == []))
        else:
            cl.append(('outputs-come-from-the-matched-execution-and-go-to-the-components-own-directory',
                       g['downloaded'] == [('file://gw/old/inst', 3, 'PAST', mine)] and g['copied'] == []))
        return cl

    def cross_compare(self, *a):
        return []


TARGETS = [ComputeInfo(), CanMemoize(), PopulateWorkdir(), Serialiser()]
LEMMAS = [SerialiserInjectivity()]
import contracts.C09 as _c09
BOUNDED = [_c09.DiscoverReferencesBounded()]
