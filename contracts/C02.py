"""C02 -- stage outcome does not depend on the ordering of notifications (PARTIAL CORRECTNESS; termination is not decided).

Per-function contracts from which the outcome of a stage is a function of (exit reasons, producers' final states):
TransitionComponentToFinalState (exactly one final transition, by the documented rule), Controller.postMortemCheck
(restart XOR exactly one final transition; any exception => failed), the shutdown-propagation rule of
Controller._schedule (shared with C01), StageState.state (a failed component fails the stage), the verdict slice of
Controller.run (UnexpectedJobFailureError iff a component of the stage failed; final-stage leaf rule).  Lemma: the rule
function is total and single-valued, so two terminated executions with the same exit reasons agree (induction over a
topological index).  Liveness ("the stage loop terminates, nothing is left pending") is outside this technique."""
import itertools
import threading
import z3
from pyvc.spec import Target, Lemma, State, NULLLOG
from pyvc.values import Obj, Extern, FlexDict, unflex
from pyvc.core import And, Or, Not, Implies, Iff, If, Eq, In, Sym

import experiment.model.codes as codes
import experiment.model.errors
import experiment.runtime.errors
from contracts import C12 as _c12
from contracts import C01 as _c01

CT = 'python/experiment/runtime/control.py'
WF = 'python/experiment/runtime/workflow.py'
ER = codes.exitReasons
REASONS = list(ER.values())
STATES = list(codes.states)
FINAL = [codes.FINISHED_STATE, codes.FAILED_STATE, codes.SHUTDOWN_STATE]


class TransitionToFinalState(Target):
    prop = 'C02'
    name = 'TransitionComponentToFinalState'
    file = CT
    qualname = 'TransitionComponentToFinalState'

    def setup(self, c):
        c.ghost['finish'] = []
        reason = c.one_of('exitReason', [None, lambda: c.enum('reason', REASONS)])
        shutdown_on = c.sublist('shutdownOn', REASONS)
        comp = Obj('componentstate', finish=Extern('ComponentState.finish', lambda c, s: c.ghost['finish'].append(s)),
                   specification=Obj('spec', reference='stage0.c', workflowAttributes={'shutdownOn': shutdown_on}))
        return State(args=[comp, reason, 0], reason=reason, shutdown_on=shutdown_on)

    def ensures(self, c, st, out):
        if out.kind == 'raise':
            return [('no-exception', False)]
        fin = c.ghost['finish']
        if len(fin) != 1:
            return [('exactly-one-final-transition', False)]
        s = fin[0]
        r = st.reason
        success = False if r is None else Eq(r, ER['Success'])
        listed = False if r is None else (st.shutdown_on.contains(r) if hasattr(st.shutdown_on, 'contains') else r in st.shutdown_on)
        return [('exactly-one-final-transition', True),
                ('success-gives-finished', Iff(success, s == codes.FINISHED_STATE)),
                ('reason-on-the-shutdown-list-gives-shutdown', Iff(And(Not(success), listed), s == codes.SHUTDOWN_STATE)),
                ('anything-else-gives-failed', Iff(And(Not(success), Not(listed)), s == codes.FAILED_STATE))]


class PostMortem(_c12.PostMortemCheck):
    prop = 'C02'


class ScheduleShutdownRule(_c01.Schedule):
    prop = 'C02'


class StageStateRule(Target):
    prop = 'C02'
    name = 'StageState.state'
    file = WF
    qualname = 'StageState.state'
    assumptions = ["<= 3 components per stage, every combination of the 9 component states (exhaustive)"]

    def setup(self, c):
        n = c.choice('components', 4)
        states = [STATES[c.choice('state%d' % i, len(STATES))] for i in range(n)]
        ctrl = c.one_of('controller_state', [None, codes.FAILED_STATE])
        this = Obj('stagestate', controller_state=ctrl, index=0,
                   componentStates={('c%d' % i): Obj('cs%d' % i, state=s) for i, s in enumerate(states)})
        return State(args=[this], states=states, ctrl=ctrl)

    def real_function(self):
        import experiment.runtime.workflow as w
        return w.StageState.state.fget

    def ensures(self, c, st, out):
        S = st.states
        if st.ctrl is not None:
            return [('controller-verdict-wins', out.kind == 'return' and out.value == st.ctrl)]
        if out.kind == 'raise':
            return [('inconsistency-only-for-mixed-idle-states',
                     out.raised(experiment.model.errors.InternalInconsistencyError) and codes.FAILED_STATE not in S
                     and len(set(S)) > 1)]
        v = out.value
        cl = [('a-failed-component-fails-the-stage',
               (v == codes.FAILED_STATE) if (codes.FAILED_STATE in S and codes.RESOURCE_WAIT_STATE not in S) else True),
              ('stage-is-failed-only-if-a-component-failed', (codes.FAILED_STATE in S) if v == codes.FAILED_STATE else True),
              ('all-finished-gives-finished', (v == codes.FINISHED_STATE) if (S and all(s == codes.FINISHED_STATE for s in S)) else True)]
        return cl


class RunVerdict(Target):
    prop = 'C02'
    name = 'Controller.run[verdict]'
    file = CT
    qualname = 'Controller.run'
    slice = ('this_stage_components = self.get_components_in_stage(stage_idx)', 'if len(self.migratedComponents) != 0', False)
    assumptions = ["<= 3 components in the stage, live states symbolic"]

    def setup(self, c):
        n = 1 + c.choice('components', 3)
        comps = []
        succ = {}
        for i in range(n):
            s = c.enum('state%d' % i, FINAL)
            leaf = c.one_of('leaf%d' % i, [True, False])
            eng = Obj('engine%d' % i, job=Obj('job', reference='stage0.c%d' % i), returncode=Extern('returncode', lambda c: 1),
                      exitReason=Extern('exitReason', lambda c: 'KnownIssue'))
            o = Obj('cs%d' % i, state=s, engine=eng,
                    specification=Obj('spec', reference='stage0.c%d' % i, isMigratable=False))
            comps.append(o)
            succ['stage0.c%d' % i] = [] if leaf else ['x']
        final_stage = c.one_of('is_final_stage', [True, False])
        ss = Obj('stagestate', controller_state=None)
        ss.failedComponents = [x for x in comps]      # refined below through an extern-like property
        this = Obj('controller', log=NULLLOG, get_components_in_stage=Extern('get_components_in_stage', lambda c, i: list(comps)),
                   _stageStates={0: ss}, stage=Extern('stage', lambda c: Obj('stage', index=0)), migratedComponents=[],
                   experiment=Obj('exp', numStages=Extern('numStages', lambda c: 1 if final_stage else 2)),
                   graph=Obj('graph', successors=Extern('graph.successors', lambda c, n: succ[n])))
        stage = Obj('stage', index=0, jobs=Extern('jobs', lambda c: []))
        return State(kwargs={'self': this, 'stage_idx': 0, 'stage': stage}, comps=comps, succ=succ, final_stage=final_stage, ss=ss)

    def ensures(self, c, st, out):
        failed = Or(*[Eq(x.state, codes.FAILED_STATE) for x in st.comps])
        leaves = [x for x in st.comps if not st.succ[x.specification.reference]]
        leaf_ok = Or(*[Eq(x.state, codes.FINISHED_STATE) for x in leaves]) if leaves else False
        if out.kind == 'raise':
            job = out.raised(experiment.runtime.errors.UnexpectedJobFailureError)
            leafe = out.raised(experiment.runtime.errors.FinalStageNoFinishedLeafComponents)
            return [('failure-verdict-iff-a-component-failed', Implies(job, failed) if job else True),
                    ('leaf-verdict-only-in-the-final-stage-without-a-finished-leaf',
                     And(Not(failed), st.final_stage, Not(leaf_ok), st.ss.controller_state == codes.FAILED_STATE) if leafe else True),
                    ('only-the-two-documented-verdicts', job or leafe)]
        return [('no-failed-component-when-the-stage-completes', Not(failed)),
                ('final-stage-completes-only-with-a-finished-leaf', Implies(st.final_stage, leaf_ok))]


class RunStageLoop(Target):
    """The stage loop of Controller.run (slice: the closure get_active_components, the `while True` loop and its handlers).
    PARTIAL correctness of 'the stage loop terminates with every component of the stage in a final state': the loop is
    left normally only when no node of the stage is active any more (every node observed in finishedCheck, every loop
    placeholder done or in a final state); every pass calls the scheduler before it waits; an unexpected error stops the
    components (handleError) and is re-raised; after a normal exit the remaining components are stopped exactly once.
    The environment (other threads) finishes components while the loop waits -- at most 3 waits (fairness bound)."""
    prop = 'C02'
    name = 'Controller.run[stage loop]'
    file = CT
    qualname = 'Controller.run'
    slice = ('inactive_states = [', 'this_stage_components = self.get_components_in_stage(stage_idx)', False)
    inline_class = {'this': (CT, 'Controller')}
    trusted = ["finishedCheck adds a node to comp_done when its component reached a final state (C01 / C02 targets above)",
               "threading.Event wait/clear"]
    assumptions = ["2 nodes and <= 1 loop placeholder in the stage; each wait lets any subset of the active nodes finish; "
                   "after the third wait everything has finished (fairness bound; termination itself is NOT decided)"]

    def setup(self, c):
        g = c.ghost
        g['order'] = []
        g['handled'] = []
        g['stopped'] = 0
        names = ['stage0.a', 'stage0.b']
        done = set(n for n in names if c.one_of('%s.done_at_entry' % n, [False, True]))
        has_ph = c.one_of('loop_placeholder', [False, True])
        ph_state = {'v': codes.RUNNING_STATE}
        stop = c.one_of('stop_executing', [False, True])
        sched_fails = c.one_of('_schedule', ['ok', 'raises'])
        waits = {'n': 0}

        def wait(c, t=None):
            waits['n'] += 1
            g['order'].append('wait')
            if waits['n'] > 6:
                # everything has finished three waits ago: a loop that is still waiting never ends
                c.raise_(RuntimeError, 'the stage loop keeps waiting although no node of the stage is active')
            last = waits['n'] >= 3
            for n in names:
                if n not in done and (last or c.one_of('wait%d: %s finishes' % (waits['n'], n), [False, True])):
                    done.add(n)
            if has_ph and ph_state['v'] == codes.RUNNING_STATE and (last or c.one_of('wait%d: placeholder resolves' % waits['n'], [False, True])):
                ph_state['v'] = c.one_of('placeholder_final_state', [codes.FINISHED_STATE, codes.FAILED_STATE, codes.SHUTDOWN_STATE])
            return True

        def schedule(c, **k):
            g['order'].append('schedule')
            if sched_fails == 'raises' and g['order'].count('schedule') == 2:
                c.raise_(RuntimeError, 'scheduler blew up')
        this = Obj('controller', comp_lock=threading.RLock(), log=NULLLOG, comp_done=done, stop_executing=stop,
                   components=['c-a', 'c-b'],
                   get_nodes_in_stage=Extern('get_nodes_in_stage', lambda c, i: list(names)),
                   _get_placeholder_nodes_in_stage=Extern('_get_placeholder_nodes_in_stage', lambda c, i: ['stage0.ph'] if has_ph else []),
                   get_node_state=Extern('get_node_state', lambda c, n: ph_state['v']),
                   _schedule=Extern('_schedule', schedule),
                   _event_scheduler=Obj('event', wait=Extern('Event.wait', wait), clear=Extern('Event.clear', lambda c: None)),
                   handleError=Extern('handleError', lambda c, err, where: g['handled'].append(where)),
                   _stopComponents=Extern('_stopComponents', lambda c, comps, flag: g.__setitem__('stopped', g['stopped'] + 1)))
        return State(kwargs={'self': this, 'stage_idx': 0, 'matchedComponents': []}, this=this, names=names, done=done, has_ph=has_ph,
                     ph_state=ph_state, sched_fails=sched_fails)

    def externs(self, c, st):
        return {'traceback.format_exc': Extern('traceback.format_exc', lambda c: '<tb>')}

    def ensures(self, c, st, out):
        g = c.ghost
        order = g['order']
        if out.kind == 'raise':
            return [('an-unexpected-error-stops-the-components-and-is-re-raised',
                     st.sched_fails == 'raises' and out.raised(RuntimeError) and len(g['handled']) == 1 and g['stopped'] == 0)]
        all_done = all(n in st.done for n in st.names)
        ph_ok = (not st.has_ph) or ('stage0.ph' in st.done) or st.ph_state['v'] in (codes.FINISHED_STATE, codes.FAILED_STATE, codes.SHUTDOWN_STATE)
        waits_after_schedule = all(i > 0 and order[i - 1] == 'schedule' for i, e in enumerate(order) if e == 'wait')
        return [('the-loop-ends-only-when-no-node-of-the-stage-is-active', all_done and ph_ok),
                ('every-pass-schedules-before-it-waits', waits_after_schedule),
                ('remaining-components-are-stopped-once-after-the-loop', g['stopped'] == 1),
                ('an-unexpected-error-stops-the-components-and-is-re-raised', len(g['handled']) == 0)]

    def cross_compare(self, *a):
        return []


class FinishedCheckOnFailure(Target):
    """when a component of the current stage failed, no component of that stage may be left neither submitted nor
    finalised (it would never reach a final state: the scheduler does not submit after a failure)"""
    prop = 'C02'
    name = 'Controller.finishedCheck[failure]'
    file = CT
    qualname = 'Controller.finishedCheck'
    trusted = ["_stopComponents kills the submitted components of the stage; _fake_finish_with_state gives a final state"]

    def setup(self, c):
        g = c.ghost
        g['fake'] = []
        g['stopped'] = None
        st_failed = codes.FAILED_STATE
        comp = _c01.make_component(c, 'stage1.bad', 1, state=st_failed)
        others = []
        staged = set()
        for i in range(2):
            o = _c01.make_component(c, 'stage1.o%d' % i, 1, state=c.enum('o%d.state' % i, STATES))
            o.finishCalled = c.one_of('o%d.finishCalled' % i, [False, True])
            if c.one_of('o%d.staged' % i, [False, True]):
                staged.add(o)
            others.append(o)
        staged.add(comp)
        # the workflow graph (a REAL networkx graph): the other components of the stage may or may not consume the failed one
        import networkx
        graph = networkx.DiGraph()
        for o in [comp] + others:
            graph.add_node(o.specification.reference, stageIndex=1)
        edges = c.choice('edges', 4)        # 0 none, 1 bad->o0, 2 bad->o0->o1, 3 bad->o0 and bad->o1
        if edges >= 1:
            graph.add_edge('stage1.bad', 'stage1.o0')
        if edges == 2:
            graph.add_edge('stage1.o0', 'stage1.o1')
        if edges == 3:
            graph.add_edge('stage1.bad', 'stage1.o1')
        this = Obj('controller', comp_lock=threading.RLock(), _start_sleeping=False, log=NULLLOG, comp_done=set(), graph=graph,
                   _component_finished_while_sleeping=[], comp_condition_to_dowhile={}, comp_staged_in=staged,
                   currentStage=Obj('stage', index=1), stage=Extern('stage', lambda c: Obj('stage', index=1)),
                   cdb=None, stop_executing=False,
                   kill_all_components=Extern('kill_all_components', lambda c, *a: None),
                   _stopComponents=Extern('_stopComponents', lambda c, comps, *a: g.__setitem__('stopped', list(comps))),
                   _fake_finish_with_state=Extern('_fake_finish_with_state', lambda c, o, s: g['fake'].append((o, s))),
                   get_components_in_stage=Extern('get_components_in_stage', lambda c, i: [comp] + others),
                   handleError=Extern('handleError', lambda c, *a: None),
                   generate_status_report_for_nodes=Extern('generate_status_report_for_nodes', lambda c, **k: ''),
                   _event_scheduler=Obj('event', set=Extern('Event.set', lambda c: None)))
        return State(args=[this, 'failed', comp], this=this, others=others, staged=set(staged))

    def externs(self, c, st):
        return {'traceback.format_exc': Extern('traceback.format_exc', lambda c: '<tb>')}

    def ensures(self, c, st, out):
        if out.kind == 'raise':
            return [('no-exception', False)]
        g = c.ghost
        faked = [o for (o, s) in g['fake']]
        ok = True
        for o in st.others:
            pending = (o not in st.staged) and (o.finishCalled is False)
            if pending and not any(x is o for x in faked):
                ok = False
        return [('no-component-of-a-failed-stage-is-left-pending', ok),
                ('unsubmitted-components-are-shut-down-not-failed', all(s == codes.SHUTDOWN_STATE for (_, s) in g['fake'])),
                ('submitted-components-of-the-stage-are-stopped', g['stopped'] is not None)]


def rule(reason_success, reason_on_shutdown_list, unrecoverable, agg, any_prod_failed, nonrep_shut, rep_nonempty_all_shut, any_shut):
    """documented final-state rule of one component as a function of its own exit and its producers' final states:
    returns (finished, shutdown, failed) as formulas"""
    prop_shut = Or(any_prod_failed, If(agg, Or(nonrep_shut, rep_nonempty_all_shut), any_shut))
    shutdown = Or(prop_shut, And(Not(reason_success), reason_on_shutdown_list))
    finished = And(Not(prop_shut), reason_success)
    failed = And(Not(prop_shut), Not(reason_success), Not(reason_on_shutdown_list))
    return finished, shutdown, failed


class FakeFinish(Target):
    """A component that is never launched (its producers failed / were shut down, or the controller stops) receives
    EXACTLY the final state the scheduler decided, exactly once, is recorded as staged (so it is not decided again) and its
    finished-notification is routed to finishedCheck (so its own consumers are resolved in turn)."""
    prop = 'C02'
    name = 'Controller._fake_finish_with_state'
    file = 'python/experiment/runtime/control.py'
    qualname = 'Controller._fake_finish_with_state'
    compare_return = False
    trusted = ["reactivex pipe/subscribe register the callbacks", "ComponentState.finish(state) moves the component to that state"]

    def setup(self, c):
        g = c.ghost
        g['finish'] = []
        g['subscribed'] = []
        state = c.one_of('new_state', [codes.SHUTDOWN_STATE, codes.FAILED_STATE, codes.FINISHED_STATE])

        def observable(tag):
            o = Obj('observable-' + tag)
            o.pipe = Extern('pipe', lambda c, *a: o)
            o.subscribe = Extern('subscribe', lambda c, **k: g['subscribed'].append((tag, sorted(k))))
            return o
        comp = Obj('ComponentState', specification=Obj('spec', reference='stage1.c'), notifyFinished=observable('finished'),
                   notifyPostMortem=observable('postmortem'), finishCalled=False, state='running',
                   finish=Extern('ComponentState.finish', lambda c, s: g['finish'].append(s)))
        staged = set()
        this = Obj('controller', log=NULLLOG, comp_staged_in=staged, controllerPool='pool',
                   statusDatabase=Obj('statusdb', monitorComponent=Extern('monitorComponent', lambda c, comp: None)),
                   finishedCheck=Extern('finishedCheck', lambda c, *a: None), postMortemCheck=Extern('postMortemCheck', lambda c, *a: None),
                   handleError=Extern('handleError', lambda c, *a: None))
        return State(args=[this, comp, state], comp=comp, staged=staged, state=state)

    def externs(self, c, st):
        return {'op.observe_on': Extern('op.observe_on', lambda c, *a: 'op'), 'op.filter': Extern('op.filter', lambda c, *a: 'op'),
                'experiment.runtime.utilities.rx.report_exceptions': Extern('report_exceptions', lambda c, f, *a, **k: f)}

    def ensures(self, c, st, out):
        if out.kind == 'raise':
            return [('no-exception', False)]
        g = c.ghost
        return [('receives-exactly-the-decided-final-state-once', g['finish'] == [st.state]),
                ('is-recorded-as-staged', st.comp in st.staged),
                ('its-finished-notification-is-observed', any(tag == 'finished' and 'on_next' in keys for tag, keys in g['subscribed']))]

    def cross_compare(self, *a):
        return []


class UniqueOutcome(Lemma):
    """the rule gives exactly one final state, and it is a function of its arguments: by induction over a topological
    index, two terminated executions with the same exit reasons assign the same final state to every component"""
    prop = 'C02'
    name = 'unique-outcome'
    assumptions = ["termination of the stage loop", "finish() is issued at most once per component (finishCalled guards)",
                   "no exception inside finishedCheck's own error path"]

    def obligations(self, c):
        args = [c.bool(n) for n in ('success', 'on_shutdown_list', 'unrecoverable', 'agg', 'prod_failed', 'nonrep_shut',
                                    'rep_all_shut', 'any_shut')]
        f, s, x = rule(*args)
        args2 = [c.bool(n + "'") for n in ('success', 'on_shutdown_list', 'unrecoverable', 'agg', 'prod_failed', 'nonrep_shut',
                                           'rep_all_shut', 'any_shut')]
        f2, s2, x2 = rule(*args2)
        same_args = And(*[Iff(a, b) for a, b in zip(args, args2)])
        one = Or(And(f, Not(s), Not(x)), And(s, Not(f), Not(x)), And(x, Not(f), Not(s)))
        return [('exactly-one-final-state', one),
                ('same-inputs-same-final-state', Implies(same_args, And(Iff(f, f2), Iff(s, s2), Iff(x, x2)))),
                ('no-unrecoverable-exit-no-failure-of-its-own', Implies(And(args[0]), Not(x)))]


from pyvc.spec import shared as _shared
TARGETS = [TransitionToFinalState(), PostMortem(), FinishedCheckOnFailure(), StageStateRule(), RunStageLoop(), RunVerdict(), ScheduleShutdownRule(),
           _shared(_c01.ScheduleTwice(), 'C02'),
           FakeFinish()]
LEMMAS = [UniqueOutcome()]
