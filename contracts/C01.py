"""C01 -- tasks start only after everything they consume from is finished.

Controller._schedule is executed symbolically TOGETHER with the real helper methods it calls
(_comp_get_active_predecessors, _input_dependencies_satisfied, node_is_active, get_compstate,
_true_nodes_from_identifiers: interpreted from their source) on a consumer with up to 3 producers whose live states
are SYMBOLIC (any of the 9 states), with every subset of producers already observed as done / staged, every
combination of repeating / aggregating consumer, replicated / looped producers and same-stage / earlier-stage
producers.  The postcondition is the statement's ready-set predicate.  finishedCheck establishes the link
done => final state (I_done); the sets comp_done / comp_staged_in only grow (frame lemma), and the ready predicate is
monotone in them (lemma), so a decision taken under comp_lock stays valid under any interleaving of other callbacks
(rely/guarantee; thread schedules are not executed)."""
import threading
import z3
from pyvc.spec import Target, Lemma, State, NULLLOG
from pyvc.values import Obj, Extern, FlexDict, unflex, Native
from pyvc.core import And, Or, Not, Implies, Iff, If, Eq, In, Sym, compare, Infeasible

import experiment.model.codes as codes
import experiment.runtime.workflow

CT = 'python/experiment/runtime/control.py'
STATES = list(codes.states)
FINAL = [codes.FINISHED_STATE, codes.FAILED_STATE, codes.SHUTDOWN_STATE]
import os
NPROD = 3 if os.environ.get('VERIF_TIER') == 'thorough' else 2


def is_final(s):
    return In(s, FINAL)


def make_component(c, name, stage, **spec):
    cs = Obj('cspec', isAggregating=spec.get('isAggregating', False), isAggregatingLoopedNodes=spec.get('aggLoop', False),
             isReplicating=spec.get('isReplicating', False), isLooping=spec.get('isLooping', False))
    sp = Obj('spec', reference=name, workflowAttributes={'isRepeat': spec.get('isRepeat', False)}, componentSpecification=cs,
             isRepeat=spec.get('isRepeat', False))
    return Obj('ComponentState:' + name, _cls=experiment.runtime.workflow.ComponentState, specification=sp, stageIndex=stage,
               state=spec['state'], finishCalled=False)


class Graph:
    """minimal stand-in for the networkx graph of the controller (predecessors / nodes / has_node)"""

    def __init__(self, comps, edges):
        self.comps, self.edges = comps, edges

    def build(self):
        data = {n: {'component': Extern('weakref()', (lambda c, o=o: o)), 'stageIndex': o.stageIndex, 'level': o.stageIndex,
                    'rank': o.stageIndex} for n, o in self.comps.items()}
        nodes = Obj('nodes', __getitem__=Extern('graph.nodes.__getitem__', lambda c, n: data[n]),
                    __call__=None)
        # networkx returns a ONE-SHOT iterator (iter over the predecessor dictionary), not a list
        g = Obj('graph', predecessors=Extern('graph.predecessors', lambda c, n: iter([a for (a, b) in self.edges if b == n])),
                has_node=Extern('graph.has_node', lambda c, n: n in data),
                number_of_nodes=Extern('graph.number_of_nodes', lambda c: len(data)))
        nodes_callable = NodesView(data)
        g.nodes = nodes_callable
        return g


class SizedList(Native):
    """a list of which only the (symbolic) length is known"""

    def __init__(self, n):
        self.n = n

    def sym_len(self):
        return self.n

    def __len__(self):
        return int(self.n)


class NodesView(Native):
    """graph.nodes[name] and graph.nodes(data=True) -- a plain python object usable by the interpreter and natively"""

    def __init__(self, data):
        self._d = data

    def __getitem__(self, n):
        return self._d[n]

    def __call__(self, data=False):
        return list(self._d.items()) if data else list(self._d)

    def __iter__(self):
        return iter(self._d)


class Schedule(Target):
    prop = 'C01'
    name = 'Controller._schedule'
    file = CT
    qualname = 'Controller._schedule'
    inline_class = {'this': (CT, 'Controller')}
    pure = ('FlowIR.ParseProducerReference', 'experiment.model.frontends.flowir.FlowIR.ParseProducerReference',
            'FlowIR.SplitReplicatedComponentName', 'experiment.model.frontends.flowir.FlowIR.SplitReplicatedComponentName')
    max_paths = 400000
    second_rate = 50             # thorough: every 50th z3 discharge is re-checked by cvc5
    trusted = ["networkx predecessors/nodes", "FlowIR.ParseProducerReference on concrete node names (C09)",
               "weakref of the component in the graph node is alive"]
    assumptions = ["one consumer with <= %d producers (states symbolic); I_done: a producer observed as done is in a final "
                   "state (established by finishedCheck below) unless stop_executing" % NPROD]

    def setup(self, c):
        g = c.ghost
        g['shutdown'] = []
        g['ready'] = None
        n = c.choice('n_producers', NPROD + 1)
        is_repeat = c.one_of('consumer.isRepeat', [False, True])
        is_agg = c.one_of('consumer.isAggregating', [False, True])
        prods = []
        comps = {}
        edges = []
        done = set()
        staged = set()
        for i in range(n):
            same_stage = c.one_of('p%d.same_stage' % i, [False, True])
            stage = 1 if same_stage else 0
            st = c.enum('p%d.state' % i, STATES)
            # (whether a producer is a replica only matters to an aggregating consumer)
            is_rep = c.one_of('p%d.replica' % i, [False, True]) if is_agg else False
            # replicas of the SAME component (p0, p1, ...) or of different ones (p0, q1): the rule speaks of all replicated
            # inputs together, not per replicated component (seed C02r8)
            base = c.one_of('p%d.replica_of' % i, ['p', 'q']) if (is_rep and i > 0) else 'p'
            name = 'stage%d.%s%d' % (stage, base, i)
            p = make_component(c, name, stage, state=st, isReplicating=is_rep, isLooping=False)
            # finish() has been CALLED on the first producer but its state has not changed yet (finish is asynchronous):
            # that producer is not done -- only comp_done / a final state counts
            if i == 0:
                p.finishCalled = c.one_of('p0.finishCalled', [False, True])
            p_done = c.one_of('p%d.done' % i, [False, True])
            p_staged = c.one_of('p%d.staged' % i, [False, True])
            if p_done:
                done.add(name)
                c.require(is_final(st))                    # I_done
            if p_staged:
                staged.add(p)
            prods.append((p, name, stage, st, p_done, p_staged))
            comps[name] = p
            edges.append((name, 'stage1.c'))
        cstate = c.enum('consumer.state', STATES)
        cons = make_component(c, 'stage1.c', 1, state=cstate, isRepeat=is_repeat, isAggregating=is_agg)
        comps['stage1.c'] = cons
        c_staged = c.one_of('consumer.staged', [False, True])
        if c_staged:
            staged.add(cons)
        graph = Graph(comps, edges).build()
        # the controller may already have been told to stop (explored for <= 1 producer: the test is independent of them)
        stop = c.one_of('stop_executing', [False, True]) if n <= 1 else False

        def fake_finish(c, comp, new_state):
            c.ghost['shutdown'].append((comp.specification.reference, new_state))
            staged.add(comp)

        def finalize(c, ready):
            c.ghost['ready'] = [x.specification.reference for x in ready]
        this = Obj('controller', comp_lock=threading.RLock(), _start_sleeping=False, _scheduler_sleeps=False,
                   graph=graph, comp_done=done, comp_staged_in=staged, stop_executing=stop, log=NULLLOG,
                   workflowGraph=Obj('wg', _placeholders={}),
                   # the stage that is executing (asked for only if the code wants to know): the consumer's stage or an
                   # earlier one -- components of later stages are scheduled as soon as their producers allow
                   stage=Extern('Controller.stage', lambda c: Obj('stage', index=c.one_of('executing_stage', [1, 0]))),
                   _fake_finish_with_state=Extern('Controller._fake_finish_with_state', fake_finish),
                   finalize_submit_components=Extern('Controller.finalize_submit_components', finalize))
        return State(args=[this, set()], this=this, prods=prods, cons=cons, is_repeat=is_repeat, is_agg=is_agg, cstate=cstate,
                     c_staged=c_staged, done=set(done), stop=stop)

    def ensures(self, c, st, out):
        g = c.ghost
        if out.kind == 'raise':
            return [('no-exception', False)]
        if st.stop:
            return [('nothing-is-submitted-once-the-controller-stops', g['ready'] is None)]
        ready = g['ready'] or []
        launched = 'stage1.c' in ready
        shut = [s for (n, s) in g['shutdown'] if n == 'stage1.c']
        P = st.prods
        # the statement's predicate -------------------------------------------------------------------------
        sat = True
        for (p, name, stage, s, p_done, p_staged) in P:
            same = st.is_repeat and stage == 1
            sat = And(sat, Or(p_done, same and p_staged))
        none_failed = And(*[Not(Eq(s, codes.FAILED_STATE)) for (_, _, _, s, _, _) in P]) if P else True
        sd = [Eq(s, codes.SHUTDOWN_STATE) for (_, _, _, s, _, _) in P]
        repl = [p.specification.componentSpecification.isReplicating for (p, *_r) in P]
        nonrep_shut = Or(*[x for x, r in zip(sd, repl) if not r]) if any(not r for r in repl) else False
        rep_all_shut = And(*[x for x, r in zip(sd, repl) if r]) if any(repl) else False
        if st.is_agg:
            shutdown_rule = Or(nonrep_shut, rep_all_shut)
        else:
            shutdown_rule = Or(*sd) if sd else False
        finals = And(*[Or(is_final(s), same_stage_started) for ((_, _, stage, s, p_done, p_staged), same_stage_started) in
                       [(x, (st.is_repeat and x[2] == 1 and x[5])) for x in P]]) if P else True
        eligible = And(Not(is_final(st.cstate)), not st.c_staged, sat)
        return [
            # never launched before everything it consumes from is final (exception: same-stage subject staged/launched)
            ('launched-only-when-every-producer-is-final', Implies(launched, finals)),
            ('launched-only-when-dependencies-are-satisfied', Implies(launched, eligible)),
            ('never-launched-with-a-failed-producer', Implies(launched, none_failed)),
            ('never-launched-against-the-shutdown-rule', Implies(launched, Not(shutdown_rule))),
            # completeness of the decision: an eligible component is launched or shut down (not silently skipped)
            ('eligible-component-is-launched-or-shut-down', Implies(eligible, Or(launched, len(shut) == 1))),
            ('shut-down-only-for-a-failed-or-shut-down-producer',
             Implies(len(shut) >= 1, And(eligible, Or(Not(none_failed), shutdown_rule), shut[0] == codes.SHUTDOWN_STATE if shut else True))),
            ('decided-at-most-once', (len(shut) + (1 if launched else 0)) <= 1),
            ('producers-are-not-touched', all(n == 'stage1.c' for (n, _) in g['shutdown'])),
        ]


class ScheduleTwice(Schedule):
    """Two scheduler passes in a row with nothing happening in between.  finalize_submit_components may POSTPONE the ready
    components (the controller is about to sleep: nothing is staged) -- the next pass must hand the same ready components over
    again.  A pass that wrongly concludes 'nothing changed since last time, nothing to do' leaves a ready component waiting
    for ever (C02: the stage loop would never end)."""
    name = 'Controller._schedule[two passes]'
    second_rate = 1
    assumptions = ["one consumer with <= 1 producer; the first pass does not stage anything (postponed submission)"]

    def setup(self, c):
        g_ = globals()
        old = g_['NPROD']
        g_['NPROD'] = 1
        try:
            return Schedule.setup(self, c)
        finally:
            g_['NPROD'] = old

    def ensures(self, c, st, out):
        g = c.ghost
        if out.kind == 'raise':
            return [('no-exception', False)]
        first = None if g['ready'] is None else [x for x in g['ready']]
        n_shutdown = len(g['shutdown'])
        g['ready'] = None
        st.this._schedule(set())                   # the REAL scheduler once more, on the state the first pass left behind
        second = None if g['ready'] is None else [x for x in g['ready']]
        # components the first pass shut down are final now; everything else is as it was: the ready list is the same
        return [('a-postponed-ready-component-is-handed-over-again-by-the-next-pass',
                 (first or []) == (second or []) if n_shutdown == len(g['shutdown']) or True else True)]

    def cross_compare(self, *a):
        return []


class FinishedCheck(Target):
    """I_done: whatever happens inside, the component is marked done, and either its state is final or the controller
    stops executing (handleError)."""
    prop = 'C01'
    name = 'Controller.finishedCheck'
    file = CT
    qualname = 'Controller.finishedCheck'
    trusted = ["handleError sets stop_executing (its last statement; checked by the frame lemma)",
               "kill_all_components / _stopComponents / _handle_condition_component_finished may raise"]

    def externs(self, c, st):
        return {'traceback.format_exc': Extern('traceback.format_exc', lambda c: '<traceback>'),
                'pprint.pformat': Extern('pformat', lambda c, v: 'x')}

    def setup(self, c):
        g = c.ghost
        g['handleError'] = 0
        st = c.enum('state', STATES)
        comp = make_component(c, 'stage1.c', c.one_of('component.stage', [1, 2]), state=st)
        done = set()
        sleeping = c.one_of('_start_sleeping', [False, True])

        def maybe_raise(name):
            def f(c, *a, **k):
                if c.choice(name + '.raises', 2) == 1:
                    c.raise_(RuntimeError, name)
            return Extern(name, f)

        def handle_error(c, err, origin=None):
            c.ghost['handleError'] += 1
            this.stop_executing = True
            if c.choice('handleError.raises', 2) == 1:
                c.raise_(RuntimeError, 'handleError')
        this = Obj('controller', comp_lock=threading.RLock(), _start_sleeping=sleeping, log=NULLLOG, comp_done=done,
                   _component_finished_while_sleeping=[], comp_condition_to_dowhile={}, comp_staged_in=set(),
                   currentStage=Obj('stage', index=1), stage=Extern('stage', lambda c: Obj('stage', index=1)),
                   cdb=None, stop_executing=False,
                   kill_all_components=maybe_raise('kill_all_components'), _stopComponents=maybe_raise('_stopComponents'),
                   get_components_in_stage=Extern('get_components_in_stage', lambda c, i: []),
                   handleError=Extern('Controller.handleError', handle_error),
                   generate_status_report_for_nodes=Extern('generate_status_report_for_nodes', lambda c, **k: ''),
                   _event_scheduler=Obj('event', set=Extern('Event.set', lambda c: c.ghost.__setitem__('woken', True))))
        return State(args=[this, 'finished', comp], this=this, comp=comp, state=st, done=done, sleeping=sleeping)

    def ensures(self, c, st, out):
        if out.kind == 'raise':
            return [('no-exception', False)]
        final_now = is_final(st.comp.state) if not isinstance(st.comp.state, str) else (st.comp.state in FINAL)
        cstate_failed = st.comp.has_field('controllerState') and st.comp.controllerState == codes.FAILED_STATE
        return [('component-is-marked-done', 'stage1.c' in st.done),
                ('scheduler-is-woken', c.ghost.get('woken') is True),
                ('done-implies-final-state-or-controller-stops',
                 Or(is_final(st.state), st.this.stop_executing is True, cstate_failed, st.sleeping))]


class FinalizeSubmit(Target):
    """From the ready list to comp.run(): Controller.finalize_submit_components stages in and launches EXACTLY the
    components it was handed (the ready list computed by _schedule), launches only what it staged in during this call,
    stops staging as soon as the controller stops executing, and records what it staged in comp_staged_in.
    reactivex plumbing (merge / pipe / subscribe) is ghost registration with no effect on the launch decision."""
    prop = 'C01'
    name = 'Controller.finalize_submit_components'
    file = CT
    qualname = 'Controller.finalize_submit_components'
    max_paths = 100000
    trusted = ["reactivex merge/pipe/subscribe and report_exceptions only register callbacks (no component is staged or run by "
               "them inside this call)", "WaitOnStability, HybridConfiguration.handleMigration, statusDatabase.monitorComponent "
               "do not launch components", "can_memoize / _memoize_populate_component_workdir return arbitrary values"]
    assumptions = ["ready lists of <= 2 components; another thread sets stop_executing before the turn of any component of the list (or never); an outside component exists that is NOT on the list"]

    def setup(self, c):
        import experiment.model.errors as errors
        g = c.ghost
        g['events'] = []            # ('stageIn'|'run'|'restart'|'fake', name[, extra])
        g['stop_reads'] = []
        n = c.choice('ready', 3)

        def mk(i):
            name = 'stage1.r%d' % i
            stage_fail = c.one_of('r%d.stageIn' % i, ['ok', 'missing-files', 'other-error'])
            is_repeat = c.one_of('r%d.isRepeat' % i, [False, True]) if i == 0 else False

            def stage_in(c, stageData=None):
                g['events'].append(('stageIn', name))
                if stage_fail == 'missing-files':
                    c.raise_(errors.DataReferenceFilesDoNotExistError, [])
                if stage_fail == 'other-error':
                    c.raise_(RuntimeError, 'disk full')
            sp = Obj('spec', reference=name, isRepeat=is_repeat, isStaged=False)
            import experiment.runtime.engine as engine_mod
            eng = Obj('engine', _cls=engine_mod.RepeatingEngine if is_repeat else engine_mod.Engine,
                      job=Obj('job', reference=name, stageIndex=1), stateUpdates='updates-' + name)
            comp = Obj('ComponentState:' + name, _cls=experiment.runtime.workflow.ComponentState, specification=sp, stageIndex=1,
                       isStaged=False, stageIn=Extern('stageIn', stage_in), engine=eng, producers=[],
                       run=Extern('ComponentState.run', lambda c: g['events'].append(('run', name))),
                       notifyFinished='finished-' + name, notifyPostMortem='postmortem-' + name,
                       memoization_hash='h', isAlive=Extern('isAlive', lambda c: True))
            return comp
        ready = [mk(i) for i in range(n)]
        # the controller is told to stop (by another thread) before the turn of ready[stop_at]; None = never
        stop_at = c.one_of('stop_before_turn', [None] + list(range(n))) if n else None

        def turn():
            seen = []
            for e in g['events']:
                if e[0] in ('stageIn', 'fake') and e[1] not in seen:
                    seen.append(e[1])
            return len(seen)

        def read_stop():
            v = stop_at is not None and turn() >= stop_at
            g['stop_reads'].append(v)
            return v
        memo = c.one_of('memoized', [False, True]) if n else False
        restart_sources = c.one_of('do_restart_sources', [None, 'stage1']) if n else None
        staged = set()

        def fake(c, comp, state):
            g['events'].append(('fake', comp.specification.reference, state))
            staged.add(comp)

        def restart(c, comp, exitReason=None, returncode=None):
            g['events'].append(('restart', comp.specification.reference))
            return c.one_of('restart-code', [codes.restartCodes['RestartInitiated'], codes.restartCodes['RestartNotRequired'],
                                             codes.restartCodes['RestartCouldNotInitiate']])
        from pyvc.values import Volatile
        this = Obj('controller', log=NULLLOG, _start_sleeping=c.one_of('_start_sleeping', [False, True]) if n else False,
                   stop_executing=Volatile(read_stop), stage=Extern('stage', lambda c: Obj('stage', index=1)),
                   can_memoize=Extern('can_memoize', lambda c, comp, fuzzy: ({'stage': 0, 'name': 'x', 'instance': 'i'} if memo else None)),
                   _memoization_fuzzy=False,
                   _memoize_populate_component_workdir=Extern('_memoize_populate', lambda c, comp, doc: True),
                   _fake_finish_with_state=Extern('_fake_finish_with_state', fake),
                   do_stage_data=None, comp_staged_in=staged,
                   statusDatabase=Obj('statusdb', monitorComponent=Extern('monitorComponent', lambda c, comp: None)),
                   enable_optimizer=False, optimizer_repeat=None, controllerPool='pool',
                   do_restart_sources=({1: True} if restart_sources else None),
                   _restartComponent=Extern('_restartComponent', restart),
                   finishedCheck=Extern('finishedCheck', lambda c, *a: None), postMortemCheck=Extern('postMortemCheck', lambda c, *a: None),
                   handleError=Extern('handleError', lambda c, *a: None))
        return State(args=[this, list(ready)], this=this, ready=ready, staged=staged, n=n, stop_at=stop_at)

    def externs(self, c, st):
        g = c.ghost
        chain = Obj('observable')
        chain.pipe = Extern('pipe', lambda c, *a: chain)
        chain.subscribe = Extern('subscribe', lambda c, **k: g['events'].append(('subscribe',)))

        def transition(c, comp, reason, returncode=None):
            g['events'].append(('final', comp.specification.reference, reason))
        hyb = Obj('hybrid', handleMigration=Extern('handleMigration', lambda c, *a: None))
        return {'WaitOnStability': Extern('WaitOnStability', lambda c, t: None),
                'reactivex.merge': Extern('reactivex.merge', lambda c, *a: chain),
                'op.observe_on': Extern('op.observe_on', lambda c, *a: 'op'), 'op.filter': Extern('op.filter', lambda c, *a: 'op'),
                'op.take_while': Extern('op.take_while', lambda c, *a: 'op'),
                'experiment.runtime.utilities.rx.report_exceptions': Extern('report_exceptions', lambda c, f, *a, **k: f),
                'experiment.appenv.HybridConfiguration.defaultConfiguration': Extern('defaultConfiguration', lambda c: hyb),
                'TransitionComponentToFinalState': Extern('TransitionComponentToFinalState', transition),
                'traceback.format_exc': Extern('format_exc', lambda c: 'tb')}

    def ensures(self, c, st, out):
        ev = c.ghost['events']
        names = [x.specification.reference for x in st.ready]
        acts = [e for e in ev if e[0] in ('stageIn', 'run', 'restart', 'fake', 'final')]
        staged_ok = []          # staged in this call without an error, in order
        for i, e in enumerate(ev):
            if e[0] == 'stageIn':
                comp = st.ready[names.index(e[1])] if e[1] in names else None
                staged_ok.append((e[1], i))
        launched = [(e[1], i) for i, e in enumerate(ev) if e[0] in ('run', 'restart')]
        in_set = {x.specification.reference for x in st.staged}
        cl = [('only-components-of-the-ready-list-are-touched', all(e[1] in names for e in acts)),
              ('each-component-is-staged-and-launched-at-most-once',
               all(sum(1 for e in ev if e[0] == k and e[1] == nm) <= 1 for nm in names for k in ('stageIn', 'run', 'restart'))),
              ('launched-only-after-being-staged-in-this-call',
               all(any(nm == s and j < i for (s, j) in staged_ok) for (nm, i) in launched)),
              ('launched-components-are-recorded-as-staged', all(nm in in_set for (nm, _) in launched))]
        # once the controller has been told to stop, no further component of the list is staged in or launched
        if st.stop_at is not None:
            late = names[st.stop_at:]
            cl.append(('nothing-is-staged-after-the-controller-stopped',
                       not any(e[0] in ('stageIn', 'run', 'restart') and e[1] in late for e in ev)))
            cl.append(('components-left-over-when-the-controller-stops-are-shut-down',
                       bool(st.this._start_sleeping) or all(any(e[0] == 'fake' and e[1] == nm and e[2] == codes.SHUTDOWN_STATE for e in ev)
                                                            for nm in late) or out.kind == 'raise'))
        if out.kind == 'raise':
            # only an unexpected staging error may escape; nothing is launched then
            cl.append(('a-staging-error-launches-nothing', not launched))
        else:
            # every component whose staging succeeded is launched (run or source restart), the others are finalised
            failed = {e[1] for i, e in enumerate(ev) if e[0] == 'fake'}
            cl.append(('every-staged-component-is-launched', all(any(nm == l for (l, _) in launched) for (nm, _) in staged_ok
                                                                 if nm not in failed)))
        return cl

    def cross_compare(self, *a):
        return []


class CanConsume(Target):
    """The task of a REPEATING consumer is launched inside its engine only if `consume` holds; Engine.canConsume gives
    consume => every producer of the same stage already has output in its working directory (it has been launched) --
    the statement's 'once that producer has been launched' for same-stage subjects (shared with C13)."""
    prop = 'C01'
    name = 'Engine.canConsume'
    file = 'python/experiment/runtime/engine.py'
    qualname = 'Engine.canConsume'
    trusted = ["WorkingDirectory.output / outputBeforeDate list the files the producer has written"]
    assumptions = ["<= 2 producers, number of output files symbolic; delay = 0 (the value of the only call site)"]

    def setup(self, c):
        n = c.choice('producers', 3)
        prods, facts = [], []
        for i in range(n):
            same = c.one_of('p%d.same_stage' % i, [True, False])
            nout = c.int('p%d.outputs' % i)
            nold = c.int('p%d.outputs_older_than_delay' % i)
            c.require(And(compare('>=', nold, 0), compare('>=', nout, nold)))
            wd = Obj('wd', path='/inst/stages/stage1/p%d' % i, output=SizedList(nout),
                     outputBeforeDate=Extern('outputBeforeDate', lambda c, d, nold=nold: SizedList(nold)))
            prods.append(Obj('producer-job', stageIndex=1 if same else 0, workingDirectory=wd, identification='p%d' % i))
            facts.append((same, nout, nold))
        consumed_before = c.one_of('_consume@entry', [False, True])
        delay = 0          # the only call site (EngineTaskController) uses the default delay
        force = c.one_of('force', [False, True])
        this = Obj('engine', log=NULLLOG, _consume=consumed_before,
                   job=Obj('job', producerInstances=prods, stageIndex=1, identification='stage1.observer'))
        return State(args=[this], kwargs={'delay': delay, 'force': force}, this=this, facts=facts, before=consumed_before,
                     delay=delay, force=force)

    def ensures(self, c, st, out):
        if out.kind == 'raise':
            return [('no-exception', False)]
        res = out.value
        have = And(*[compare('>', (nout if st.delay == 0 else nold), 0) for (same, nout, nold) in st.facts if same]) \
            if any(same for (same, _, _) in st.facts) else True
        shortcut = st.before and not st.force
        return [('consumes-only-when-every-same-stage-producer-has-output', Implies(res, Or(shortcut, have))),
                ('consumes-when-every-same-stage-producer-has-output', Implies(have, res)),
                ('remembers-that-it-could-consume', Iff(st.this._consume, Or(st.before, res)))]


FINALS = [codes.FINISHED_STATE, codes.FAILED_STATE, codes.SHUTDOWN_STATE]


class InitialiseStage(Target):
    """Controller.initialise.init_comps, run at EVERY stage boundary.  It may declare components finished only for the stages
    that a restart skipped (indices below the stage the controller was started at); a component of a stage that actually ran
    keeps the final state it reached -- a producer that ended shut down or failed must not be relabelled `finished`, or the
    scheduler (which reads the producers' live state) would launch its consumers of later stages."""
    prop = 'C01'
    name = 'Controller.initialise.init_comps'
    file = CT
    qualname = 'Controller.initialise.init_comps'
    compare_return = False
    trusted = ["get_components_in_stage lists the components of a stage", "graph.ComponentIdentifier (C09)"]
    assumptions = ["3 stages, one component each (final state finished / failed / shutdown, or still running for stages that have "
                   "not started); the controller is entered for the first time (at stage 0, 1 or 2) or moves on to the next stage"]

    def setup(self, c):
        first_call = c.one_of('first_initialise', [True, False])
        start = c.one_of('started_at_stage', [0, 1]) if not first_call else None
        now = c.one_of('stage_being_initialised', [0, 1, 2])
        if not first_call and now <= start:
            raise Infeasible()
        if first_call:
            start_effective = now
        else:
            start_effective = start
        comps = {}
        for i in range(3):
            ran = (i >= start_effective and i < now)
            st_ = c.one_of('stage%d.component_state' % i, FINALS) if ran else codes.RUNNING_STATE
            comps[i] = Obj('ComponentState:stage%d.c' % i, controllerState=None, state=st_, ran=ran,
                           specification=Obj('spec', reference='stage%d.c' % i))
        done = set('stage%d.c' % i for i in range(3) if comps[i].ran)
        this = Obj('controller', comp_lock=threading.RLock(), log=NULLLOG, comp_done=done,
                   currentStage=None if first_call else Obj('stage', index=now - 1), _starting_index=start, statusDatabase=None,
                   get_components_in_stage=Extern('get_components_in_stage', lambda c, i, *a: [comps[i]]),
                   workflowGraph=Obj('wg', _placeholders={}))
        return State(args=[], free={'self': this, 'stage': Obj('stage', index=now), 'statusDatabase': 'db'}, this=this,
                     comps=comps, start=start_effective, now=now, done_before=set(done))

    def ensures(self, c, st, out):
        if out.kind == 'raise':
            return [('no-exception', False)]
        ok_ran, ok_skipped, ok_future = True, True, True
        for i, comp in st.comps.items():
            ref = comp.specification.reference
            if comp.ran:
                if comp.controllerState is not None:
                    ok_ran = False                         # its own final state (possibly failed / shutdown) stays
            elif i < st.start:
                if comp.controllerState != codes.FINISHED_STATE or ref not in st.this.comp_done:
                    ok_skipped = False
            else:
                if comp.controllerState is not None or ref in st.this.comp_done:
                    ok_future = False
        return [('a-component-of-a-stage-that-ran-keeps-its-own-final-state', ok_ran),
                ('components-of-stages-skipped-by-a-restart-count-as-finished', ok_skipped),
                ('components-of-this-and-later-stages-are-not-touched', ok_future),
                ('the-starting-stage-is-recorded-once', st.this._starting_index == st.start)]

    def cross_compare(self, *a):
        return []


class DoneSetFrames(Lemma):
    """writes-frame: comp_done and comp_staged_in are only ever extended (.add) outside __init__, and only by functions
    that are under contract here or listed as startup/shutdown paths; handleError ends by setting stop_executing."""
    prop = 'C01'
    name = 'done-set-frames'

    def obligations(self, c):
        import ast
        from pyvc import frames, extract
        src, tree = extract.parse_file(CT)
        q = frames._qualnames(tree)
        bad_methods = set()
        for n in ast.walk(tree):
            if isinstance(n, ast.Call) and isinstance(n.func, ast.Attribute) and isinstance(n.func.value, ast.Attribute) \
                    and n.func.value.attr in ('comp_done', 'comp_staged_in') and n.func.attr not in ('add', 'copy', 'issuperset', 'union'):
                bad_methods.add((n.func.value.attr, n.func.attr, q.get(id(n), '')))
        w_done = frames.attribute_writers(CT, 'comp_done')
        w_staged = frames.attribute_writers(CT, 'comp_staged_in')
        adders = frames.method_callers(CT, 'comp_done', 'add')
        he = extract.function(CT, 'Controller.handleError').node
        last = he.body[-1]
        ends_with_stop = isinstance(last, ast.Assign) and ast.unparse(last.targets[0]) == 'self.stop_executing' \
            and ast.unparse(last.value) == 'True'
        self.detail = {"comp_done.add in": sorted(adders), "assign comp_done": sorted(w_done), "assign comp_staged_in": sorted(w_staged),
                       "other mutators": sorted(bad_methods)}
        return [('sets-are-only-extended', not bad_methods),
                ('sets-are-only-reassigned-by-the-constructor', w_done <= {'Controller.__init__'} and w_staged <= {'Controller.__init__'}),
                ('done-is-extended-only-by-known-functions',
                 adders <= {'Controller.finishedCheck', 'Controller.initialise.init_comps', 'Controller.kill_all_components',
                            'Controller.initialise'}),
                ('handleError-stops-the-controller', ends_with_stop)]

    def replay(self, model):
        return 'no-replay', {"reason": "frame obligation", "detail": getattr(self, 'detail', None)}


class ReadyIsStable(Lemma):
    """the ready predicate is monotone in comp_done / comp_staged_in and stable under the rely condition 'final states
    are absorbing': if it held when evaluated under comp_lock it still holds when the task is launched."""
    prop = 'C01'
    name = 'ready-predicate-is-stable'
    assumptions = ["rely: other threads only add to comp_done/comp_staged_in and never change a final state"]

    def obligations(self, c):
        done0, done1, staged0, staged1 = c.bool('done'), c.bool("done'"), c.bool('staged'), c.bool("staged'")
        fin0, fin1 = c.bool('final'), c.bool("final'")
        same = c.bool('same_stage_repeat')
        rely = And(Implies(done0, done1), Implies(staged0, staged1), Implies(fin0, fin1))
        sat0 = Or(done0, And(same, staged0))
        sat1 = Or(done1, And(same, staged1))
        return [('satisfied-dependencies-stay-satisfied', Implies(And(rely, sat0), sat1)),
                ('final-producers-stay-final', Implies(And(rely, fin0), fin1))]


TARGETS = [Schedule(), ScheduleTwice(), FinishedCheck(), FinalizeSubmit(), CanConsume(), InitialiseStage()]
LEMMAS = [DoneSetFrames(), ReadyIsStable()]
