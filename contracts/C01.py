"""C01 -- tasks start only after everything they consume from is finished.

Controller._schedule is executed symbolically TOGETHER with the real helper methods it calls
(_comp_get_active_predecessors, _input_dependencies_satisfied, node_is_active, get_compstate,
_true_nodes_from_identifiers: interpreted from their source) on a consumer with up to 3 producers whose live states
are SYMBOLIC (any of the 9 states), with every subset of producers already observed as done / staged, every
combination of repeating / aggregating consumer, replicated / looped producers and same-stage / earlier-stage
producers.  The postcondition is the statement's ready-set predicate.  finishedCheck establishes the link
done => final state (I_done); the sets comp_done / comp_staged_in only grow (frame lemma), and the ready predicate is
monotone in them (lemma), so a decision taken under comp_lock stays valid under any interleaving of other callbacks
(rely/guarantee; thread schedules are not executed)."""
import threading
import z3
from pyvc.spec import Target, Lemma, State, NULLLOG
from pyvc.values import Obj, Extern, FlexDict, unflex, Native
from pyvc.core import And, Or, Not, Implies, Iff, If, Eq, In, Sym, compare

import experiment.model.codes as codes
import experiment.runtime.workflow

CT = 'python/experiment/runtime/control.py'
STATES = list(codes.states)
FINAL = [codes.FINISHED_STATE, codes.FAILED_STATE, codes.SHUTDOWN_STATE]
import os
NPROD = 3 if os.environ.get('VERIF_TIER') == 'thorough' else 2


def is_final(s):
    return In(s, FINAL)


def make_component(c, name, stage, **spec):
    cs = Obj('cspec', isAggregating=spec.get('isAggregating', False), isAggregatingLoopedNodes=spec.get('aggLoop', False),
             isReplicating=spec.get('isReplicating', False), isLooping=spec.get('isLooping', False))
    sp = Obj('spec', reference=name, workflowAttributes={'isRepeat': spec.get('isRepeat', False)}, componentSpecification=cs,
             isRepeat=spec.get('isRepeat', False))
    return Obj('ComponentState:' + name, _cls=experiment.runtime.workflow.ComponentState, specification=sp, stageIndex=stage,
               state=spec['state'], finishCalled=False)


class Graph:
    """minimal stand-in for the networkx graph of the controller (predecessors / nodes / has_node)"""

    def __init__(self, comps, edges):
        self.comps, self.edges = comps, edges

    def build(self):
        data = {n: {'component': Extern('weakref()', (lambda c, o=o: o))} for n, o in self.comps.items()}
        nodes = Obj('nodes', __getitem__=Extern('graph.nodes.__getitem__', lambda c, n: data[n]),
                    __call__=None)
        g = Obj('graph', predecessors=Extern('graph.predecessors', lambda c, n: [a for (a, b) in self.edges if b == n]),
                has_node=Extern('graph.has_node', lambda c, n: n in data))
        nodes_callable = NodesView(data)
        g.nodes = nodes_callable
        return g


class NodesView(Native):
    """graph.nodes[name] and graph.nodes(data=True) -- a plain python object usable by the interpreter and natively"""

    def __init__(self, data):
        self._d = data

    def __getitem__(self, n):
        return self._d[n]

    def __call__(self, data=False):
        return list(self._d.items()) if data else list(self._d)

    def __iter__(self):
        return iter(self._d)


class Schedule(Target):
    prop = 'C01'
    name = 'Controller._schedule'
    file = CT
    qualname = 'Controller._schedule'
    inline_class = {'this': (CT, 'Controller')}
    pure = ('FlowIR.ParseProducerReference', 'experiment.model.frontends.flowir.FlowIR.ParseProducerReference')
    max_paths = 400000
    second_rate = 50             # thorough: every 50th z3 discharge is re-checked by cvc5
    trusted = ["networkx predecessors/nodes", "FlowIR.ParseProducerReference on concrete node names (C09)",
               "weakref of the component in the graph node is alive"]
    assumptions = ["one consumer with <= %d producers (states symbolic); I_done: a producer observed as done is in a final "
                   "state (established by finishedCheck below) unless stop_executing" % NPROD]

    def setup(self, c):
        g = c.ghost
        g['shutdown'] = []
        g['ready'] = None
        n = c.choice('n_producers', NPROD + 1)
        is_repeat = c.one_of('consumer.isRepeat', [False, True])
        is_agg = c.one_of('consumer.isAggregating', [False, True])
        prods = []
        comps = {}
        edges = []
        done = set()
        staged = set()
        for i in range(n):
            same_stage = c.one_of('p%d.same_stage' % i, [False, True])
            stage = 1 if same_stage else 0
            name = 'stage%d.p%d' % (stage, i)
            st = c.enum('p%d.state' % i, STATES)
            p = make_component(c, name, stage, state=st, isReplicating=c.one_of('p%d.replica' % i, [False, True]),
                               isLooping=False)
            p_done = c.one_of('p%d.done' % i, [False, True])
            p_staged = c.one_of('p%d.staged' % i, [False, True])
            if p_done:
                done.add(name)
                c.require(is_final(st))                    # I_done
            if p_staged:
                staged.add(p)
            prods.append((p, name, stage, st, p_done, p_staged))
            comps[name] = p
            edges.append((name, 'stage1.c'))
        cstate = c.enum('consumer.state', STATES)
        cons = make_component(c, 'stage1.c', 1, state=cstate, isRepeat=is_repeat, isAggregating=is_agg)
        comps['stage1.c'] = cons
        c_staged = c.one_of('consumer.staged', [False, True])
        if c_staged:
            staged.add(cons)
        graph = Graph(comps, edges).build()

        def fake_finish(c, comp, new_state):
            c.ghost['shutdown'].append((comp.specification.reference, new_state))
            staged.add(comp)

        def finalize(c, ready):
            c.ghost['ready'] = [x.specification.reference for x in ready]
        this = Obj('controller', comp_lock=threading.RLock(), _start_sleeping=False, _scheduler_sleeps=False,
                   graph=graph, comp_done=done, comp_staged_in=staged, stop_executing=False, log=NULLLOG,
                   workflowGraph=Obj('wg', _placeholders={}),
                   _fake_finish_with_state=Extern('Controller._fake_finish_with_state', fake_finish),
                   finalize_submit_components=Extern('Controller.finalize_submit_components', finalize))
        return State(args=[this, set()], this=this, prods=prods, cons=cons, is_repeat=is_repeat, is_agg=is_agg, cstate=cstate,
                     c_staged=c_staged, done=set(done))

    def ensures(self, c, st, out):
        g = c.ghost
        if out.kind == 'raise':
            return [('no-exception', False)]
        ready = g['ready'] or []
        launched = 'stage1.c' in ready
        shut = [s for (n, s) in g['shutdown'] if n == 'stage1.c']
        P = st.prods
        # the statement's predicate -------------------------------------------------------------------------
        sat = True
        for (p, name, stage, s, p_done, p_staged) in P:
            same = st.is_repeat and stage == 1
            sat = And(sat, Or(p_done, same and p_staged))
        none_failed = And(*[Not(Eq(s, codes.FAILED_STATE)) for (_, _, _, s, _, _) in P]) if P else True
        sd = [Eq(s, codes.SHUTDOWN_STATE) for (_, _, _, s, _, _) in P]
        repl = [p.specification.componentSpecification.isReplicating for (p, *_r) in P]
        nonrep_shut = Or(*[x for x, r in zip(sd, repl) if not r]) if any(not r for r in repl) else False
        rep_all_shut = And(*[x for x, r in zip(sd, repl) if r]) if any(repl) else False
        if st.is_agg:
            shutdown_rule = Or(nonrep_shut, rep_all_shut)
        else:
            shutdown_rule = Or(*sd) if sd else False
        finals = And(*[Or(is_final(s), same_stage_started) for ((_, _, stage, s, p_done, p_staged), same_stage_started) in
                       [(x, (st.is_repeat and x[2] == 1 and x[5])) for x in P]]) if P else True
        eligible = And(Not(is_final(st.cstate)), not st.c_staged, sat)
        return [
            # never launched before everything it consumes from is final (exception: same-stage subject staged/launched)
            ('launched-only-when-every-producer-is-final', Implies(launched, finals)),
            ('launched-only-when-dependencies-are-satisfied', Implies(launched, eligible)),
            ('never-launched-with-a-failed-producer', Implies(launched, none_failed)),
            ('never-launched-against-the-shutdown-rule', Implies(launched, Not(shutdown_rule))),
            # completeness of the decision: an eligible component is launched or shut down (not silently skipped)
            ('eligible-component-is-launched-or-shut-down', Implies(eligible, Or(launched, len(shut) == 1))),
            ('shut-down-only-for-a-failed-or-shut-down-producer',
             Implies(len(shut) >= 1, And(eligible, Or(Not(none_failed), shutdown_rule), shut[0] == codes.SHUTDOWN_STATE if shut else True))),
            ('decided-at-most-once', (len(shut) + (1 if launched else 0)) <= 1),
            ('producers-are-not-touched', all(n == 'stage1.c' for (n, _) in g['shutdown'])),
        ]


class FinishedCheck(Target):
    """I_done: whatever happens inside, the component is marked done, and either its state is final or the controller
    stops executing (handleError)."""
    prop = 'C01'
    name = 'Controller.finishedCheck'
    file = CT
    qualname = 'Controller.finishedCheck'
    trusted = ["handleError sets stop_executing (its last statement; checked by the frame lemma)",
               "kill_all_components / _stopComponents / _handle_condition_component_finished may raise"]

    def externs(self, c, st):
        return {'traceback.format_exc': Extern('traceback.format_exc', lambda c: '<traceback>'),
                'pprint.pformat': Extern('pformat', lambda c, v: 'x')}

    def setup(self, c):
        g = c.ghost
        g['handleError'] = 0
        st = c.enum('state', STATES)
        comp = make_component(c, 'stage1.c', c.one_of('component.stage', [1, 2]), state=st)
        done = set()
        sleeping = c.one_of('_start_sleeping', [False, True])

        def maybe_raise(name):
            def f(c, *a, **k):
                if c.choice(name + '.raises', 2) == 1:
                    c.raise_(RuntimeError, name)
            return Extern(name, f)

        def handle_error(c, err, origin=None):
            c.ghost['handleError'] += 1
            this.stop_executing = True
            if c.choice('handleError.raises', 2) == 1:
                c.raise_(RuntimeError, 'handleError')
        this = Obj('controller', comp_lock=threading.RLock(), _start_sleeping=sleeping, log=NULLLOG, comp_done=done,
                   _component_finished_while_sleeping=[], comp_condition_to_dowhile={}, comp_staged_in=set(),
                   currentStage=Obj('stage', index=1), stage=Extern('stage', lambda c: Obj('stage', index=1)),
                   cdb=None, stop_executing=False,
                   kill_all_components=maybe_raise('kill_all_components'), _stopComponents=maybe_raise('_stopComponents'),
                   get_components_in_stage=Extern('get_components_in_stage', lambda c, i: []),
                   handleError=Extern('Controller.handleError', handle_error),
                   generate_status_report_for_nodes=Extern('generate_status_report_for_nodes', lambda c, **k: ''),
                   _event_scheduler=Obj('event', set=Extern('Event.set', lambda c: c.ghost.__setitem__('woken', True))))
        return State(args=[this, 'finished', comp], this=this, comp=comp, state=st, done=done, sleeping=sleeping)

    def ensures(self, c, st, out):
        if out.kind == 'raise':
            return [('no-exception', False)]
        final_now = is_final(st.comp.state) if not isinstance(st.comp.state, str) else (st.comp.state in FINAL)
        cstate_failed = st.comp.has_field('controllerState') and st.comp.controllerState == codes.FAILED_STATE
        return [('component-is-marked-done', 'stage1.c' in st.done),
                ('scheduler-is-woken', c.ghost.get('woken') is True),
                ('done-implies-final-state-or-controller-stops',
                 Or(is_final(st.state), st.this.stop_executing is True, cstate_failed, st.sleeping))]


class DoneSetFrames(Lemma):
    """writes-frame: comp_done and comp_staged_in are only ever extended (.add) outside __init__, and only by functions
    that are under contract here or listed as startup/shutdown paths; handleError ends by setting stop_executing."""
    prop = 'C01'
    name = 'done-set-frames'

    def obligations(self, c):
        import ast
        from pyvc import frames, extract
        src, tree = extract.parse_file(CT)
        q = frames._qualnames(tree)
        bad_methods = set()
        for n in ast.walk(tree):
            if isinstance(n, ast.Call) and isinstance(n.func, ast.Attribute) and isinstance(n.func.value, ast.Attribute) \
                    and n.func.value.attr in ('comp_done', 'comp_staged_in') and n.func.attr not in ('add', 'copy', 'issuperset', 'union'):
                bad_methods.add((n.func.value.attr, n.func.attr, q.get(id(n), '')))
        w_done = frames.attribute_writers(CT, 'comp_done')
        w_staged = frames.attribute_writers(CT, 'comp_staged_in')
        adders = frames.method_callers(CT, 'comp_done', 'add')
        he = extract.function(CT, 'Controller.handleError').node
        last = he.body[-1]
        ends_with_stop = isinstance(last, ast.Assign) and ast.unparse(last.targets[0]) == 'self.stop_executing' \
            and ast.unparse(last.value) == 'True'
        self.detail = {"comp_done.add in": sorted(adders), "assign comp_done": sorted(w_done), "assign comp_staged_in": sorted(w_staged),
                       "other mutators": sorted(bad_methods)}
        return [('sets-are-only-extended', not bad_methods),
                ('sets-are-only-reassigned-by-the-constructor', w_done <= {'Controller.__init__'} and w_staged <= {'Controller.__init__'}),
                ('done-is-extended-only-by-known-functions',
                 adders <= {'Controller.finishedCheck', 'Controller.initialise.init_comps', 'Controller.kill_all_components',
                            'Controller.initialise'}),
                ('handleError-stops-the-controller', ends_with_stop)]

    def replay(self, model):
        return 'no-replay', {"reason": "frame obligation", "detail": getattr(self, 'detail', None)}


class ReadyIsStable(Lemma):
    """the ready predicate is monotone in comp_done / comp_staged_in and stable under the rely condition 'final states
    are absorbing': if it held when evaluated under comp_lock it still holds when the task is launched."""
    prop = 'C01'
    name = 'ready-predicate-is-stable'
    assumptions = ["rely: other threads only add to comp_done/comp_staged_in and never change a final state"]

    def obligations(self, c):
        done0, done1, staged0, staged1 = c.bool('done'), c.bool("done'"), c.bool('staged'), c.bool("staged'")
        fin0, fin1 = c.bool('final'), c.bool("final'")
        same = c.bool('same_stage_repeat')
        rely = And(Implies(done0, done1), Implies(staged0, staged1), Implies(fin0, fin1))
        sat0 = Or(done0, And(same, staged0))
        sat1 = Or(done1, And(same, staged1))
        return [('satisfied-dependencies-stay-satisfied', Implies(And(rely, sat0), sat1)),
                ('final-producers-stay-final', Implies(And(rely, fin0), fin1))]


TARGETS = [Schedule(), FinishedCheck()]
LEMMAS = [DoneSetFrames(), ReadyIsStable()]
