"""C09 -- data references parse, print and classify consistently.

Reference strings are STRUCTURED: [stage<N>.] producer [/file] :method with N a symbolic integer, producer and file
ARBITRARY strings over declared character classes (atoms), so every clause is proved for all names at once -- no length
bound, no solver call (the string operations of the real parsers are evaluated by the rules of pyvc/sstr.py).
The real class methods of FlowIR (ParseDataReference, ParseProducerReference, ParseDataReferenceFull, compile_reference,
is_datareference_to_component, expand_potential_component_reference, application_dependency_to_name) are interpreted
from their source together; Manifest.top_level_folders on concrete manifests."""
import os
import z3
from pyvc.spec import Target, Lemma, State, NULLLOG
from pyvc.values import Obj, Extern, FlexDict, unflex
from pyvc.core import And, Or, Not, Implies, Iff, If, Eq, In, Sym, compare, OutsideSubset, Infeasible
from pyvc import sstr
from pyvc.sstr import SStr, Lit, Num, Atom

import experiment.model.frontends.flowir as flowir_mod

FlowIR = flowir_mod.FlowIR
F = 'python/experiment/model/frontends/flowir.py'
SPECIAL = list(FlowIR.SpecialFolders)
METHODS = list(FlowIR.data_reference_methods)
APPDEPS = ['MyApp.application', '/abs/path/Tools.pkg']
APPNAMES = ['myapp', 'tools']
TOPLEVEL = ['hooks', 'extra']
RESERVED = SPECIAL + APPNAMES + TOPLEVEL
NAME_EXCL = ':/.%[] \t\n'        # characters a producer-name atom never holds ('.' handled by the dotted shapes)
FILE_EXCL = ':%[] \t\n'


def flowir_cls(c):
    if c.mode != 'sym':
        return FlowIR
    return Obj('FlowIR', SpecialFolders=list(SPECIAL), VariablePattern=FlowIR.VariablePattern,
               data_reference_methods=list(METHODS))


def S(*parts):
    out = []
    for p in parts:
        if p is None:
            continue
        out.append(p)
    if all(isinstance(p, str) for p in out):
        return ''.join(out)
    return sstr.simplify(SStr([sstr.lift(p) if not isinstance(p, (Lit, Num, Atom, SStr)) else p for p in out]))


def numeral(c, n):
    if c.mode != 'sym':
        return str(n)
    return SStr([Num(n)])


def producer_shapes(c):
    """(kind, producer string, is_component_name)"""
    kind = c.choice('producer_shape', 7)
    name = lambda tag, sample: c.atom(tag, sample, excludes=NAME_EXCL, distinct_from=RESERVED + ['stage', ''],
                                       not_stage_prefixed=True)
    if kind == 0:
        return 'plain', name('prod', 'Generate-Input_2'), True
    if kind == 1:
        return 'dotted', S(name('prodA', 'md'), '.', name('prodB', 'equilibrate-1')), True
    if kind == 2:
        return 'loop-instance', S(numeral(c, c.int('iteration')), '#', name('prodL', 'step')), True
    if kind == 3:
        return 'reserved', SPECIAL[c.choice('reserved', len(SPECIAL))], False
    if kind == 4:
        return 'app-dep', APPNAMES[c.choice('appdep', len(APPNAMES))], False
    if kind == 5:
        return 'top-level', TOPLEVEL[c.choice('toplevel', len(TOPLEVEL))], False
    return 'stage-like-name', S('stage', numeral(c, c.int('k')), c.atom('junk', 'a', excludes=NAME_EXCL + '0123456789',
                                                                     first_not_digit=True), '.', name('prodS', 'x')), True


def file_part(c):
    """None | name | name.ext | dir/name.ext   (atoms are dot-free and slash-free: dots and slashes are explicit)"""
    at = lambda tag, sample: c.atom(tag, sample, excludes=FILE_EXCL + '/.')
    k = c.choice('file', 4)
    if k == 0:
        return None
    if k == 1:
        return at('file', 'README')
    if k == 2:
        return S(at('file', 'out'), '.', at('ext', 'txt'))
    return S(at('dir', 'subdir'), '/', at('file2', 'data'), '.', at('ext2', 'csv'))


class Base(Target):
    prop = 'C09'
    file = F
    inline_class = {'cls': (F, 'FlowIR')}
    max_paths = 50000
    trusted = ["rules of the structured-string domain (pyvc/sstr.py), cross-checked against CPython on every path's "
               "concretisation", "re.compile (patterns are dispatched by text to class-based rules)"]
    assumptions = ["producer-name atoms exclude the characters %r, are non-empty, are not reserved/top-level/application "
                   "names and do not look like 'stage<digits>' (a name that does is the separate shape 'stage-like-name')" % NAME_EXCL,
                   "numerals are canonical (no leading zeros): the printer never produces anything else"]

    def frame(self, c, st, out):
        # FRAME of every function of this family: the class-level table of reserved folders is left alone (a table that grows
        # with the folders / application dependencies of one package changes how the references of the NEXT one are read)
        cls = getattr(st, 'cls', None)
        if cls is None or isinstance(self, ParsePrint):
            return []
        table = list(cls.SpecialFolders)
        if table != list(SPECIAL) and cls is FlowIR:
            FlowIR.SpecialFolders[:] = list(SPECIAL)          # native run on the real class: undo, this process goes on
        return [('the-reserved-folder-table-is-not-modified', table == list(SPECIAL))]

    def common(self, c):
        cls = flowir_cls(c)
        kind, prod, is_comp = producer_shapes(c)
        f = file_part(c)
        method = METHODS[c.choice('method', len(METHODS))]
        stage = c.int('stage')
        c.require(compare('>=', stage, 0))
        return cls, kind, prod, is_comp, f, method, stage


def ref_string(c, prod, f, method, stage=None):
    return S(('stage' if stage is not None else None), (numeral(c, stage) if stage is not None else None),
             ('.' if stage is not None else None), prod, ('/' if f is not None else None), f, ':', method)


def same(a, b):
    if isinstance(a, (SStr, str)) and isinstance(b, (SStr, str)):
        return sstr.equal(a, b)
    if isinstance(a, Sym) or isinstance(b, Sym):
        return Eq(a, b)
    return a == b


class ParsePrint(Base):
    name = 'FlowIR.ParseDataReferenceFull/compile_reference'
    qualname = 'FlowIR.ParseDataReferenceFull'

    def setup(self, c):
        cls, kind, prod, is_comp, f, method, stage = self.common(c)
        absolute = c.one_of('spelling', [True, False])
        if kind in ('reserved', 'app-dep', 'top-level') and absolute:
            # `stage3.data/x:ref`: the FIRST PATH SEGMENT is `stage3.data`, not the folder `data` -- a reference that carries
            # a stage is a reference to a component (which may well be named like a folder or an application dependency)
            is_comp = True
        value = ref_string(c, prod, f, method, stage if absolute else None)
        # callers that know no top-level folders leave the argument out (DataReferenceInfo); the folder shapes need it
        folders = list(TOPLEVEL) if (kind == 'top-level' or c.one_of('special_folders_given', [True, False])) else None
        return State(args=[cls, value], kwargs={'index': stage, 'application_dependencies': list(APPDEPS),
                                                'special_folders': folders},
                     cls=cls, kind=kind, prod=prod, is_comp=is_comp, f=f, method=method, stage=stage, absolute=absolute, value=value)

    def real_function(self):
        return FlowIR.ParseDataReferenceFull.__func__

    def ensures(self, c, st, out):
        # FRAME: parsing a reference leaves the class-level table of reserved folders alone (a table that grows with
        # the application dependencies of one package would change how the references of the NEXT package are classified)
        table = list(st.cls.SpecialFolders)
        frame = ('the-reserved-folder-table-is-not-modified', table == list(SPECIAL))
        if table != list(SPECIAL) and st.cls is FlowIR:
            FlowIR.SpecialFolders[:] = list(SPECIAL)          # native run on the real class: undo, this process goes on
        return [frame] + self._ensures(c, st, out)

    def _ensures(self, c, st, out):
        if out.kind == 'raise':
            return [('no-exception', False)]
        s, p, f, m = out.value
        if not st.is_comp:
            # the statement: reserved / application-dependency / top-level folders are never components
            want_prod = st.prod if st.f is None or st.kind == 'reserved' else st.prod
            return [('not-a-component', s is None), ('method-kept', m == st.method)]
        cl = [('component-has-a-stage', s is not None),
              ('parts-are-the-ones-printed', bool(s is not None and same(p, st.prod) and
                                                  ((f is None and st.f is None) or (f is not None and st.f is not None and same(f, st.f)))
                                                  and m == st.method)),
              ('stage-is-the-printed-or-the-context-stage', True if s is None else Eq(s, st.stage))]
        if s is not None:
            # print(parse(r)) == absolute spelling of r
            cls = st.cls
            # modular: the printer is used through its contract (proved on FlowIR.compile_reference below), in both modes
            printed = ref_string(c, p, f, m, s)
            cl.append(('printing-the-parts-gives-the-absolute-spelling', bool(same(printed, ref_string(c, st.prod, st.f, st.method, st.stage)))))
        return cl


class CompileReference(Base):
    name = 'FlowIR.compile_reference'
    qualname = 'FlowIR.compile_reference'

    def setup(self, c):
        cls, kind, prod, is_comp, f, method, stage = self.common(c)
        with_stage = c.one_of('with_stage', [True, False])
        return State(args=[cls, prod, f, method], kwargs={'stage_index': stage if with_stage else None}, cls=cls,
                     prod=prod, f=f, method=method, stage=stage, with_stage=with_stage)

    def real_function(self):
        return FlowIR.compile_reference.__func__

    def ensures(self, c, st, out):
        if out.kind == 'raise':
            return [('no-exception', False)]
        return [('prints-stage-producer-file-method', bool(same(out.value, ref_string(c, st.prod, st.f, st.method,
                                                                                    st.stage if st.with_stage else None))))]


class Classify(Base):
    name = 'FlowIR.is_datareference_to_component'
    qualname = 'FlowIR.is_datareference_to_component'

    def setup(self, c):
        cls, kind, prod, is_comp, f, method, stage = self.common(c)
        absolute = c.one_of('spelling', [True, False])
        if kind == 'app-dep':
            prod = APPNAMES[0]
        if absolute:
            is_comp = True          # a stage-qualified reference names a component, whatever the component is called
        value = ref_string(c, prod, f, method, stage if absolute else None)
        return State(args=[cls, value], kwargs={'top_level_folders': list(TOPLEVEL) + list(APPNAMES)}, cls=cls, is_comp=is_comp, kind=kind)

    def real_function(self):
        return FlowIR.is_datareference_to_component.__func__

    def ensures(self, c, st, out):
        if out.kind == 'raise':
            return [('no-exception', False)]
        return [('component-iff-not-a-folder-path-or-variable', out.value is st.is_comp)]


class NonComponentForms(Base):
    """absolute paths and variables are never component references"""
    name = 'FlowIR.ParseDataReferenceFull[paths-and-variables]'
    qualname = 'FlowIR.ParseDataReferenceFull'

    def setup(self, c):
        cls = flowir_cls(c)
        form = c.choice('form', 5)
        method = METHODS[c.choice('method', len(METHODS))]
        if form == 3:
            # a variable producer stays a non-component also when the reference carries an explicit stage
            value = S('stage', numeral(c, c.int('k')), '.', '%(gen)s/out.csv:' + method)
        elif form == 4:
            value = S('stage', numeral(c, c.int('k')), '.', c.atom('prefix', 'Simulate', excludes=NAME_EXCL, first_not_digit=True),
                      '%(replica)s:' + method)
        elif form == 0:
            value = S('/', c.atom('absdir', 'tmp', excludes=FILE_EXCL + '/.'), '/', c.atom('absfile', 'f', excludes=FILE_EXCL + '/.'), '.txt', ':', method)
        elif form == 1:
            value = '%(input_dir)s/file.txt:' + method
        else:
            value = S(SPECIAL[c.choice('reserved', len(SPECIAL))], '/', c.atom('file', 'a', excludes=FILE_EXCL + '/.'), '.dat', ':', method)
        return State(args=[cls, value], kwargs={'index': c.int('stage')}, cls=cls, form=form)

    def real_function(self):
        return FlowIR.ParseDataReferenceFull.__func__

    def ensures(self, c, st, out):
        if out.kind == 'raise':
            return [('no-exception', False)]
        return [('never-a-component', out.value[0] is None)]


class Expand(Base):
    name = 'FlowIR.expand_potential_component_reference'
    qualname = 'FlowIR.expand_potential_component_reference'

    def setup(self, c):
        cls, kind, prod, is_comp, f, method, stage = self.common(c)
        absolute = c.one_of('spelling', [True, False]) if is_comp else False
        value = ref_string(c, prod, f, method, stage if absolute else None)
        top = list(TOPLEVEL) + list(APPNAMES) + list(SPECIAL)
        return State(args=[cls, value, stage, None, top], kwargs={}, cls=cls, value=value, prod=prod, f=f, method=method,
                     stage=stage, is_comp=is_comp, absolute=absolute, top=top, kind=kind)

    def real_function(self):
        return FlowIR.expand_potential_component_reference.__func__

    def ensures(self, c, st, out):
        if out.kind == 'raise':
            return [('no-exception', False)]
        want = ref_string(c, st.prod, st.f, st.method, st.stage) if st.is_comp else st.value
        return [('expands-to-the-absolute-spelling-iff-component', bool(same(out.value, want)))]


class ExpandIdempotent(Expand):
    """second application on the (absolute) result of the first"""
    name = 'FlowIR.expand_potential_component_reference[idempotent]'

    def setup(self, c):
        st = Expand.setup(self, c)
        if st.is_comp:
            st.value = ref_string(c, st.prod, st.f, st.method, st.stage)
            st.args[1] = st.value
            # a different context stage must not matter for an absolute reference
            st.args[2] = c.int('other_stage')
        return st

    def ensures(self, c, st, out):
        if out.kind == 'raise':
            return [('no-exception', False)]
        return [('expanding-an-expanded-reference-changes-nothing', bool(same(out.value, st.value)))]


class ManifestTopLevel(Target):
    prop = 'C09'
    name = 'Manifest.top_level_folders'
    file = F
    qualname = 'Manifest.top_level_folders'
    assumptions = ["manifest keys: 'bin', 'nested/dir', 'a/b/c' and 'lib:x' (concrete sample incl. nested paths)"]

    def setup(self, c):
        keys = [k for k in ('bin', 'nested/dir', 'a/b/c', 'conf') if c.choice('has[%s]' % k, 2)]
        this = Obj('manifest', _manifest={k: 'src/%s:copy' % k for k in keys})
        return State(args=[this], keys=keys)

    def real_function(self):
        return flowir_mod.Manifest.top_level_folders.fget

    def ensures(self, c, st, out):
        if out.kind == 'raise':
            return [('no-exception', False)]
        return [('leftmost-path-segment-of-every-key', list(out.value) == [k.split('/', 1)[0] for k in st.keys])]


class AppDepName(Target):
    """FlowIR.application_dependency_to_name: the folder an application dependency is linked as -- leading path and
    trailing '/' removed, exactly the last extension dropped, lower-cased.  The stem is an arbitrary atom; dots inside the
    name (versions) belong to the name."""
    prop = 'C09'
    name = 'FlowIR.application_dependency_to_name'
    file = F
    qualname = 'FlowIR.application_dependency_to_name'
    assumptions = ['application dependency ids: 12 concrete spellings (relative / absolute, with / without extension, '
                   'dotted version in the name, trailing slash): bounded in the vocabulary']
    POOL = [('MyApp.application', 'myapp'), ('myapp', 'myapp'), ('/abs/path/Tools.pkg', 'tools'), ('/abs/tools', 'tools'),
            ('Solver-1.2.application', 'solver-1.2'), ('/opt/apps/Solver-1.2.application', 'solver-1.2'),
            ('/opt/apps/Solver-1.2.application/', 'solver-1.2'), ('a.b.c.d', 'a.b.c'), ('/x.y/Name.ext', 'name'),
            ('Viz.application/', 'viz'), ('/x/y.z/plain', 'plain'), ('UPPER.Case.App', 'upper.case')]

    def setup(self, c):
        i = c.choice('dependency', len(self.POOL))
        return State(args=[flowir_cls(c), self.POOL[i][0]], want=self.POOL[i][1])

    def real_function(self):
        return FlowIR.application_dependency_to_name.__func__

    def ensures(self, c, st, out):
        if out.kind == 'raise':
            return [('no-exception', False)]
        return [('folder-name-without-path-and-last-extension-lowercase', out.value == st.want)]


class ExpandList(Base):
    """FlowIR.expand_component_references: the list form used at load time -- every entry expanded exactly like
    expand_potential_component_reference does (component references to their absolute spelling in the context stage;
    reserved folders, application dependencies given by PATH, top-level folders and files untouched), order and length kept."""
    name = 'FlowIR.expand_component_references'
    qualname = 'FlowIR.expand_component_references'

    def setup(self, c):
        cls = flowir_cls(c)
        stage = c.int('stage')
        c.require(compare('>=', stage, 0))
        prod = c.atom('prod', 'Generate-Input_2', excludes=NAME_EXCL, distinct_from=list(RESERVED) + ['stage', ''],
                      not_stage_prefixed=True, first_not_digit=True)
        method = METHODS[c.choice('method', len(METHODS))]
        # what the package declares: application dependencies and / or top-level folders, or neither
        with_deps = c.one_of('package_has_application_dependencies', [True, False])
        with_top = c.one_of('package_has_top_level_folders', [True, False])
        refs = [S(prod, ':', method), S('stage', numeral(c, stage), '.', prod, '/out.txt:copy'), 'data/file.txt:copy']
        if with_deps:
            refs.append('%s/bin/tool:ref' % APPNAMES[0])
        if with_top:
            refs.append('%s/x:copy' % TOPLEVEL[0])
        empty = c.one_of('empty_list', [False, True])
        return State(args=[cls, [] if empty else refs, stage, None, list(APPDEPS) if with_deps else [], list(TOPLEVEL) if with_top else []],
                     cls=cls, refs=refs, stage=stage, prod=prod, method=method, empty=empty)

    def real_function(self):
        return FlowIR.expand_component_references.__func__

    def ensures(self, c, st, out):
        if out.kind == 'raise':
            return [('no-exception', False)]
        if st.empty:
            return [('an-empty-list-stays-empty', list(out.value) == [])]
        got = list(out.value)
        want0 = S('stage', numeral(c, st.stage), '.', st.prod, ':', st.method)
        n = len(st.refs)
        return [('one-entry-per-reference-in-the-same-order', len(got) == n),
                ('component-references-get-their-absolute-spelling', len(got) == n and bool(same(got[0], want0)) and bool(same(got[1], st.refs[1]))),
                ('files-application-dependencies-and-top-level-folders-are-untouched',
                 len(got) == n and all(got[i] == st.refs[i] for i in range(2, n)))]


G = 'python/experiment/model/graph.py'


class DataReferenceClass(Base):
    """graph.DataReference / graph.ComponentIdentifier: the classes the runtime uses to hold a parsed reference.  The REAL
    constructors and properties are interpreted from their source (the stub objects take every method / property from
    the class's current text); the parser they call is the real FlowIR code (inlined).  Printing what was parsed gives
    the absolute spelling; the relative spelling together with its stage denotes the same producer, file and method."""
    name = 'graph.DataReference (+ ComponentIdentifier)'
    file = G
    qualname = 'DataReference.__init__'
    inline_class = {'this': (G, 'DataReference')}
    inline = {'experiment.model.conf.ParseDataReference': (F, 'FlowIR.ParseDataReference', 'cls'),
              'experiment.model.frontends.flowir.FlowIR.ParseProducerReference': (F, 'FlowIR.ParseProducerReference', 'cls')}
    compare_return = False

    def setup(self, c):
        cls, kind, prod, is_comp, f, method, stage = self.common(c)
        if not is_comp:
            raise Infeasible()      # folders / application dependencies are classified elsewhere, never given to this class
        absolute = c.one_of('spelling', [True, False])
        ctx_stage = stage
        if absolute:
            # a reference that carries its stage ignores the stage of the context it is read in
            ctx_stage = c.one_of('context_stage', [None, lambda: c.int('other_stage')])
            if ctx_stage is not None:
                c.require(compare('>=', ctx_stage, 0))
        value = ref_string(c, prod, f, method, stage if absolute else None)
        this = Obj('datareference')
        return State(args=[this, value, ctx_stage], this=this, cls=cls, prod=prod, f=f, method=method, stage=stage, value=value)

    def externs(self, c, st):
        return {'ComponentIdentifier': Extern('ComponentIdentifier', lambda c, name, index=None:
                                              c.new_instance(G, 'ComponentIdentifier', 'componentidentifier', name, index))}

    def ensures(self, c, st, out):
        if out.kind == 'raise':
            return [('no-exception', False)]
        this = st.this
        pid = this.producerIdentifier
        want_abs = ref_string(c, st.prod, st.f, st.method, st.stage)
        want_rel = ref_string(c, st.prod, st.f, st.method, None)
        want_id = S('stage', numeral(c, st.stage), '.', st.prod)
        fr = this.fileRef
        return [('printing-the-parsed-reference-gives-the-absolute-spelling', bool(same(this.absoluteReference, want_abs))),
                ('string-representation-is-the-absolute-spelling', bool(same(this.stringRepresentation, want_abs))),
                ('relative-spelling-names-the-same-producer-file-and-method', bool(same(this.relativeReference, want_rel))),
                ('producer-identifier-is-stage-and-name', bool(same(pid.identifier, want_id) and same(pid.componentName, st.prod)
                                                               and same(pid.namespace, S('stage', numeral(c, st.stage))))),
                ('producer-stage-is-the-printed-or-the-context-stage', Eq(pid.stageIndex, st.stage)),
                ('file-and-method-are-the-ones-printed', bool(((fr is None and st.f is None) or
                                                               (fr is not None and st.f is not None and same(fr, st.f)))
                                                              and this.method == st.method))]

    def cross_compare(self, *a):
        return []


class ComponentIdentifierClass(Base):
    """graph.ComponentIdentifier on its own: a relative name with its stage and the absolute name are the same identifier,
    and an identifier printed by one instance parses back to the same parts"""
    name = 'graph.ComponentIdentifier'
    file = G
    qualname = 'ComponentIdentifier.__init__'
    inline_class = {'this': (G, 'ComponentIdentifier')}
    inline = {'experiment.model.frontends.flowir.FlowIR.ParseProducerReference': (F, 'FlowIR.ParseProducerReference', 'cls')}
    compare_return = False

    def setup(self, c):
        cls, kind, prod, is_comp, f, method, stage = self.common(c)
        if not is_comp:
            raise Infeasible()      # folders / application dependencies are classified elsewhere, never given to this class
        absolute = c.one_of('spelling', [True, False])
        name = S('stage', numeral(c, stage), '.', prod) if absolute else prod
        this = Obj('componentidentifier')
        return State(args=[this, name, None if absolute else stage], this=this, cls=cls, prod=prod, stage=stage)

    def ensures(self, c, st, out):
        if out.kind == 'raise':
            return [('no-exception', False)]
        this = st.this
        want = S('stage', numeral(c, st.stage), '.', st.prod)
        again = c.new_instance(G, 'ComponentIdentifier', 'reparsed', this.identifier)
        return [('both-spellings-give-the-same-identifier', bool(same(this.identifier, want))),
                ('parts', bool(same(this.componentName, st.prod) and same(this.relativeIdentifier, st.prod)) and
                 Eq(this.stageIndex, st.stage)),
                ('flowir-id-is-stage-and-name', Eq(this.flowir_id[0], st.stage) and bool(same(this.flowir_id[1], st.prod))),
                ('identifier-parses-back-to-the-same-parts', bool(same(again.identifier, want) and same(again.componentName, st.prod)))]

    def cross_compare(self, *a):
        return []


class ReferenceClassesBounded:
    """BOUNDED stand-in (native enumeration, never counted as proved) for the two classes that wrap the parser and the
    printer: graph.DataReference (absoluteReference / relativeReference) and graph.ComponentIdentifier (identifier,
    namespace, to_uid): printing what was parsed gives the absolute spelling, the relative spelling with its stage
    denotes the same reference, and the uid escaping can be undone."""
    name = 'reference-classes[bounded]'
    STAGES = [0, 1, 12]
    PRODUCERS = ['a', 'comp-1', 'x.y', 'stage1a', '0#loop', 'CamelCase_2']
    FILES = [None, 'f.txt', 'dir/f.txt', 'with space.txt']

    def run(self, tier='quick', seed=0):
        import experiment.model.graph as graph_mod
        bad, cases = [], 0
        for st in self.STAGES:
            for prod in self.PRODUCERS:
                cid = graph_mod.ComponentIdentifier('stage%d.%s' % (st, prod))
                cases += 1
                facts = {"identifier": cid.identifier == 'stage%d.%s' % (st, prod), "namespace": cid.namespace == 'stage%d' % st,
                         "componentName": cid.componentName == prod, "stageIndex": cid.stageIndex == st,
                         "relative+stage": graph_mod.ComponentIdentifier(prod, st).identifier == cid.identifier}
                for tricky in ('%', '&', '%26', 'a&b%c'):
                    c2 = graph_mod.ComponentIdentifier('stage%d.%s%s' % (st, prod, tricky))
                    uid = c2.to_uid('file://gw/abs/inst')
                    inst, _, ref = uid.partition('&')
                    facts['uid:' + tricky] = inst == 'file://gw/abs/inst' and '&' not in ref and \
                        ref.replace('%26', '&').replace('%25', '%') == c2.identifier
                for k, ok in facts.items():
                    if not ok:
                        bad.append({"what": "ComponentIdentifier stage%d.%s: %s" % (st, prod, k), "replay": self._replay(st, prod, None, None, k)})
                for f in self.FILES:
                    for method in graph_mod.DataReference.methods:
                        cases += 1
                        tail = ('/' + f if f else '') + ':' + method
                        absolute, relative = 'stage%d.%s%s' % (st, prod, tail), '%s%s' % (prod, tail)
                        try:
                            da = graph_mod.DataReference(absolute)
                            dr = graph_mod.DataReference(relative, st)
                            facts = {"print(parse(abs))": da.absoluteReference == absolute, "relative-of-abs": da.relativeReference == relative,
                                     "abs-of-relative": dr.absoluteReference == absolute, "string": da.stringRepresentation == absolute,
                                     "parts": (da.producerIdentifier.identifier, da.fileRef, da.method) == ('stage%d.%s' % (st, prod), f, method),
                                     "equal": da == dr and hash(da) == hash(dr)}
                        except Exception as err:
                            facts = {"no-exception (%s: %s)" % (type(err).__name__, err): False}
                        for k, ok in facts.items():
                            if not ok:
                                bad.append({"what": "DataReference %s: %s" % (absolute, k), "replay": self._replay(st, prod, f, method, k)})
        return {"name": self.name, "bounded": True,
                "bound": "%d stages x %d producer names x %d files x %d methods" % (len(self.STAGES), len(self.PRODUCERS), len(self.FILES),
                                                                                 len(flowir_mod.FlowIR.data_reference_methods)),
                "cases": cases, "violations": bad[:3], "summary": "%d references, %d mismatches" % (cases, len(bad))}

    def _replay(self, st, prod, f, method, what):
        import json
        base = os.environ.get('PYVC_OUT') or os.path.dirname(os.path.dirname(os.path.abspath(__file__)))
        p = os.path.join(base, 'replays', 'C09')
        os.makedirs(p, exist_ok=True)
        fn = os.path.join(p, 'reference_classes.json')
        json.dump({"property": "C09", "check": self.name, "stage": st, "producer": prod, "file": f, "method": method, "failed": what,
                   "how": "experiment.model.graph.DataReference / ComponentIdentifier on the strings built from these parts"},
                  open(fn, 'w'), indent=1)
        return fn


class DiscoverReferencesBounded:
    """BOUNDED stand-in (native) for FlowIR.discover_reference_strings, which C11 (undeclared references in the arguments)
    and C16 (references in the arguments are replaced by hashes) use through an assumed contract: in a command line built
    from reference tokens and separators it finds exactly the tokens, and maps each to its absolute spelling (a relative
    reference to a known component of the implied stage gets the stage; everything else is kept)."""
    name = 'discover-reference-strings[bounded,native]'
    TEMPLATES = ['--in {0} --flag', '{0} {1}', 'x={0},y={1}', '"{0}" \'{1}\'', '-i {0} ; echo {1} > out.txt', '{1} {0} {1}']

    def run(self, tier='quick', seed=0):
        known = [(0, 'Generate'), (1, 'comp-1'), (1, 'md.equil'), (12, 'Generate')]
        bad, cases = [], 0
        toks = []
        for implied in (0, 1):
            for (st, name) in known:
                for f in (None, 'out.txt', 'dir/f.csv'):
                    for m in ('ref', 'copy', 'output'):
                        tail = ('/' + f if f else '') + ':' + m
                        toks.append((implied, 'stage%d.%s%s' % (st, name, tail), 'stage%d.%s%s' % (st, name, tail)))
                        if st == implied:
                            toks.append((implied, name + tail, 'stage%d.%s%s' % (st, name, tail)))
            toks.append((implied, 'data/input.dat:ref', 'data/input.dat:ref'))
            toks.append((implied, 'Unknown/x:copy', 'Unknown/x:copy'))
        import itertools
        for t_i, template in enumerate(self.TEMPLATES):
            for k in range(0, len(toks) - 1, 3):
                a, b = toks[k], toks[k + 1]
                if a[0] != b[0]:
                    continue
                cases += 1
                text = template.format(a[1], b[1])
                out_map = {}
                try:
                    got = FlowIR.discover_reference_strings(text, a[0], list(known), out_map)
                    want_map = {a[1]: a[2]}
                    if '{1}' in template:
                        want_map[b[1]] = b[2]
                    ok = out_map == want_map and got == sorted(want_map.values())
                    what = None if ok else "in %r (implied stage %d) found %r, expected %r" % (text, a[0], out_map, want_map)
                except Exception as err:
                    what = "on %r: %s: %s" % (text, type(err).__name__, err)
                if what:
                    bad.append({"what": what, "replay": self._replay(text, a[0], what)})
        return {"name": self.name, "bounded": True, "bound": "%d command lines (%d templates)" % (cases, len(self.TEMPLATES)),
                "cases": cases, "violations": bad[:3], "summary": "%d command lines, %d wrong" % (cases, len(bad))}

    def _replay(self, text, implied, what):
        import json
        base = os.environ.get('PYVC_OUT') or os.path.dirname(os.path.dirname(os.path.abspath(__file__)))
        p = os.path.join(base, 'replays', 'C09')
        os.makedirs(p, exist_ok=True)
        fn = os.path.join(p, 'discover_reference_strings.json')
        json.dump({"check": self.name, "text": text, "implied_stage": implied, "failed": what,
                   "how": "FlowIR.discover_reference_strings(text, implied_stage, [(0,'Generate'),(1,'comp-1'),(1,'md.equil'),(12,'Generate')], out_map)"},
                  open(fn, 'w'), indent=1)
        return fn


TARGETS = [CompileReference(), ParsePrint(), Classify(), NonComponentForms(), Expand(), ExpandIdempotent(), ManifestTopLevel(), AppDepName(), ExpandList(), DataReferenceClass(),
           ComponentIdentifierClass()]
LEMMAS = []
BOUNDED = [ReferenceClassesBounded(), DiscoverReferencesBounded()]
