"""C14 -- experiment state files are updated atomically and read back faithfully.

EFFECT rule: open / write / close / os.rename / os.remove / json.dump / yaml_dump / print(file=) are externs that append
to a ghost trace and may fail; every call that can fail forks, so each explored path is one fault placement (the
statement's write boundaries: open, each write, close, rename).  The protocol postcondition is checked on the trace of
EVERY path, normal or exceptional.  Crash points: a conforming trace changes the target only by rename of a complete,
closed temp file, so every prefix of it leaves the target old or new (lemma: prefix closure, POSIX rename atomicity assumed).
Fidelity: Status.writeToStream under contract (frame + content), round trip with statusFromFile as a bounded stand-in."""
import datetime
import z3
from pyvc.spec import Target, Lemma, State, NULLLOG
from pyvc.values import Obj, Extern, Lazy, FlexDict, unflex, Uninterp
from pyvc.core import And, Or, Not, Implies, Iff, If, Eq, In, Sym, OutsideSubset
from contracts.effects import FS, atomic_update_clauses

import experiment.model.data as data_mod

D = 'python/experiment/model/data.py'
O = 'python/experiment/runtime/output.py'
CF = 'python/experiment/model/conf.py'
UUID = 'tmp-6f1c'


def uuid_extern():
    return Extern('uuid.uuid4', lambda c: UUID)


def conc(events):
    return [tuple(e) for e in events]


class StatusUpdate(Target):
    prop = 'C14'
    name = 'Status.update'
    file = D
    qualname = 'Status.update'
    inline_class = {'this': (D, 'Status')}
    trusted = ["open/write/close/os.rename fail only with IOError/OSError at the modelled boundaries",
               "POSIX rename within one directory is atomic and replaces the target", "uuid.uuid4 names are fresh"]

    def setup(self, c):
        desc = c.one_of('error-description', [None, lambda: c.str('desc')])
        data = {'current-stage': 'stage0', 'stages': "['stage0']", 'exit-status': 'N/A'}
        if desc is not None:
            data['error-description'] = desc
        this = Obj('status', data=data, outputDir='/inst/output', outputFile='/inst/output/status.txt', log=NULLLOG)
        st = State(args=[this], this=this)
        st.fs = FS(c)
        return st

    def externs(self, c, st):
        ex = st.fs.externs()
        ex['uuid.uuid4'] = uuid_extern()
        ex['datetime.datetime'] = Obj('datetime-class', now=Extern('datetime.now', lambda c: 'NOW'))
        return ex

    def ensures(self, c, st, out):
        ev = conc(c.events)
        target = '/inst/output/status.txt'
        cl = atomic_update_clauses(ev, {target})
        renamed = any(e[0] == 'rename' and e[2] == target for e in ev)
        cl += [('no-exception-escapes', out.kind == 'return'),
               ('reports-success-iff-replaced', out.kind == 'return' and (out.value is True) == renamed)]
        return cl


ESC = Uninterp('unicode_escape', doc="s.encode('unicode_escape').decode('utf-8')")


class StatusWriteToStream(Target):
    prop = 'C14'
    name = 'Status.writeToStream'
    file = D
    qualname = 'Status.writeToStream'
    abstracted = True
    trusted = ["str.encode('unicode_escape').decode('utf-8') is a function of the string (uninterpreted); its inverse in "
               "statusFromFile is checked by the bounded round trip"]

    def setup(self, c):
        has_desc = c.choice('has-error-description', 2)
        desc = c.str('desc')
        data = {'current-stage': c.str('stage'), 'exit-status': 'N/A'}
        if has_desc:
            data['error-description'] = desc
        c.ghost['written'] = []
        stream = Obj('stream', write=Extern('stream.write', lambda c, s: c.ghost['written'].append(s)))
        this = Obj('status', data=data)
        return State(args=[this, stream], this=this, before=dict(data), has_desc=has_desc, desc=desc)

    def ensures(self, c, st, out):
        if out.kind == 'raise':
            return [('no-exception', False)]
        after = st.this.data
        same = set(after) == set(st.before) and all(_same_value(after[k], st.before[k]) for k in after)
        # the history quantifier (n updates == 1 update): writing must not change the object that is written
        return [('writing-does-not-change-the-status', same),
                ('one-line-per-key', len(c.ghost['written']) == len(st.before))]

    def cross_compare(self, *a):
        return []


class EscStr(Sym):
    """a symbolic string with .encode('unicode_escape').decode('utf-8') modelled as an uninterpreted function"""
    __slots__ = ()

    def __init__(self, s):
        Sym.__init__(self, s.e if isinstance(s, Sym) else z3.StringVal(s))


def _same_value(a, b):
    if isinstance(a, Sym) or isinstance(b, Sym):
        if not (isinstance(a, Sym) and isinstance(b, Sym)):
            return False
        return bool(z3.eq(z3.simplify(a.e), z3.simplify(b.e)))
    return a == b


class UpdateLogs(Target):
    prop = 'C14'
    name = 'OutputAgent.updateLogs'
    file = O
    qualname = 'OutputAgent.updateLogs'
    max_paths = 20000
    trusted = ["open/write/close/os.rename as in Status.update", "ConfigurationFileToJson reads the output file"]
    assumptions = ["at most 2 key outputs (BOUNDED; each contributes 10 write boundaries)"]

    def setup(self, c):
        n = c.choice('n_key_outputs', 3)
        refs = {}
        for i in range(n):
            refs['out%d' % i] = {'status': {'version': c.one_of('version%d' % i, [0, 2]), 'lastLocation': 'stages/x/f%d' % i,
                                            'description': 'd', 'type': 't', 'creationTime': 'now', 'production': 'yes',
                                            'final': 'no'}}
        import threading
        this = Obj('agent', dataReferences=refs, outputDir=Obj('dir', path='/inst/output'),
                   outputFile='/inst/output/output.txt', log=NULLLOG,
                   experiment=Obj('exp', instanceDirectory=Obj('idir', mtx_output=threading.RLock())))
        st = State(args=[this], this=this)
        st.fs = FS(c)
        return st

    def externs(self, c, st):
        ex = st.fs.externs()
        ex['uuid.uuid4'] = uuid_extern()

        def to_json(c, filename):
            c.event('read-for-json', filename)
            if c.choice('ConfigurationFileToJson', 2) == 1:
                c.raise_(IOError, 5, 'cannot read')
            return '{}'
        ex['experiment.model.conf.ConfigurationFileToJson'] = Extern('ConfigurationFileToJson', to_json)
        return ex

    def ensures(self, c, st, out):
        ev = conc(c.events)
        cl = atomic_update_clauses(ev, {'/inst/output/output.txt', '/inst/output/output.json'})
        cl.append(('no-exception-escapes', out.kind == 'return'))
        return cl


class StatusDetails(Target):
    prop = 'C14'
    name = 'StatusMonitor.try_generate_status_details'
    file = O
    qualname = 'StatusMonitor.try_generate_status_details'
    trusted = ["json.dump writes to the stream (may fail with IOError)", "open/os.rename as in Status.update"]

    def setup(self, c):
        import threading
        details = c.one_of('status_details', [None, {'stages': {}}])
        db = c.one_of('status_database', [None, lambda: Obj('db', getWorkflowStatus=Extern(
            'StatusDB.getWorkflowStatus', lambda c, json_friendly=True: details))])
        this = Obj('monitor', mtx_compute_status=threading.RLock(), _status_database=db, log=NULLLOG,
                   experiment=Obj('exp', instanceDirectory=Obj('idir', outputDir='/inst/output')))
        st = State(args=[this], this=this)
        st.fs = FS(c)
        return st

    def externs(self, c, st):
        ex = st.fs.externs()
        ex['uuid.uuid4'] = uuid_extern()
        ex['json.dump'] = st.fs.dump_to('json.dump')
        return ex

    def ensures(self, c, st, out):
        ev = conc(c.events)
        cl = atomic_update_clauses(ev, {'/inst/output/status_details.json'})
        cl.append(('no-exception-escapes', out.kind == 'return'))
        return cl


class StoreFlowIR(Target):
    prop = 'C14'
    name = 'FlowIRExperimentConfiguration.store_unreplicated_flowir_to_disk'
    file = CF
    qualname = 'FlowIRExperimentConfiguration.store_unreplicated_flowir_to_disk'
    trusted = ["yaml_dump writes to the stream (may fail)", "FlowIRConcrete.instance / pretty_flowir_sort return data or raise"]

    def setup(self, c):
        def instance(c, **k):
            if c.choice('instance()', 2) == 1:
                c.raise_(ValueError, 'cannot build instance')
            return {'components': []}
        this = Obj('conf', _conf_dir='/inst/conf', _unreplicated=Obj('concrete', instance=Extern('FlowIRConcrete.instance', instance)))
        st = State(args=[this], this=this)
        st.fs = FS(c, write_error=IOError)
        return st

    def externs(self, c, st):
        ex = st.fs.externs()
        ex['uuid.uuid4'] = uuid_extern()
        ex['experiment.model.frontends.flowir.yaml_dump'] = st.fs.dump_to('yaml_dump')
        ex['experiment.model.frontends.flowir.FlowIR.pretty_flowir_sort'] = Extern('pretty_flowir_sort', lambda c, v: v)
        return ex

    def ensures(self, c, st, out):
        ev = conc(c.events)
        return atomic_update_clauses(ev, {'/inst/conf/flowir_instance.yaml'})


class GenerateInstanceFiles(Target):
    prop = 'C14'
    name = 'FlowIRExperimentConfiguration._generate_instance_files'
    file = CF
    qualname = 'FlowIRExperimentConfiguration._generate_instance_files'
    trusted = ["yaml_dump writes to the stream (may fail)", "store_unreplicated_flowir_to_disk as proved above"]

    def setup(self, c):
        c.ghost['store_calls'] = 0

        def store(c):
            c.ghost['store_calls'] += 1
            if c.choice('store', 2) == 1:
                c.raise_(IOError, 28, 'disk full')
        this = Obj('conf', _conf_dir='/inst/conf', store_unreplicated_flowir_to_disk=Extern('store_unreplicated_flowir_to_disk', store),
                   manifestData={'bin': 'bin'})
        errs = []
        create = c.one_of('create_instance_files', [True, False])
        update = c.one_of('update_instance_files', [True, False])
        st = State(args=[this, create, update, errs], this=this, errs=errs)
        st.fs = FS(c)
        return st

    def externs(self, c, st):
        ex = st.fs.externs()
        ex['uuid.uuid4'] = uuid_extern()
        ex['experiment.model.frontends.flowir.yaml_dump'] = st.fs.dump_to('yaml_dump')
        ex['os.path.exists'] = Extern('os.path.exists', lambda c, p: c.bool('exists(%s)' % p.split('/')[-1]))
        return ex

    def ensures(self, c, st, out):
        ev = conc(c.events)
        cl = atomic_update_clauses(ev, {'/inst/conf/manifest.yaml', '/inst/conf/flowir_instance.yaml'})
        cl.append(('errors-are-collected-not-raised', out.kind == 'return'))
        return cl


WS = ' \t\n\r\x0b\x0c'
REAL_STATUS = data_mod.Status


class StatusFromFile(Target):
    """Status.statusFromFile on the text that Status.writeToStream produces (one `key=value` line per key, sorted): every
    field is read back with exactly the text that was written -- values are ARBITRARY strings without whitespace ('%', quotes ...; one of them
    contains the separator '='), keys are the ones the runtime writes.  The real Status constructor is interpreted too
    (the Status(...) call inside statusFromFile builds a stub whose methods are the real ones)."""
    prop = 'C14'
    name = 'Status.statusFromFile'
    file = D
    qualname = 'Status.statusFromFile'
    compare_return = False
    trusted = ["open(...).read() returns the bytes of the file (the trace side is Status.update)",
               "str.encode('utf-8').decode('unicode_escape') inverts the escaping of writeToStream (bounded round trip below)"]
    assumptions = ["values of the plain fields contain no whitespace (the constructor strips values: a value with leading or "
                   "trailing blanks is NOT read back verbatim -- the runtime writes states, numbers and timestamps); "
                   "error-description: concrete hostile samples"]
    KEYS = ['cost', 'current-stage', 'exit-status', 'experiment-state', 'stage-progress', 'stage-state', 'total-progress']
    DESCS = [None, 'plain', 'two\nlines and = sign', 'back\\slash \t tab', '  padded with blanks \n']

    def setup(self, c):
        present = [k for k in self.KEYS if c.one_of('writes:' + k, [True, False])] if c.one_of('all_fields', [True, False]) is False \
            else list(self.KEYS)
        values = {k: c.atom('value:' + k, 'Val-%s' % k, excludes=WS + '=') for k in present}
        if 'exit-status' in values:
            # a value that certainly contains the separator of the file format
            from pyvc import sstr as _s
            pieces = (values['exit-status'], '=', c.atom('value:exit-status:tail', 'X', excludes=WS + '='))
            values['exit-status'] = _s.simplify(_s.concat(_s.concat(pieces[0], pieces[1]), pieces[2])) if c.mode == 'sym' else ''.join(pieces)
        desc = self.DESCS[c.choice('error-description', len(self.DESCS))]
        lines = {k: values[k] for k in present}
        lines['stages'] = "['stage0', 'stage1']"
        if desc is not None:
            lines['error-description'] = desc.encode('unicode_escape').decode('utf-8')
        from pyvc import sstr as _sstr
        text = ''
        for k in sorted(lines):
            for piece in (k, '=', lines[k], '\n'):
                text = _sstr.simplify(_sstr.concat(text, piece)) if c.mode == 'sym' else text + piece
        cls = Obj('Status-class')
        return State(args=[cls, '/inst/output/status.txt'], values=values, desc=desc, text=text, cls=cls)

    def real_function(self):
        return REAL_STATUS.__dict__['statusFromFile'].__func__       # the module global `Status` is patched during native runs

    def externs(self, c, st):
        f = Obj('file', read=Extern('file.read', lambda c: st.text), __enter__=None, __exit__=None)
        f.__enter__ = Extern('file.__enter__', lambda c: f)
        f.__exit__ = Extern('file.__exit__', lambda c, *a: False)
        ctor = Extern('Status', lambda c, filename, data, stages: c.new_instance(D, 'Status', 'status', filename, data, stages))
        ctor.defaults = dict(data_mod.Status.defaults)
        return {'open': Extern('open', lambda c, fn, mode='r': f), 'Status': ctor}

    def ensures(self, c, st, out):
        if out.kind == 'raise':
            return [('a-written-status-file-can-be-loaded', False)]
        from pyvc import sstr as _sstr
        loaded = out.value.data
        ok = True
        for k, v in st.values.items():
            got = loaded.get(k)
            if not (isinstance(got, (str, _sstr.SStr)) and _sstr.equal(got, v)):
                ok = False
        untouched = all(loaded.get(k) == data_mod.Status.defaults[k] for k in self.KEYS if k not in st.values)
        return [('a-written-status-file-can-be-loaded', True),
                ('every-field-is-read-back-as-written', ok),
                ('fields-not-in-the-file-keep-their-defaults', untouched),
                ('stages-are-read-back', list(loaded.get('stages')) == ['stage0', 'stage1']),
                ('the-error-description-is-read-back-verbatim', loaded.get('error-description') == st.desc if st.desc is not None
                 else 'error-description' not in loaded)]

    def cross_compare(self, *a):
        return []


class PrefixClosure(Lemma):
    """every prefix of a conforming trace leaves the target file equal to the old or the new version:
    the only event that changes a target is rename(t, target) of a complete temp file, and it is atomic (assumed)."""
    prop = 'C14'
    name = 'prefix-closure'
    assumptions = ["POSIX rename atomicity"]

    def obligations(self, c):
        # abstract file state: 0 = old complete version, 1 = new complete version, 2 = anything else
        s0, s1 = c.int('state_before'), c.int('state_after')
        is_rename_complete = c.bool('event_is_rename_of_complete_temp')
        touches_target = c.bool('event_touches_target')
        conforming = Implies(touches_target, is_rename_complete)         # what atomic_update_clauses establish
        step = And(Implies(Not(touches_target), s1 == s0), Implies(is_rename_complete, s1 == 1))
        inv0 = Or(s0 == 0, s0 == 1)
        return [('every-prefix-leaves-old-or-new', Implies(And(inv0, conforming, step), Or(s1 == 0, s1 == 1)))]


class StatusRoundTrip:
    """BOUNDED stand-in (never counted as proved): write with the real Status.writeToStream through a real temp file,
    read back with the real Status.statusFromFile, for hostile error descriptions and 1..3 successive updates."""
    name = 'status-roundtrip[bounded]'

    def run(self, tier='quick', seed=0):
        import os, random, tempfile, shutil
        rng = random.Random(seed)
        pool = ['plain', 'two\nlines', 'back\\slash', 'tab\there', 'eq=sign', 'quote"\'', 'unié中', 'trailing\\',
                'mixed\\n\nreal', '']
        alphabet = ['a', '\n', '\\', '=', 'n', '\t', ' ', 'é', '"']
        for _ in range(200 if tier == 'quick' else 3000):
            pool.append(''.join(rng.choice(alphabet) for _ in range(rng.randint(1, 8))))
        d = tempfile.mkdtemp(prefix='pyvc-c14-')
        bad = []
        try:
            for desc in pool:
                for updates in (1, 2, 3):
                    fn = os.path.join(d, 'status.txt')
                    stt = data_mod.Status(fn, {}, ['stage0'])
                    stt.setErrorDescription(desc)
                    stt.data['exit-status'] = 'Failed=1%(x)s"q\''
                    stt.data['current-stage'] = 'Stage-%d' % updates
                    ok = True
                    for _ in range(updates):
                        ok = stt.update() and ok
                    back = data_mod.Status.statusFromFile(fn)
                    got = back.data.get('error-description')
                    other = [k for k in stt.data if k not in ('stages', 'updated', 'error-description')
                             and back.data.get(k) != '%s' % stt.data[k]]
                    if other:
                        got = "field %s read back as %r" % (other[0], back.data.get(other[0]))
                    if not ok or got != desc:
                        bad.append({"what": "status round trip: wrote %r with %d update(s), read %r" % (desc, updates, got),
                                    "replay": self._replay(desc, updates, got)})
                        break
        finally:
            shutil.rmtree(d, ignore_errors=True)
        return {"name": self.name, "bounded": True, "bound": "%d descriptions x 1..3 updates" % len(pool),
                "cases": len(pool) * 3, "violations": bad[:3],
                "summary": "%d descriptions x 1..3 updates, %d mismatches" % (len(pool), len(bad))}

    def _replay(self, desc, updates, got):
        import json, os
        p = os.path.join(os.path.dirname(os.path.dirname(os.path.abspath(__file__))), 'replays', 'C14')
        os.makedirs(p, exist_ok=True)
        f = os.path.join(p, 'status_roundtrip.json')
        json.dump({"property": "C14", "check": self.name, "error_description": desc, "updates": updates, "read_back": got,
                   "how": "Status(fn,{},['stage0']).setErrorDescription(desc); update() x N; Status.statusFromFile(fn)"},
                  open(f, 'w'), indent=1)
        return f


class KeyOutputListingBounded:
    """BOUNDED stand-in (native) for the ASSUMED contract of ConfigurationFileToJson in the updateLogs proof: the key-output
    listing that OutputAgent.updateLogs writes (output.txt, in exactly its format) is converted to output.json with every
    value as written -- for hostile file names / descriptions (a plain `%`, `%(name)s`, separators, quotes, non-ASCII).
    Option names come back lower-cased (configparser's default, which readers of output.json rely on)."""
    name = 'key-output-listing[bounded,native]'
    POOL = ['plain', 'run%d.csv', '50% of the samples', 'all %(type)s samples', 'a=b', 'k: v', 'semi ; colon', 'hash # tag',
            '"quoted"', 'tab\tsep', 'ünï', 'back\\slash', '[brackets]', '$HOME/x']

    def run(self, tier='quick', seed=0):
        import json, os, shutil, tempfile
        import experiment.model.conf as conf_mod
        d = tempfile.mkdtemp(prefix='pyvc-c14k-')
        bad, cases = [], 0
        try:
            for v in self.POOL:
                cases += 1
                fn = os.path.join(d, 'output.txt')
                fields = [('filename', v), ('filepath', 'stages/stage1/Collect/' + v), ('description', v), ('type', 'csv'),
                          ('creationTime', '2026-01-01 10:10:10'), ('version', '3'), ('production', 'True'), ('final', 'no')]
                with open(fn, 'w') as f:
                    f.write("[KeyOutput]\n")
                    for k, x in fields:
                        f.write("%s=%s\n" % (k, x))
                    f.write("\n")
                what = None
                try:
                    got = json.loads(conf_mod.ConfigurationFileToJson(fn)).get('KeyOutput', {})
                    for k, x in fields:
                        if got.get(k.lower()) != x:
                            what = "field %s written as %r, output.json holds %r" % (k, x, got.get(k.lower()))
                            break
                except Exception as err:
                    what = "listing with the value %r cannot be converted: %s: %s" % (v, type(err).__name__, err)
                if what:
                    bad.append({"what": what, "replay": self._replay(v, what)})
        finally:
            shutil.rmtree(d, ignore_errors=True)
        return {"name": self.name, "bounded": True, "bound": "%d hostile values" % len(self.POOL), "cases": cases,
                "violations": bad[:3], "summary": "%d listings, %d not converted faithfully" % (cases, len(bad))}

    def _replay(self, v, what):
        import json, os
        base = os.environ.get('PYVC_OUT') or os.path.dirname(os.path.dirname(os.path.abspath(__file__)))
        p = os.path.join(base, 'replays', 'C14')
        os.makedirs(p, exist_ok=True)
        fn = os.path.join(p, 'key_output_listing.json')
        json.dump({"property": "C14", "check": self.name, "value": v, "failed": what,
                   "how": "write an output.txt section with this value (format of OutputAgent.updateLogs); "
                          "json.loads(experiment.model.conf.ConfigurationFileToJson(path))"}, open(fn, 'w'), indent=1)
        return fn


TARGETS = [StatusUpdate(), StatusWriteToStream(), UpdateLogs(), StatusDetails(), StoreFlowIR(), GenerateInstanceFiles(), StatusFromFile()]
LEMMAS = [PrefixClosure()]
BOUNDED = [StatusRoundTrip(), KeyOutputListingBounded()]
