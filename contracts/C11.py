"""C11 -- a workflow that loads is structurally executable; a broken one is rejected.

Kernels under contract (real source): FlowIR.validate_references (dangling component references, loop placeholders),
FlowIRConcrete._get_real_component_identifiers (duplicate identifiers), FlowIRExperimentConfiguration._try_report_errors
and _initialize (every failure ends in the invalid-configuration funnel, nothing else escapes),
ComponentSpecification.checkDataReferences (cycle check wired to the node; copy from a same-stage subject).
The global implication "accepted => every later step succeeds" and the option schema are not decided here."""
import itertools
import z3
from pyvc.spec import Target, Lemma, State, NULLLOG
from pyvc.values import Obj, Extern, FlexDict, unflex
from pyvc.core import And, Or, Not, Implies, Iff, If, Eq, In, Sym

import experiment.model.errors as errors
import experiment.model.frontends.flowir as flowir_mod
import experiment.model.graph as graph_mod

FlowIR = flowir_mod.FlowIR
F = 'python/experiment/model/frontends/flowir.py'
CF = 'python/experiment/model/conf.py'
G = 'python/experiment/model/graph.py'
RealDataReference = graph_mod.DataReference
RealComponentIdentifier = graph_mod.ComponentIdentifier
import networkx as _nx
REAL_FIND_CYCLE = _nx.find_cycle            # captured before any patching

IDS = [(0, 'gen'), (1, 'use'), (1, '0#looped'), (1, '1#looped')]
REFS = ['stage0.gen:ref', 'gen/out.txt:copy', 'stage1.use:output', 'stage0.missing:ref', 'ghost:ref', 'stage1.looped:ref',
        'stage2.looped:ref', 'data/file.dat:copy', '/abs/path:link', 'looped:loopref']


def expected_missing(refs, implied):
    out = set()
    placeholders = {(1, 'looped')}
    for r in refs:
        s, name, f, m = FlowIR.ParseDataReferenceFull(r, implied, None, None)
        if s is None:
            continue
        if (s, name) in IDS or (s, name) in placeholders:
            continue
        out.add('stage%s.%s' % (s, name))
    return sorted(out)


class ValidateReferences(Target):
    prop = 'C11'
    name = 'FlowIR.validate_references'
    file = F
    qualname = 'FlowIR.validate_references'
    pure = ('cls.ParseDataReferenceFull', 'cls.aggregate_identifiers_to_list', 'cls.discover_placeholder_identifiers')
    set_iter = 'sorted-repr'
    max_paths = 50000
    trusted = ["ParseDataReferenceFull (C09)", "FlowIR.aggregate_identifiers_to_list / discover_placeholder_identifiers"]
    assumptions = ["reference lists: every subset of size <= 3 of a pool of %d references (existing, dangling, placeholder, "
                   "folder, absolute); component ids %r" % (len(REFS), IDS)]

    def setup(self, c):
        k = c.choice('n_refs', 4)
        combos = list(itertools.combinations(range(len(REFS)), k))
        refs = [REFS[i] for i in combos[c.choice('refs', len(combos))]]
        implied = c.one_of('implied_stage', [0, 1])
        return State(args=[FlowIR, refs, list(IDS)], kwargs={'implied_stage': implied, 'top_level_folders': ['hooks']},
                     refs=refs, implied=implied)

    def real_function(self):
        return FlowIR.validate_references.__func__

    def ensures(self, c, st, out):
        if out.kind == 'raise':
            return [('no-exception', False)]
        # the statement needs a dangling reference to be REPORTED (the caller rejects the workflow iff the list is non-empty)
        # and nothing else to be reported; it does not need every dangling reference to be listed
        want = expected_missing(st.refs, st.implied)
        got = list(out.value)
        return [('a-dangling-component-reference-is-reported', bool(got) == bool(want)),
                ('only-dangling-component-references-are-reported', all(x in want for x in got))]


class DuplicateIdentifiers(Target):
    prop = 'C11'
    set_iter = 'permute'       # a set iterated by the code is explored in every order
    name = 'FlowIRConcrete._get_real_component_identifiers'
    file = F
    qualname = 'FlowIRConcrete._get_real_component_identifiers'
    assumptions = ["<= 3 components over 2 stages x 2 names, with or without '$import' documents"]

    def setup(self, c):
        n = c.choice('n', 4)
        comps = []
        for i in range(n):
            comp = {'stage': c.one_of('stage%d' % i, [0, 1]), 'name': c.one_of('name%d' % i, ['a', 'b'])}
            if c.choice('import%d' % i, 2):
                comp['$import'] = 'doc'
            comps.append(comp)
        incl = c.one_of('include_documents', [False, True])
        this = Obj('concrete', _flowir={FlowIR.FieldComponents: comps} if c.choice('has_components_field', 2) == 0 else {})
        return State(args=[this], kwargs={'include_documents': incl}, comps=comps, incl=incl, this=this)

    def ensures(self, c, st, out):
        if FlowIR.FieldComponents not in st.this._flowir:
            return [('missing-components-field-is-an-inconsistency', out.raised(errors.FlowIRInconsistency))]
        ids = [(x['stage'], x['name']) for x in st.comps if st.incl or '$import' not in x]
        dup = len(ids) != len(set(ids))
        if out.kind == 'raise':
            return [('duplicate-identifiers-are-rejected', dup and out.raised(errors.FlowIRInconsistency))]
        return [('duplicate-identifiers-are-rejected', not dup), ('returns-the-identifiers', set(out.value) == set(ids))]


class TryReportErrors(Target):
    prop = 'C11'
    name = 'FlowIRExperimentConfiguration._try_report_errors'
    file = CF
    qualname = 'FlowIRExperimentConfiguration._try_report_errors'

    def setup(self, c):
        kinds = [ValueError('x'), errors.FlowIRInconsistency('bad', {}), errors.ExperimentMissingConfigurationError('missing')]
        n = c.choice('n_errors', 3)
        errs = [kinds[c.choice('kind%d' % i, len(kinds))] for i in range(n)]
        validate = c.one_of('validate', [True, False])
        this = Obj('conf', log=NULLLOG)
        return State(args=[this, '/pkg', validate, errs], errs=errs, validate=validate)

    def ensures(self, c, st, out):
        important = [e for e in st.errs if isinstance(e, (errors.ExperimentMissingConfigurationError,
                                                          errors.ExperimentInvalidConfigurationError))]
        must_raise = bool(st.errs) and (st.validate or bool(important))
        if out.kind == 'raise':
            return [('errors-are-raised-as-invalid-configuration', must_raise and out.raised(errors.ExperimentInvalidConfigurationError))]
        return [('errors-are-raised-as-invalid-configuration', not must_raise)]


class InitializeFunnel(Target):
    prop = 'C11'
    name = 'FlowIRExperimentConfiguration._initialize'
    file = CF
    qualname = 'FlowIRExperimentConfiguration._initialize'
    trusted = ["the steps of _initialize are externs that succeed or raise (FlowException or any other exception)"]

    def setup(self, c):
        c.ghost['validated'] = 0
        steps = ['layer_many_variable_files', '_patch_in_variable_files', 'copy', '_generate_instance_files', 'replicate',
                 'get_application_dependencies', 'get_components', 'expand_component_references', 'validate']
        failing = c.choice('failing_step', len(steps) + 1)
        how = [errors.FlowIRInconsistency, RuntimeError][c.choice('exception', 2)]

        def step(name, ret=None):
            def f(c, *a, **k):
                if failing < len(steps) and steps[failing] == name:
                    c.raise_(how, 'boom', {}) if how is errors.FlowIRInconsistency else c.raise_(how, 'boom')
                if name == 'validate':
                    c.ghost['validated'] += 1
                return ret
            return Extern(name, f)
        comps = [{'stage': 0, 'name': 'a', 'references': ['x:ref']}]
        conc = Obj('concrete', copy=step('copy', 'copy'), get_components=step('get_components', comps),
                   invalidate_cache_for_component=Extern('invalidate', lambda c, cid: None))
        this = Obj('conf', _concrete=conc, log=NULLLOG, _variable_files=[], _create_instance_files=True,
                   _update_instance_files=False, _is_primitive=False, _expand_references=True, top_level_folders=[],
                   layer_many_variable_files=step('layer_many_variable_files', {}),
                   _patch_in_variable_files=step('_patch_in_variable_files'),
                   _generate_instance_files=step('_generate_instance_files'), replicate=step('replicate'),
                   get_application_dependencies=step('get_application_dependencies', []), validate=step('validate'))
        errs = []
        st = State(args=[this, errs], errs=errs, failing=failing, steps=steps, how=how)
        st.expand = step('expand_component_references', ['stage0.x:ref'])
        return st

    def externs(self, c, st):
        return {'experiment.model.frontends.flowir.FlowIR.expand_component_references': st.expand,
                'traceback.format_exc': Extern('format_exc', lambda c: 'tb')}

    def ensures(self, c, st, out):
        failed = st.failing < len(st.steps)
        return [('nothing-escapes-the-loader', out.kind == 'return'),
                ('every-failure-is-collected', (len(st.errs) >= 1) if failed else (len(st.errs) == 0)),
                ('collected-errors-are-flow-exceptions-or-wrapped',
                 all(isinstance(e, (errors.FlowException, errors.EnhancedException)) or
                     (hasattr(e, 'cls') and issubclass(e.cls, (errors.FlowException, errors.EnhancedException))) for e in st.errs)),
                ('validation-runs-unless-a-global-step-failed',
                 c.ghost['validated'] == 1 if (not failed or st.steps[st.failing] in ('get_application_dependencies',
                                                                                      'expand_component_references')) else True)]


class CycleCheck(Target):
    prop = 'C11'
    name = 'ComponentSpecification.checkDataReferences'
    file = G
    qualname = 'ComponentSpecification.checkDataReferences'
    trusted = ["networkx.find_cycle / DiGraph (the real library, executed natively on the concrete graphs of the harness)",
               "resolveArguments (C10)"]
    assumptions = ["workflow graphs: 6 concrete shapes around the checked component (no cycle, same-stage cycle, cycle across two "
                   "and three stages, self loop, cycle further downstream)"]

    SHAPES = {
        # edges of the WHOLE workflow graph (producer -> consumer); 'stage0.me' is the component being checked
        'no-cycle': [('stage0.a', 'stage0.me'), ('stage0.me', 'stage1.b')],
        'same-stage-cycle': [('stage0.me', 'stage0.b'), ('stage0.b', 'stage0.me')],
        'cross-stage-cycle': [('stage0.me', 'stage1.b'), ('stage1.b', 'stage0.me')],
        'long-cross-stage-cycle': [('stage0.me', 'stage1.b'), ('stage1.b', 'stage2.c'), ('stage2.c', 'stage0.me')],
        'self-loop': [('stage0.me', 'stage0.me')],
        'cycle-elsewhere-downstream': [('stage0.me', 'stage1.b'), ('stage1.b', 'stage1.c'), ('stage1.c', 'stage1.b')],
    }

    def setup(self, c):
        import networkx
        g = c.ghost
        g['asked'] = None
        shape = c.one_of('graph', sorted(self.SHAPES))
        graph = networkx.DiGraph()
        graph.add_edges_from(self.SHAPES[shape])
        # the property: "the expanded graph is acyclic" -- a component from which a cycle can be reached must be rejected
        try:
            REAL_FIND_CYCLE(graph, source='stage0.me', orientation='original')
            has_cycle = True
        except networkx.NetworkXNoCycle:
            has_cycle = False
        is_repeat = c.one_of('isRepeat', [False, True])
        copy_same_stage = c.one_of('copies_from_same_stage_component', [False, True])
        ref = Obj('ref', stageIndex=0 if copy_same_stage else 1, method='copy' if copy_same_stage else 'ref',
                  stringRepresentation='stage0.subject:copy')

        def find_cycle(c, gr, source=None, orientation=None):
            # the REAL networkx.find_cycle on whatever graph the code passes (trusted library, executed natively)
            c.ghost['asked'] = source
            try:
                return REAL_FIND_CYCLE(gr, source=source, orientation=orientation)
            except networkx.NetworkXNoCycle:
                c.raise_(networkx.NetworkXNoCycle, 'No cycle found.')
        unresolved_err = c.one_of('unresolved', [None, 'undeclared'])
        unused_err = c.one_of('unused', [None, 'unused'])

        def resolve(c, unresolved=None, unused=None, ignoreErrors=False):
            if unresolved_err:
                unresolved.append(errors.UndeclaredDataReferenceError('stage0.me', ['x']))
            if unused_err:
                unused.append(errors.UnusedDataReferenceError('stage0.me', Obj('r', stringRepresentation='stage0.x:ref'), 'm'))
            return ''
        real_id = RealComponentIdentifier('me', 0)
        this = Obj('spec', workflowAttributes={'isRepeat': is_repeat}, componentDataReferences=[ref],
                   identification=Obj('cid', identifier=real_id.identifier, stageIndex=real_id.stageIndex,
                                      namespace=real_id.namespace, componentName=real_id.componentName),
                   workflowGraphRef=Extern('workflowGraphRef', lambda c: Obj('wg', graph=graph)),
                   resolveArguments=Extern('resolveArguments', resolve))
        st = State(args=[this], has_cycle=has_cycle, is_repeat=is_repeat, copy=copy_same_stage,
                   unresolved=unresolved_err, unused=unused_err, shape=shape)
        st.find_cycle = Extern('networkx.find_cycle', find_cycle)
        return st

    def externs(self, c, st):
        def mk_ref(c, text):
            # the real constructor rejects a string without a ':<method>' suffix
            if ':' not in text:
                c.raise_(ValueError, "Invalid reference '%s' - missing reference method" % text)
            return Obj('dataref', stringRepresentation=text)
        mk = Extern('DataReference', mk_ref, native_passthrough=True)
        mk.CopyOut, mk.Copy = RealDataReference.CopyOut, RealDataReference.Copy
        return {'networkx.find_cycle': st.find_cycle, 'DataReference': mk}

    def ensures(self, c, st, out):
        g = c.ghost
        if st.is_repeat and st.copy:
            return [('same-stage-copy-by-an-observer-is-rejected', out.raised(errors.DataReferenceInconsistencyError))]
        cl = [('cycle-check-is-asked-about-this-node', g['asked'] == 'stage0.me')]
        if st.has_cycle:
            cl.append(('a-cycle-is-rejected', out.raised(errors.CircularComponentReferenceError)))
        elif st.unresolved:
            cl.append(('undeclared-references-are-rejected', out.raised(errors.UndeclaredDataReferenceError)))
        elif st.unused:
            cl.append(('unused-references-are-rejected', out.raised(errors.UnusedDataReferenceError)))
        else:
            cl.append(('clean-component-passes', out.kind == 'return'))
        return cl


class PropagateReplicateCycles(Target):
    """The OTHER place where a dependency cycle is rejected at load time: FlowIR.propagate_replicate sorts the component
    graph topologically (networkx raises NetworkXUnfeasible on a cycle; _initialize funnels the exception into the
    invalid-configuration error).  The property needs a cycle to be rejected by at least one of the two."""
    prop = 'C11'
    name = 'FlowIR.propagate_replicate[cycles]'
    file = F
    qualname = 'FlowIR.propagate_replicate'
    trusted = ["networkx DiGraph / topological_sort (the real library, executed natively on the concrete graphs of the harness)"]
    assumptions = ["the same 6 graph shapes as the cycle check; no component, the checked one, or an unrelated one replicates"]
    alternatives = {'a-cycle-is-rejected': 'cycle-rejection'}
    pure = ('cls.ParseDataReferenceFull',)

    def alt_case(self, c, st):
        return st.shape

    def setup(self, c):
        shape = c.one_of('graph', sorted(CycleCheck.SHAPES))
        edges = CycleCheck.SHAPES[shape]
        nodes = sorted({n for e in edges for n in e})
        who = c.one_of('replicating', [None, 'stage0.me', 'other'])
        comps = []
        for n in nodes:
            stage, name = n.split('.', 1)
            comp = {'stage': int(stage[5:]), 'name': name, 'references': ['%s:ref' % p for (p, q) in edges if q == n]}
            if who == n:
                comp['workflowAttributes'] = {'replicate': 2}
            comps.append(comp)
        if who == 'other':
            comps.append({'stage': 0, 'name': 'unrelated', 'references': [], 'workflowAttributes': {'replicate': 3}})
        g = _nx.DiGraph()
        g.add_edges_from(edges)
        return State(args=[FlowIR, comps, False], shape=shape, cyclic=not _nx.is_directed_acyclic_graph(g))

    def ensures(self, c, st, out):
        if st.cyclic:
            return [('a-cycle-is-rejected', out.kind == 'raise')]
        return [('acyclic-workflows-pass', out.kind == 'return')]


def _is_exc(v, cls):
    """an exception value of class cls: a real instance (native run) or the interpreter's exception value"""
    return isinstance(v, cls) or (hasattr(v, 'cls') and isinstance(getattr(v, 'cls'), type) and issubclass(v.cls, cls))


class ConcreteValidate(Target):
    """FlowIRConcrete.validate: the list it returns is what the loader turns into the invalid-configuration error.  Every
    problem that FlowIR.validate reports for the document and that FlowIR.validate_component reports for ANY real component
    (unknown / wrongly typed option, dangling reference ...) is in that list, whatever environment the component names;
    an environment that neither the platform nor the default platform defines is reported too."""
    prop = 'C11'
    name = 'FlowIRConcrete.validate'
    file = F
    qualname = 'FlowIRConcrete.validate'
    max_paths = 40000
    compare_return = False
    set_iter = 'sorted-repr'
    trusted = ["FlowIR.validate / FlowIR.validate_component return the list of problems of the document / of one component "
               "(schema validation itself is not under contract)", "FlowIRConcrete.get_environment raises FlowIREnvironmentUnknown "
               "for an environment that is not visible to the platform"]
    assumptions = ["<= 2 components; environment name absent / '' / none / NONE / environment / a defined name / an undefined "
                   "name / not a string; each component with or without reported problems; $import documents"]

    ENVS = ['<absent>', '', 'none', 'NONE', 'environment', 'defined-env', 'undefined-env', 42]

    def setup(self, c):
        n = 1 + c.choice('components', 2)
        ids, comps, expected = [], {}, []
        doc_errors = [errors.FlowIRInconsistency('document-level problem', {})] if c.one_of('document_problem', [False, True]) else []
        expected += doc_errors
        self_errors = {}
        broken = set()
        for i in range(n):
            cid = (0, 'comp%d' % i)
            ids.append(cid)
            env = self.ENVS[c.choice('comp%d.environment' % i, len(self.ENVS))]
            imported = c.one_of('comp%d.is_import' % i, [False, True]) if i == 1 else False
            problems = [errors.FlowIRInconsistency('problem of comp%d' % i, {})] if c.one_of('comp%d.has_problem' % i, [False, True]) else []
            comp = {'stage': 0, 'name': 'comp%d' % i, 'command': {}}
            if c.one_of('comp%d.is_a_later_replica' % i, [False, True]):
                # the statement speaks about the EXPANDED graph: replica k > 0 of a replicated component is a component
                # like any other (its configuration may differ through %(replica)s)
                comp['name'] = 'comp%d' % i
                comp['workflowAttributes'] = {'replicate': 3}
                comp['variables'] = {'replica': 2}
            if env != '<absent>':
                comp['command']['environment'] = env
            if imported:
                comp['$import'] = 'doc'
            unresolvable = c.one_of('comp%d.configuration_cannot_be_resolved' % i, [False, True]) if not imported else False
            comps[cid] = (comp, problems, env, imported)
            if unresolvable:
                broken.add(cid)
            elif not imported:
                expected += problems

        def get_environment(c, name, platform=None):
            if name.lower() != 'defined-env':
                c.raise_(errors.FlowIREnvironmentUnknown, name, 'default', {})
            return {}
        def get_configuration(c, cid, **k):
            if cid in broken:
                # e.g. an option that refers to a variable nobody defines
                c.raise_(errors.FlowIRVariableUnknown, 'undefined', {}, {})
            return dict(comps[cid][0])
        this = Obj('concrete', raw=Extern('raw', lambda c: {}), _documents={}, _flowir={}, _platform='default',
                   platforms=['default'], get_component_identifiers=Extern('get_component_identifiers', lambda c, f=True: set(ids)),
                   get_placeholder_identifiers=Extern('get_placeholder_identifiers', lambda c: set()),
                   get_application_dependencies=Extern('get_application_dependencies', lambda c: []),
                   get_component=Extern('get_component', lambda c, cid: dict(comps[cid][0])),
                   get_component_configuration=Extern('get_component_configuration', get_configuration),
                   get_environment=Extern('get_environment', get_environment))
        return State(args=[this], comps=comps, ids=ids, expected=expected, doc_errors=doc_errors, broken=broken)

    def externs(self, c, st):
        def validate_component(c, comp, **k):
            return list(st.comps[(comp['stage'], comp['name'])][1])
        return {'FlowIR.validate': Extern('FlowIR.validate', lambda c, raw, docs: list(st.doc_errors)),
                'FlowIR.validate_component': Extern('FlowIR.validate_component', validate_component),
                'FlowIR.type_flowir_component': Extern('FlowIR.type_flowir_component', lambda c, **k: 'schema'),
                'FlowIR.application_dependency_to_name': Extern('application_dependency_to_name', lambda c, x: x)}

    def ensures(self, c, st, out):
        if out.kind == 'raise':
            return [('no-exception', False)]
        got = list(out.value)
        cl = [('every-reported-problem-reaches-the-caller', all(any(e is g for g in got) for e in st.expected))]
        cl.append(('a-component-whose-configuration-cannot-be-resolved-is-reported',
                   sum(1 for g in got if _is_exc(g, errors.FlowIRInconsistency) and not any(g is e for e in st.expected)) >= len(st.broken)))
        for cid, (comp, problems, env, imported) in st.comps.items():
            if imported or cid in st.broken:
                continue
            if env == 'undefined-env':
                cl.append(('an-environment-nobody-defines-is-reported', any(_is_exc(g, errors.FlowIREnvironmentUnknown) for g in got)))
            if env == 42:
                cl.append(('a-non-string-environment-is-reported', any(_is_exc(g, errors.FlowIRSyntaxException) for g in got)))
        return cl


class ValidateComponent(Target):
    """FlowIR.validate_component: the list it returns is what FlowIRConcrete.validate (above) hands to the loader.  Whatever
    the schema check reports (unknown key, wrongly typed option: the schema walk itself is the bounded check below), every
    dangling component reference found by validate_references, a reference used in the arguments but not declared, an
    override for an unknown platform, a reserved component name and an unknown backend are ALL in the returned list, and a
    schema walk that blows up is reported as a problem instead of escaping."""
    prop = 'C11'
    name = 'FlowIR.validate_component'
    file = F
    qualname = 'FlowIR.validate_component'
    inline_class = {'cls': (F, 'FlowIR')}
    compare_return = False
    set_iter = 'sorted-repr'
    trusted = ["validate_object_schema returns the list of schema problems (bounded check below)",
               "expand_potential_component_reference / discover_reference_strings (C09) give absolute references",
               "validate_references returns the dangling ones (under contract above)"]
    assumptions = ["one component; each source of problems on/off independently; schema walk returning or raising; "
                   "backends: known / unknown / variable / docker or kubernetes without image"]

    def setup(self, c):
        schema_mode = c.one_of('schema_walk', ['clean', 'problems', 'raises'])
        schema_errors = [errors.FlowIRInconsistency('schema problem %d' % i, {}) for i in range(2)] if schema_mode == 'problems' else []
        boom = errors.FlowIRInconsistency('schema walk failed', {})
        missing = ['stage0.ghost'] if c.one_of('dangling_reference', [False, True]) else []
        undeclared = c.one_of('undeclared_reference_in_arguments', [False, True])
        unknown_platform = c.one_of('override_for_unknown_platform', [False, True])
        reserved = c.one_of('reserved_name', [False, True])
        backend = c.one_of('backend', ['local', 'nonsense', '%(backend)s', 'docker-without-image', 'kubernetes-without-image',
                                       'kubernetes-empty-image', 'kubernetes-with-image', None])
        with_ids = c.one_of('component_ids_given', [True, False])
        imported = c.one_of('is_import', [False, True])
        comp = {'stage': 0, 'name': 'data' if reserved else 'comp', 'references': ['stage0.other:ref'],
                'command': {'arguments': 'stage0.other:ref' + (' stage0.undeclared:ref' if undeclared else '')}}
        if backend is not None:
            cfg = {'config': {'backend': backend.split('-')[0]}}
            if backend == 'kubernetes-empty-image':
                cfg['kubernetes'] = {'image': ''}
            if backend == 'kubernetes-with-image':
                cfg['kubernetes'] = {'image': 'registry/image:tag'}
            comp['resourceManager'] = cfg
        if unknown_platform:
            comp['override'] = {'mars': {}}
        if imported:
            comp['$import'] = 'doc'
        def discover(c, arguments, stage, ids, out, *a, **k):
            out['stage0.other:ref'] = 'stage0.other:ref'
            if undeclared:
                out['stage0.undeclared:ref'] = 'stage0.undeclared:ref'
            return arguments
        cls = Obj('FlowIR', SpecialFolders=list(FlowIR.SpecialFolders), Backends=list(FlowIR.Backends),
                  FieldPlatforms=FlowIR.FieldPlatforms, VariablePattern=FlowIR.VariablePattern,
                  expand_potential_component_reference=Extern('expand_potential_component_reference', lambda c, r, *a, **k: r),
                  discover_reference_strings=Extern('discover_reference_strings', discover),
                  validate_references=Extern('validate_references', lambda c, refs, *a, **k: list(missing)),
                  organize_identifiers_to_stages=Extern('organize_identifiers_to_stages', lambda c, ids: {0: ['comp', 'other']}),
                  aggregate_identifiers_to_list=Extern('aggregate_identifiers_to_list', lambda c, ids: [(0, 'comp'), (0, 'other')]),
                  type_flowir_component_import=Extern('type_flowir_component_import', lambda c: 'import-schema'),
                  type_flowir_component=Extern('type_flowir_component', lambda c, **k: 'schema'))
        return State(args=[cls, comp], kwargs={'comp_schema': 'schema', 'component_ids': [(0, 'comp'), (0, 'other')] if with_ids else None,
                                               'known_platforms': ['default'], 'top_level_folders': []},
                     cls=cls, schema_mode=schema_mode, schema_errors=schema_errors, boom=boom, missing=missing, undeclared=undeclared,
                     unknown_platform=unknown_platform, reserved=reserved, backend=backend, with_ids=with_ids, imported=imported)

    def externs(self, c, st):
        def schema(c, comp, sch, label, *a, **k):
            if st.schema_mode == 'raises':
                c.raise_(errors.FlowIRInconsistency, 'schema walk failed', {})
            return list(st.schema_errors)
        return {'validate_object_schema': Extern('validate_object_schema', schema),
                'traceback.format_exc': Extern('traceback.format_exc', lambda c: '<tb>')}

    def ensures(self, c, st, out):
        clean = (st.schema_mode == 'clean' and not st.reserved and (st.imported or (
                 not st.unknown_platform and not (st.missing and st.with_ids) and not (st.undeclared and st.with_ids) and
                 st.backend in ('local', '%(backend)s', 'kubernetes-with-image', None))))
        if out.kind == 'raise':
            # an exception out of the validator still rejects the workflow: the loader's funnel (_initialize, under
            # contract above) turns ANY exception into the invalid-configuration error.  What must not happen is a
            # component without problems being rejected that way.
            return [('a-clean-component-reports-nothing', not clean)]
        got = list(out.value)

        def has(cls_):
            return any(_is_exc(g, cls_) for g in got)
        cl = [('every-schema-problem-reaches-the-caller', all(any(e is g for g in got) for e in st.schema_errors)),
              ('a-failing-schema-walk-is-a-reported-problem', has(errors.FlowIRInconsistency) if st.schema_mode == 'raises' else True)]
        gave_up = st.schema_mode == 'raises' and not st.imported       # documented early return: the component is reported invalid
        if not gave_up:
            cl.append(('a-reserved-name-is-rejected', (len(got) >= 1) if st.reserved else True))
        if not gave_up and not st.imported:
            cl += [('an-override-for-an-unknown-platform-is-reported', has(errors.FlowIRPlatformUnknown) if st.unknown_platform else True),
                   ('a-dangling-component-reference-is-reported',
                    has(errors.FlowIRReferenceToUnknownComponent) if (st.missing and st.with_ids) else True),
                   ('an-undeclared-reference-in-the-arguments-is-reported',
                    has(errors.FlowIRUnknownReferenceInArguments) if (st.undeclared and st.with_ids) else True),
                   ('an-unknown-backend-or-a-missing-image-is-reported',
                    has(errors.FlowIRInvalidComponent) if st.backend in ('nonsense', 'docker-without-image', 'kubernetes-without-image',
                                                                        'kubernetes-empty-image') else True)]
        cl.append(('a-clean-component-reports-nothing', (len(got) == 0) if clean else True))
        return cl

    def cross_compare(self, *a):
        return []


class ValidateDocument(Target):
    """FlowIR.validate (document level): every problem the schema walks report (top-level structure, the list of components,
    each component, each DoWhile document), an environment with an invalid name, a document of an unknown type, an
    incomplete variable reference `%(name)` and every interface problem are in the list the caller gets; a document
    without problems yields an empty list.  The real visit_all walk is interpreted (inlined)."""
    prop = 'C11'
    name = 'FlowIR.validate'
    file = F
    qualname = 'FlowIR.validate'
    inline_class = {'cls': (F, 'FlowIR')}
    inline = {'FlowIR.visit_all': (F, 'FlowIR.visit_all', 'cls')}
    pure = {'ValidateMany', 'Text'}
    max_paths = 20000
    compare_return = False
    trusted = ["validate_object_schema returns the list of schema problems (bounded check below)",
               "_validate_interface returns the list of interface problems"]
    assumptions = ["<= 2 components; each source of problems on/off independently"]

    def setup(self, c):
        def problems(tag, n=1):
            return [errors.FlowIRInconsistency('%s problem %d' % (tag, i), {}) for i in range(n)]
        src = {}
        src['FlowIR'] = problems('structure') if c.one_of('structure_problem', [False, True]) else []
        comps_not_list = c.one_of('components_is_not_a_list_of_dictionaries', [False, True])
        src['FlowIR.components'] = problems('components-list') if comps_not_list else []
        n = 1 + c.choice('components', 2)
        comps = []
        per_comp = {}
        incomplete = c.one_of('incomplete_variable_reference', ['none', 'in-component', 'in-document'])
        for i in range(n):
            comp = {'stage': 0, 'name': 'comp%d' % i, 'command': {'arguments': '-n %(count)s'}}
            if i == 0 and incomplete == 'in-component':
                comp['command']['arguments'] = '-n %(count)'
            if i == 1 and c.one_of('comp1.is_import', [False, True]):
                comp['$import'] = 'loop'
            comps.append(comp)
            bad = c.one_of('comp%d.schema_problem' % i, ['none', 'problems', 'walk-raises'])
            per_comp['comp%d' % i] = bad
        env_name = c.one_of('environment_name', ['fine', '', 'None', None])
        doc_kind = c.one_of('documents', ['none', 'dowhile', 'dowhile-with-problem', 'unknown-type'])
        iface = problems('interface') if c.one_of('interface_problem', [False, True]) else []
        flowir = {'components': comps, 'environments': {'default': {env_name: {'PATH': '/bin'}}},
                  'variables': {'default': {'global': {'count': '%(n)' if incomplete == 'in-document' else '1'}}}}
        documents = {}
        if doc_kind in ('dowhile', 'dowhile-with-problem'):
            documents['DoWhile'] = {'loop': {'document': 'x'}}
        elif doc_kind == 'unknown-type':
            documents['ForEach'] = {'x': {}}
        doc_problems = problems('document') if doc_kind == 'dowhile-with-problem' else []
        cls = Obj('FlowIR', FieldEnvironments=FlowIR.FieldEnvironments, FieldOutput=FlowIR.FieldOutput,
                  FieldInterface=FlowIR.FieldInterface,
                  type_flowir_structure=Extern('type_flowir_structure', lambda c: 'structure-schema'),
                  type_flowir_component=Extern('type_flowir_component', lambda c, **k: 'component-schema'),
                  type_flowir_component_import=Extern('type_flowir_component_import', lambda c: 'import-schema'),
                  _validate_interface=Extern('_validate_interface', lambda c, *a, **k: list(iface)))
        boom = {}
        return State(args=[cls, flowir, documents], cls=cls, src=src, comps=comps, per_comp=per_comp, comp_problems={},
                     comps_not_list=comps_not_list, env_name=env_name, doc_kind=doc_kind, doc_problems=doc_problems,
                     iface=iface, incomplete=incomplete, boom=boom)

    def externs(self, c, st):
        def schema(c, obj, sch, label=None, *a, root_label=None, **k):
            label = label if label is not None else root_label
            if label in st.src:
                return list(st.src[label])
            if label.startswith('Document['):
                return list(st.doc_problems)
            for name, bad in st.per_comp.items():
                if label.endswith('.%s]' % name):
                    if bad == 'walk-raises':
                        c.raise_(errors.FlowIRInconsistency, 'walk of %s failed' % name, {})
                    if bad == 'problems':
                        st.comp_problems.setdefault(name, [errors.FlowIRInconsistency('%s schema problem' % name, {})])
                        return list(st.comp_problems[name])
                    return []
            return []
        return {'validate_object_schema': Extern('validate_object_schema', schema),
                'FlowIR.type_flowir_document_dowhile': Extern('type_flowir_document_dowhile', lambda c: 'dowhile-schema')}

    def ensures(self, c, st, out):
        if out.kind == 'raise':
            return [('no-exception', False)]
        got = list(out.value)

        def has(cls_):
            return any(_is_exc(g, cls_) for g in got)
        want = list(st.src['FlowIR']) + list(st.src['FlowIR.components']) + list(st.doc_problems) + list(st.iface)
        # the document-level validator walks the components one by one only to LOCATE a problem of the component list
        # (`if errors_is_list:`); the per-component schema check that rejects is FlowIR.validate_component (above)
        walked = st.comps_not_list
        raised = 0
        if walked:
            for name, bad in st.per_comp.items():
                if name not in [x['name'] for x in st.comps]:
                    continue
                if bad == 'problems':
                    want += st.comp_problems.get(name, [])
                if bad == 'walk-raises':
                    raised += 1
        own = [g for g in got if _is_exc(g, errors.FlowIRInconsistency) and not any(g is w for w in want) and
               'walk of' in str(getattr(g, 'args', [''])[0] if getattr(g, 'args', None) else getattr(g, 'reason', ''))]
        cl = [('every-schema-and-interface-problem-reaches-the-caller', all(any(w is g for g in got) for w in want)),
              ('a-failing-component-walk-is-a-reported-problem', len([g for g in got if _is_exc(g, errors.FlowIRInconsistency)
                                                                      and not any(g is w for w in want)]) >= raised),
              ('an-environment-with-an-invalid-name-is-reported',
               has(errors.FlowExceptionWithMessageError) if st.env_name in ('', 'None', None) else True),
              ('a-document-of-unknown-type-is-reported', has(errors.FlowIRInvalidDocumentType) if st.doc_kind == 'unknown-type' else True),
              ('an-incomplete-variable-reference-is-reported',
               has(errors.FlowIRVariablesIncomplete) if st.incomplete != 'none' else True)]
        clean = (not want and not raised and st.env_name == 'fine' and st.doc_kind in ('none', 'dowhile') and st.incomplete == 'none'
                 and not any(b != 'none' for n_, b in st.per_comp.items() if n_ in [x['name'] for x in st.comps]))
        cl.append(('a-clean-document-reports-nothing', (len(got) == 0) if clean else True))
        return cl

    def cross_compare(self, *a):
        return []


CycleCheck.alternatives = {'a-cycle-is-rejected': 'cycle-rejection'}
CycleCheck.alt_case = lambda self, c, st: st.shape

class SchemaRejectsBounded:
    """BOUNDED stand-in (native) for the schema half of the statement ('an unknown option key, a wrongly typed option ...
    is rejected'): FlowIR.validate_component on a fully populated valid component reports nothing; with ONE key
    misspelled, or ONE typed option given a value of another type, it reports something -- for every key / typed
    option of the default component (single-fault mutations at every position)."""
    name = 'schema-rejects-single-faults[bounded]'

    @staticmethod
    def leaves(d, pre=()):
        for k, v in d.items():
            if isinstance(v, dict) and v:
                yield from SchemaRejectsBounded.leaves(v, pre + (k,))
            else:
                yield pre + (k,), v

    def run(self, tier='quick', seed=0):
        import copy, logging
        logging.disable(logging.CRITICAL)
        try:
            base = FlowIR.inject_default_values_to_component({'name': 'c', 'stage': 0, 'command': {'executable': 'ls'}}, True)
            ids = [(0, 'c')]
            bad, cases = [], 1
            errs = FlowIR.validate_component(copy.deepcopy(base), component_ids=ids, known_platforms=['default'], top_level_folders=[])
            if errs:
                bad.append({"what": "the valid component is reported: %s" % errs[:2], "replay": self._replay('valid', None)})
            for route, default in self.leaves(base):
                if route[0] in ('name', 'stage', 'variables', 'override', 'executors') or route[:3] == ('resourceManager', 'kubernetes', 'podSpec'):
                    continue
                # (1) misspelled key
                cases += 1
                comp = copy.deepcopy(base)
                d = comp
                for k in route[:-1]:
                    d = d[k]
                d[route[-1] + 'Typo'] = d.pop(route[-1])
                if not FlowIR.validate_component(comp, component_ids=ids, known_platforms=['default'], top_level_folders=[]):
                    bad.append({"what": "unknown key %s is accepted" % '.'.join(route[:-1] + (route[-1] + 'Typo',)),
                                "replay": self._replay('unknown-key', route)})
                # (2) wrong type: a dictionary where a scalar / list is expected
                if isinstance(default, (bool, int, float)) or default is None or isinstance(default, str):
                    cases += 1
                    comp = copy.deepcopy(base)
                    d = comp
                    for k in route[:-1]:
                        d = d[k]
                    d[route[-1]] = {'unexpected': ['structure']}
                    try:
                        accepted = not FlowIR.validate_component(comp, component_ids=ids, known_platforms=['default'], top_level_folders=[])
                    except Exception:
                        accepted = False      # an exception here is collected by _initialize (funnel target above): rejected
                    if accepted:
                        bad.append({"what": "option %s accepts a dictionary" % '.'.join(route), "replay": self._replay('wrong-type', route)})
        finally:
            logging.disable(logging.NOTSET)
        return {"name": self.name, "bounded": True, "bound": "single faults at every key of the default component", "cases": cases,
                "violations": bad[:3], "summary": "%d single-fault components, %d accepted wrongly" % (cases, len(bad))}

    def _replay(self, kind, route):
        import json, os
        base = os.environ.get('PYVC_OUT') or os.path.dirname(os.path.dirname(os.path.abspath(__file__)))
        p = os.path.join(base, 'replays', 'C11')
        os.makedirs(p, exist_ok=True)
        f = os.path.join(p, 'schema_single_fault.json')
        json.dump({"property": "C11", "check": self.name, "fault": kind, "route": list(route or ()),
                   "how": "FlowIR.validate_component on inject_default_values_to_component({name, stage, command.executable}, True) "
                          "with this single fault"}, open(f, 'w'), indent=1)
        return f


# "every component reference points to an existing component": which references ARE component references is decided by the
# parser / classifier of C09 (trusted inside validate_references above): the same contracts are part of this check
from pyvc.spec import shared as _shared
import contracts.C09 as _c09
REFERENCE_PARSING = [_shared(_c09.ParsePrint(), 'C11'), _shared(_c09.Classify(), 'C11'), _shared(_c09.NonComponentForms(), 'C11'),
                     _shared(_c09.ExpandList(), 'C11')]        # _initialize expands every component's references before validating

TARGETS = REFERENCE_PARSING + [ValidateReferences(), DuplicateIdentifiers(), TryReportErrors(), InitializeFunnel(), CycleCheck(),
           PropagateReplicateCycles(), ConcreteValidate(), ValidateComponent(), ValidateDocument()]
LEMMAS = []
BOUNDED = [SchemaRejectsBounded(), _c09.DiscoverReferencesBounded()]
