"""C17 -- component environments are built only from their declared sources.

Functions under contract: flowir.py FlowIRConcrete.get_platform_environment, FlowIRConcrete.get_environment;
conf.py FlowIRExperimentConfiguration.defaultEnvironment, environmentWithName, environmentForNode.
Environments, system variables and the launch environment (os.environ) are dictionaries with ARBITRARY
symbolic string keys and values (characteristic predicate + value array), so the key-set clause of the
statement is proved for every variable name; string.Template / os.path.expandvars are uninterpreted
functions of (value, map), which is exactly what the clause "expanded first from the environment itself and
then from the launch environment" constrains.  Environment-name spellings are a finite sample (lower() is stdlib)."""
import os
import z3
from pyvc.spec import Target, Lemma, State, NULLLOG
from pyvc.values import Obj, Extern, Lazy, MapBox, SymMap, Uninterp, FlexDict, unflex
from pyvc.core import And, Or, Not, Implies, Iff, If, Eq, In, Sym, wrap, to_z3, OutsideSubset

import experiment.model.errors as errors
import experiment.model.frontends.flowir as flowir_mod

FlowIR = flowir_mod.FlowIR
DEFAULT = FlowIR.LabelDefault
LBL_DEFAULTS = FlowIR.LabelEnvironmentDefaults
ENVNAME = 'myenv'
SPELLINGS = [None, '', 'environment', 'ENVIRONMENT', 'none', 'None', 'NONE', 'myenv', 'MyEnv', 'MYENV']

E1 = Uninterp('expand_vars', doc="string.Template(value).safe_substitute(map)")       # (value, map) -> str
E2 = Uninterp('os_path_expandvars', doc="os.path.expandvars(value) reading os.environ")  # (value, os.environ) -> str
FILL = Uninterp('FlowIR_fill_in_value', doc="FlowIR.fill_in on one value")              # (value, context map) -> str


def S(x):
    return z3.StringVal(x) if isinstance(x, str) else to_z3(x)


def has(box, k):
    box = unflex(box)
    if isinstance(box, dict):
        return (k in box) if isinstance(k, str) else Or(*[Eq(k, x) for x in box]) if box else False
    return box.m.has(k)


def at(box, k):
    box = unflex(box)
    if isinstance(box, dict):
        if isinstance(k, str):
            return box.get(k, '')
        acc = ''
        for x, v in box.items():
            acc = If(Eq(k, x), v, acc)
        return acc
    return box.m.at(k)


def same_map(a, b, key):
    """a and b agree at an arbitrary key (key is a free constant => for every key)"""
    return And(Iff(has(a, key), has(b, key)), Implies(has(a, key), Eq(at(a, key), at(b, key))))


def layered(lo, hi, key):
    """(present, value) of lo (+) hi at key, hi wins"""
    return Or(has(lo, key), has(hi, key)), If(has(hi, key), at(hi, key), at(lo, key))


class GetPlatformEnvironment(Target):
    prop = 'C17'
    name = 'FlowIRConcrete.get_platform_environment'
    file = 'python/experiment/model/frontends/flowir.py'
    qualname = 'FlowIRConcrete.get_platform_environment'
    trusted = ["FlowIRConcrete.get_environments(platform) returns the platform's name->environment dictionary, "
               "names lower-cased at load (FlowIR.from_dict)"]
    assumptions = ["environment values are strings (None/number values go through str())",
                   "environment-name spellings sampled: %r" % (SPELLINGS[1:],)]

    def setup(self, c):
        name = c.one_of('name', SPELLINGS[1:])
        defined = c.choice('defined', 2)
        env = c.map('env')
        envs = {ENVNAME: env} if defined else {}
        if c.choice('has_environment_env', 2):
            envs['environment'] = c.map('default_env')
        # get_environments hands out a copy of the name -> environment table unless asked not to (return_copy=False gives the
        # STORED table); either way the environments inside are the stored objects
        this = Obj('concrete', get_environments=Extern('FlowIRConcrete.get_environments',
                                                       lambda c, p=None, return_copy=True, **k: dict(envs) if return_copy else envs),
                   _flowir={})
        return State(args=[this], kwargs={'name': name, 'platform': 'plat'}, name=name, envs=envs, key=c.str('anykey'))

    def ensures(self, c, st, out):
        lname = st.name.lower()
        if out.kind == 'raise':
            return [('unknown-iff-undefined', out.raised(errors.FlowIREnvironmentUnknown) and lname != 'none'
                     and lname not in st.envs)]
        res = out.value
        if lname == 'none':
            return [('none-is-empty', isinstance(res, dict) and not isinstance(res, FlexDict) and len(res) == 0
                     or (isinstance(res, FlexDict) and res.sym is None and len(res) == 0))]
        stored = st.envs.get(lname)
        return [('defined', lname in st.envs),
                ('exact-contents', same_map(res, st.envs[lname], st.key) if lname in st.envs else False),
                # callers (get_environment) update() what they get: it must not be the object stored in the description
                ('the-stored-environment-is-not-handed-out', unflex(res) is not unflex(stored) and res is not stored)]

    def cross_compare(self, sctx, sst, nctx, nst, model, concretize):
        return []


class GetEnvironment(Target):
    prop = 'C17'
    name = 'FlowIRConcrete.get_environment'
    file = 'python/experiment/model/frontends/flowir.py'
    qualname = 'FlowIRConcrete.get_environment'
    trusted = ["get_platform_environment as proved above (exact contents or FlowIREnvironmentUnknown)"]

    def setup(self, c):
        on_default = c.choice('on_default', 2)
        on_platform = c.choice('on_platform', 2)
        denv = c.map('default_platform_env') if on_default else None
        penv = c.map('platform_env') if on_platform else None
        active = c.one_of('active_platform', [DEFAULT, 'plat'])
        platform = c.one_of('platform_arg', [None, DEFAULT, 'plat'])

        def gpe(c, name=None, platform=None):
            e = denv if platform == DEFAULT else penv
            if e is None:
                c.raise_(errors.FlowIREnvironmentUnknown, name, platform, {})
            return e.copy() if isinstance(e, dict) else MapBox(e.m.copy())
        this = Obj('concrete', _platform=active, _flowir={},
                   get_platform_environment=Extern('FlowIRConcrete.get_platform_environment', gpe))
        eff = platform if platform is not None else active
        return State(args=[this], kwargs={'name': ENVNAME, 'platform': platform}, denv=denv, penv=penv, eff=eff,
                     key=c.str('anykey'))

    def ensures(self, c, st, out):
        d, p, k = st.denv, st.penv, st.key
        if st.eff == DEFAULT:
            if out.kind == 'raise':
                return [('unknown-iff-undefined', out.raised(errors.FlowIREnvironmentUnknown) and d is None)]
            return [('default-platform-exact', same_map(out.value, d, k) if d is not None else False)]
        if out.kind == 'raise':
            return [('error-iff-neither-defines-it', out.raised(errors.FlowIREnvironmentUnknown) and d is None and p is None)]
        if d is None and p is None:
            return [('error-iff-neither-defines-it', False)]
        res = out.value
        empty = MapBox(SymMap.empty(z3.StringSort(), z3.StringSort()))
        lo, hi = (d or empty), (p or empty)
        pres, val = layered(lo, hi, k)
        return [('platform-layered-over-default', And(Iff(has(res, k), pres), Implies(pres, Eq(at(res, k), val))))]


class DefaultEnvironment(Target):
    prop = 'C17'
    name = 'FlowIRExperimentConfiguration.defaultEnvironment'
    file = 'python/experiment/model/conf.py'
    qualname = 'FlowIRExperimentConfiguration.defaultEnvironment'

    def setup(self, c):
        defined = c.choice('package_defines_environment', 2)
        env = c.map('package_environment') if defined else None
        osenv = c.map('os.environ')

        def get_env(c, name, platform=None):
            if env is None:
                c.raise_(errors.FlowIREnvironmentUnknown, name, platform, {})
            return env
        this = Obj('conf', _concrete=Obj('concrete', get_environment=Extern('FlowIRConcrete.get_environment', get_env)))
        fill = c.one_of('fill_when_unset', [True, False])
        return State(args=[this], kwargs={'fill_when_unset': fill}, env=env, osenv=osenv, fill=fill, key=c.str('anykey'))

    def externs(self, c, st):
        return {'os.environ': st.osenv}

    def ensures(self, c, st, out):
        if out.kind == 'raise':
            return [('raises-only-when-asked', st.env is None and not st.fill and out.raised(errors.FlowIREnvironmentUnknown))]
        if st.env is not None:
            return [('package-default-environment', same_map(out.value, st.env, st.key))]
        return [('launch-environment-when-package-defines-none', And(st.fill, same_map(out.value, st.osenv, st.key)))]


def real_expand_vars(value, env):
    return flowir_mod.expand_vars(value, env)


def e1(c, value, env):
    """expand_vars(value, env): uninterpreted symbolically, the real function natively"""
    if c.mode == 'sym':
        return E1.apply(value, unflex(env))
    return real_expand_vars(value, dict(env))


def spec_defaults(c, base_has, base_val, parts, osenv, key):
    """spec function (from the statement): after importing the DEFAULTS names `parts` (in order) from the launch
    environment, (present, value) at `key`.  An imported name the environment does not define takes the launch value;
    one it defines has its self-reference expanded from the launch environment."""
    pres, val = base_has(key), base_val(key)
    for d in parts:
        hit = And(Eq(key, d), has(osenv, d))
        if c.mode == 'sym':
            single = MapBox(SymMap.empty(z3.StringSort(), z3.StringSort()).store(d, at(osenv, d)))
        else:
            single = {d: at(osenv, d)}
        if hit is False:
            continue
        newval = If(pres, e1(c, val, single), at(osenv, d))
        val = If(hit, newval, val)
        pres = Or(pres, hit)
    return pres, val


def _kept_objects(stub, depth=0):
    """every container reachable from the fields of a stub (the object's long-lived state)"""
    out = []
    def walk(v, d):
        if d > 4:
            return
        v0 = unflex(v) if isinstance(v, FlexDict) else v
        if isinstance(v0, (dict, list, MapBox)):
            out.append(v0)
            if v is not v0:
                out.append(v)
        if isinstance(v0, dict):
            for x in v0.values():
                walk(x, d + 1)
        elif isinstance(v0, list):
            for x in v0:
                walk(x, d + 1)
    for v in object.__getattribute__(stub, '_fields').values():
        walk(v, 0)
    return out


def _same_object(a, b):
    a0 = unflex(a) if isinstance(a, FlexDict) else a
    b0 = unflex(b) if isinstance(b, FlexDict) else b
    return a is b or a0 is b0


class EnvironmentWithName(Target):
    prop = 'C17'
    name = 'FlowIRExperimentConfiguration.environmentWithName'
    file = 'python/experiment/model/conf.py'
    qualname = 'FlowIRExperimentConfiguration.environmentWithName'
    max_paths = 100000
    abstracted = True
    trusted = ["string.Template.safe_substitute and os.path.expandvars are functions of (value, map) that add no keys",
               "FlowIRConcrete.get_environment as proved above", "str.lower()",
               "extensionality: two maps that agree at an arbitrary key are the same argument of expand_vars"]
    assumptions = ["neither the runtime's system variables nor the launch environment define a variable called DEFAULTS",
                   "an environment's DEFAULTS lists at most 2 names (BOUNDED; names and values symbolic)",
                   "environment-name spellings sampled: %r" % (SPELLINGS,)]

    def setup(self, c):
        name = c.one_of('environment_name', SPELLINGS)
        sysvars = c.one_of('system_vars', [None, lambda: c.map('system_vars')])
        osenv = c.map('os.environ')
        platform = c.one_of('platform', [DEFAULT, 'plat'])
        pkg_default = Lazy(lambda: c.one_of('package_environment', [None, lambda: self._env_with_defaults(c, 'package_environment')]))
        named_here = Lazy(lambda: c.one_of('named_on_platform', [None, lambda: self._env_with_defaults(c, 'named_env')]))
        named_default = Lazy(lambda: c.one_of('named_on_default', [None, lambda: self._env_with_defaults(c, 'named_env_default')]))
        holder = Obj('holder', pkg_default=pkg_default, named_here=named_here, named_default=named_default)

        def clone(m):
            return MapBox(m.m.copy()) if isinstance(m, MapBox) else dict(m)

        def get_env(c, name, platform=None):
            if name == 'environment':
                e = holder.pkg_default
            elif platform == DEFAULT:
                e = holder.named_default
            else:
                e = holder.named_here
            if e is None:
                c.raise_(errors.FlowIREnvironmentUnknown, name, platform, {FlowIR.FieldEnvironments: {}})
            return clone(e[0])
        this = Obj('conf', _system_vars=sysvars, _platform=platform,
                   _concrete=Obj('concrete', get_environment=Extern('FlowIRConcrete.get_environment', get_env)))
        this.defaultEnvironment = Extern('defaultEnvironment', lambda c, fill_when_unset=True:
                                         clone(holder.pkg_default[0]) if holder.pkg_default is not None else clone(osenv))
        remove = c.one_of('remove_defaults_key', [True, False])
        if sysvars is not None:
            c.require(Not(has(sysvars, LBL_DEFAULTS)))
        c.require(Not(has(osenv, LBL_DEFAULTS)))
        c.ghost['E1_final'] = None
        return State(args=[this, name], kwargs={'expand': True, 'remove_defaults_key': remove}, name=name, sysvars=sysvars, this=this,
                     osenv=osenv, platform=platform, holder=holder, remove=remove, key=c.str('anykey'))

    @staticmethod
    def _env_with_defaults(c, label):
        """an environment map, with or without a DEFAULTS entry of 1..2 names; returns (map, parts|None)"""
        m = c.map(label)
        k = c.choice(label + '.ndefaults', 3)
        if k == 0:
            if isinstance(m, dict):
                m.pop(LBL_DEFAULTS, None)
            else:
                c.require(Not(has(m, LBL_DEFAULTS)))
            return (m, None)
        j = c.joined(label + '.DEFAULTS', ':', k)
        if isinstance(m, dict):
            m[LBL_DEFAULTS] = j
            return (m, j.split(':'))
        c.assume(And(has(m, LBL_DEFAULTS), Eq(at(m, LBL_DEFAULTS), j)))
        return (m, c.split_registry[-1][2])

    def externs(self, c, st):
        osenv = st.osenv

        def expand_vars(c, value, env):
            env = unflex(env)
            # the LAST call whose map is not a one-entry literal is the final self-expansion
            c.ghost['E1_final'] = (value, env)
            return E1.apply(value, env)
        return {'os.environ': osenv,
                'experiment.model.frontends.flowir.expand_vars': Extern('expand_vars', expand_vars, native_passthrough=True),
                'os.path.expandvars': Extern('os.path.expandvars', lambda c, s: E2.apply(s, osenv), native_passthrough=True)}

    def selected(self, st):
        """(kind, (map, parts)|None) the environment the statement selects for st.name"""
        lname = (st.name or 'environment').lower()
        h = st.holder
        if lname in ('', 'environment'):
            return 'default', h.pkg_default
        if lname == 'none':
            return 'none', None
        if h.named_here is not None or st.platform == DEFAULT:
            # get_environment already layers platform over default; here the extern returns the visible one
            return 'named', h.named_here
        return 'named', h.named_default

    def native_label(self, label):
        return 'expanded-from-itself-then-launch-environment' if label.startswith('expansion:') else label

    def ensures(self, c, st, out):
        kind, sel = self.selected(st)
        k = st.key
        if out.kind == 'raise':
            return [('error-iff-neither-defines-it', out.raised(errors.FlowIREnvironmentUnknown) and kind == 'named' and sel is None)]
        if kind == 'named' and sel is None:
            return [('error-iff-neither-defines-it', False)]
        res = out.value
        sym = c.mode == 'sym'
        empty = MapBox(SymMap.empty(z3.StringSort(), z3.StringSort())) if sym else {}
        sysm = st.sysvars if st.sysvars is not None else empty
        # environmentForNode ADDS variables to the dictionary it gets (interpreter paths): the result must be the caller's
        # own object, not one that the configuration keeps (system variables, a cache, the launch environment)
        kept = _kept_objects(st.this) + [st.osenv]
        private = not any(_same_object(res, x) for x in kept)
        if kind == 'default':
            layer, parts = sel if sel is not None else (st.osenv, None)
        elif kind == 'none':
            layer, parts = empty, None
        else:
            layer, parts = sel
        base_has = lambda key: Or(has(sysm, key), has(layer, key))
        base_val = lambda key: If(has(layer, key), at(layer, key), at(sysm, key))
        parts = parts or []
        drop_defaults = bool(parts) and st.remove

        def pre(key):
            """the environment BEFORE the final expansion, per the statement: (present, value) at key"""
            p, v = spec_defaults(c, base_has, base_val, parts, st.osenv, key)
            return And(p, Not(And(Eq(key, LBL_DEFAULTS), drop_defaults))), v

        cl = [('callers-get-a-private-dictionary', private)]
        if not sym:
            # native evaluation of the statement over every key that occurs anywhere
            keys = set(res) | set(sysm) | set(layer) | set(st.osenv) | set(parts) | {k}
            pre_map = {}
            for q in keys:
                p, v = pre(q)
                if p:
                    pre_map[q] = v
            want = {q: os.path.expandvars(real_expand_vars(v, pre_map)) for q, v in pre_map.items() if v}
            srcs = set(sysm) | set(layer) | {d for d in parts if d in st.osenv}
            cl.append(('keys-only-from-declared-sources', all(q in srcs for q in res)))
            if kind == 'none':
                cl.append(('empty-environment-is-system-only', all(q in sysm for q in res)))
            if drop_defaults:
                cl.append(('defaults-key-removed', LBL_DEFAULTS not in res))
            cl.append(('present-iff-declared-and-non-empty', set(res) == set(want)))
            cl.append(('expanded-from-itself-then-launch-environment', all(res[q] == want.get(q) for q in res)))
            return cl
        imported = Or(*[And(Eq(k, d), has(st.osenv, d)) for d in parts]) if parts else False
        pres, val = pre(k)
        cl += [
            # the statement's key-set clause: nothing from the launch environment beyond explicit imports
            ('keys-only-from-declared-sources', Implies(has(res, k), Or(has(sysm, k), has(layer, k), imported))),
            ('present-iff-declared-and-non-empty', Iff(has(res, k), And(pres, wrap(z3.Length(to_z3(val)) > 0)))),
        ]
        if kind == 'none':
            cl.append(('empty-environment-is-system-only', Implies(has(res, k), has(sysm, k))))
        if drop_defaults:
            cl.append(('defaults-key-removed', Not(has(res, LBL_DEFAULTS))))
        # value clause "own environment first, then the launch environment", decomposed (extensionality is applied
        # at the meta level, see `trusted`):  X := the map handed to expand_vars in the final expansion
        fin = c.ghost.get('E1_final')
        if fin is None:
            # nothing to expand is only right for an environment that is concretely empty
            r = unflex(res)
            cl.append(('expansion:performed', isinstance(r, dict) and len(r) == 0))
            return cl
        X = fin[1]
        if not isinstance(X, MapBox):
            cl.append(('expansion:performed', False))
            return cl
        cl += [
            ('expansion:environment-being-expanded-is-the-declared-one',
             And(Iff(has(X, k), pres), Implies(pres, Eq(at(X, k), val)))),
            ('expansion:own-environment-then-launch-environment',
             Implies(has(res, k), Eq(at(res, k), E2.apply(E1.apply(at(X, k), X), st.osenv)))),
        ]
        return cl

    def cross_compare(self, sctx, sst, nctx, nst, model, concretize):
        return []


INTERP_VARS = ['PATH', 'PYTHONPATH', 'PYTHONHOME', 'LD_LIBRARY_PATH']


class EnvironmentForNode(Target):
    prop = 'C17'
    name = 'FlowIRExperimentConfiguration.environmentForNode'
    file = 'python/experiment/model/conf.py'
    qualname = 'FlowIRExperimentConfiguration.environmentForNode'
    abstracted = True
    pure = ('ParseProducerReference',)
    trusted = ["environmentWithName as proved above", "FlowIR.fill_in rewrites values only (same keys); on the environment "
               "name it is the identity when the name holds no variable reference",
               "ParseProducerReference (real function, concrete argument)", "get_component_configuration returns the component"]

    def setup(self, c):
        envname = c.one_of('component_environment', SPELLINGS)
        interp = c.one_of('interpreter', [None, '', 'bash'])
        command = {}
        if envname is not None or c.choice('environment_key_present', 2):
            command['environment'] = envname
        if interp is not None:
            command['interpreter'] = interp
        comp = {'command': command, 'variables': {'v': '1'}, 'stage': 0, 'name': 'comp'}
        env = c.map('environmentWithName()')
        osenv = c.map('os.environ')
        c.ghost['asked'] = None

        def env_with_name(c, name, expand=True, remove_defaults_key=True):
            c.ghost['asked'] = name
            return MapBox(env.m.copy()) if isinstance(env, MapBox) else dict(env)
        conc = Obj('concrete', get_component_configuration=Extern('get_component_configuration',
                                                                  lambda c, cid, raw=False, include_default=True: comp),
                   get_default_global_variables=Extern('get_default_global_variables', lambda c: c.map('global_vars')),
                   get_platform_global_variables=Extern('get_platform_global_variables', lambda c: c.map('platform_vars')))
        this = Obj('conf', _concrete=conc, _is_primitive=True, is_raw=c.one_of('is_raw', [False, True]),
                   environmentWithName=Extern('environmentWithName', env_with_name),
                   suppressed_warning=Extern('suppressed_warning', lambda c, msg: None))
        return State(args=[this, 'stage0.comp'], envname=envname, interp=interp, env=env, osenv=osenv, key=c.str('anykey'))

    def externs(self, c, st):
        def fill_in(c, what, context, flowir=None, label=None, is_primitive=True, **kw):
            what = unflex(what)
            if isinstance(what, MapBox):
                k = z3.FreshConst(z3.StringSort(), 'fk')
                ctxm = unflex(context)
                val = z3.Lambda([k], to_z3(FILL.apply(Sym(z3.Select(what.m.val, k)), ctxm)))
                return MapBox(SymMap(what.m.dom, val, z3.StringSort(), z3.StringSort()))
            return what
        return {'os.environ': st.osenv,
                'experiment.model.frontends.flowir.FlowIR.fill_in': Extern('FlowIR.fill_in', fill_in, native_passthrough=True)}

    def ensures(self, c, st, out):
        if out.kind == 'raise':
            return [('no-exception', False)]
        res, k = out.value, st.key
        interp = bool(st.interp)
        if c.mode == 'sym':
            from_shell = Or(*[And(Eq(k, v), has(st.osenv, v)) for v in INTERP_VARS]) if interp else False
            return [('asks-for-the-component-environment', c.ghost['asked'] == st.envname),
                    ('keys-only-from-environment-or-interpreter-search-paths',
                     Implies(has(res, k), Or(has(st.env, k), from_shell))),
                    ('environment-keys-kept', Implies(has(st.env, k), has(res, k))),
                    ('search-paths-come-from-launch-environment',
                     Implies(And(from_shell, Not(has(st.env, k))), And(has(res, k), Eq(at(res, k), at(st.osenv, k)))))]
        shell = {v for v in INTERP_VARS if v in st.osenv} if interp else set()
        return [('asks-for-the-component-environment', c.ghost['asked'] == st.envname),
                ('keys-only-from-environment-or-interpreter-search-paths', all(q in st.env or q in shell for q in res)),
                ('environment-keys-kept', all(q in res for q in st.env)),
                ('search-paths-come-from-launch-environment', all(res.get(q) == st.osenv[q] for q in shell if q not in st.env))]


class FromDictLowercasesNames(Target):
    """environment NAMES are matched case-insensitively because FlowIR.from_dict stores every environment under its
    lower-cased name (and get_platform_environment lower-cases the name it looks up): after loading, each platform's
    environments are keyed by the lower-cased names with their contents unchanged, and the caller's document is not
    modified."""
    prop = 'C17'
    name = 'FlowIR.from_dict[environment names]'
    file = 'python/experiment/model/frontends/flowir.py'
    qualname = 'FlowIR.from_dict'
    compare_return = False
    trusted = ["FlowIR.discover_platforms", "deep_copy"]
    assumptions = ["two platforms with environments named from ['MyEnv', 'myenv2', 'ALLCAPS', 'environment'] (every subset), "
                   "contents symbolic maps; a platform whose environments entry is None"]

    NAMES = ['MyEnv', 'myenv2', 'ALLCAPS', 'environment']

    def setup(self, c):
        envs = {}
        contents = {}
        for plat in ('default', 'plat'):
            if plat == 'plat' and c.one_of('plat.environments_is_none', [False, True]):
                envs[plat] = None
                continue
            d = {}
            for nm in self.NAMES:
                if c.one_of('%s.%s' % (plat, nm), [False, True]):
                    d[nm] = {'VAR': 'value-of-%s-%s' % (plat, nm)}
                    contents[(plat, nm.lower())] = d[nm]['VAR']
            envs[plat] = d
        doc = {FlowIR.FieldEnvironments: envs, 'components': []}
        import copy
        cls = Obj('FlowIR-class', FieldEnvironments=FlowIR.FieldEnvironments, FieldPlatforms=FlowIR.FieldPlatforms,
                  discover_platforms=Extern('discover_platforms', lambda c, f: ['default', 'plat']))
        cls.__call__ = Extern('FlowIR()', lambda c: Obj('flowir-instance', flowir={}))
        return State(args=[cls, doc], doc=doc, before=copy.deepcopy(doc), contents=contents)

    def real_function(self):
        return FlowIR.from_dict.__func__

    def ensures(self, c, st, out):
        if out.kind == 'raise':
            return [('no-exception', False)]
        got = out.value.flowir.get(FlowIR.FieldEnvironments, {})
        seen = {}
        for plat, d in got.items():
            for nm, env in (d or {}).items():
                seen[(plat, nm)] = env.get('VAR')
        return [('environments-are-stored-under-lower-cased-names-with-their-contents', seen == st.contents),
                ('the-callers-document-is-not-modified', st.doc == st.before)]


TARGETS = [GetPlatformEnvironment(), GetEnvironment(), DefaultEnvironment(), EnvironmentWithName(), EnvironmentForNode(),
           FromDictLowercasesNames()]
LEMMAS = []
