"""EFFECT rule (DESIGN 2.5): file-system calls as externs that append to a ghost trace and may fail.
Every call that can fail forks (these are the property's write boundaries)."""
import io
from pyvc.values import Obj, Extern
from pyvc.core import Sym

WRITE_MODES = ('w', 'a', '+', 'x')


def is_write_mode(mode):
    return any(m in mode for m in WRITE_MODES)


class FS:
    """builds the extern table; c.events receives
       ('open', path, mode) ('open-failed', path) ('write', path) ('write-failed', path) ('close', path)
       ('close-failed', path) ('rename', a, b) ('rename-failed', a, b) ('remove', path)"""

    def __init__(self, c, fail_open=True, fail_write=True, fail_close=True, fail_rename=True, read_data=None,
                 write_error=IOError, max_write_faults=None):
        self.c = c
        self.fail_open, self.fail_write, self.fail_close, self.fail_rename = fail_open, fail_write, fail_close, fail_rename
        self.read_data = read_data or {}
        self.write_error = write_error
        self.nwrites = 0

    def open(self, c, path, mode='r', *a, **k):
        if not is_write_mode(mode):
            c.event('open-read', path)
            if path not in self.read_data and not isinstance(path, Sym):
                c.raise_(IOError, 2, 'No such file', path)
            data = self.read_data.get(path, '')
            return Obj('rfile', read=Extern('file.read', lambda c: data), _transparent=True)
        if self.fail_open and c.choice('open(%s)' % self._p(path), 2) == 1:
            c.event('open-failed', path)
            c.raise_(IOError, 13, 'Permission denied')
        c.event('open', path, mode)

        def write(c, data):
            if self.fail_write and c.choice('write#%d' % self.nwrites, 2) == 1:
                c.event('write-failed', path)
                c.raise_(self.write_error, 28, 'No space left on device')
            self.nwrites += 1
            c.event('write', path)

        def close(c, *exc):
            if self.fail_close and c.choice('close(%s)' % self._p(path), 2) == 1:
                c.event('close-failed', path)
                c.raise_(IOError, 28, 'No space left on device (flush at close)')
            c.event('close', path)
            return None
        f = Obj('wfile', write=Extern('file.write', write), close=Extern('file.close', close), path=path)
        f.__enter__ = Extern('file.__enter__', lambda c: f)
        f.__exit__ = Extern('file.__exit__', close)
        return f

    def _p(self, path):
        return 'sym' if isinstance(path, Sym) else str(path).split('/')[-1][:12]

    def rename(self, c, a, b):
        if self.fail_rename and c.choice('rename', 2) == 1:
            c.event('rename-failed', a, b)
            c.raise_(OSError, 18, 'Invalid cross-device link')
        c.event('rename', a, b)

    def remove(self, c, p):
        c.event('remove', p)

    def dump_to(self, name):
        """an extern for json.dump / yaml_dump(data, f, ...) / print(..., file=f): one write on f"""
        def dump(c, data, f=None, *a, **k):
            f = f if f is not None else k.get('stream')
            if f is None:
                return 'dumped-string'
            f.write('<%s>' % name)
        return Extern(name, dump)

    def copy_over(self, c, src, dst, *a, **k):
        """shutil.copyfile / copy / copy2(src, dst): dst is opened for writing and filled in place (NOT atomic)"""
        f = self.open(c, dst, 'wb')
        f.write('<copy of %s>' % (src if not isinstance(src, Sym) else 'src'))
        f.close()
        return dst

    def externs(self):
        return {'open': Extern('open', self.open), 'os.rename': Extern('os.rename', self.rename),
                'os.replace': Extern('os.replace', self.rename), 'shutil.move': Extern('shutil.move', self.rename),
                'os.remove': Extern('os.remove', self.remove),
                'shutil.copyfile': Extern('shutil.copyfile', self.copy_over), 'shutil.copy': Extern('shutil.copy', self.copy_over),
                'shutil.copy2': Extern('shutil.copy2', self.copy_over)}


def atomic_update_clauses(events, targets, tmp_ok=lambda p: True):
    """The temp+rename protocol on one trace (python bools; paths are concrete strings):
       * a target is never opened for writing;
       * a target changes only by rename(t, target) with t != target, t opened for writing, and CLOSED successfully
         with no failed write/close in between (so a failed or unfinished write never reaches the rename);
       * nothing else is renamed onto a target."""
    ok_direct = all(not (e[0] == 'open' and e[1] in targets) for e in events)
    ok_rename = True
    state = {}            # temp path -> 'open' | 'closed' | 'bad'
    for e in events:
        if e[0] == 'open':
            state[e[1]] = 'open'
        elif e[0] in ('write-failed', 'close-failed', 'open-failed'):
            state[e[1]] = 'bad'
        elif e[0] == 'close':
            if state.get(e[1]) == 'open':
                state[e[1]] = 'closed'
        elif e[0] == 'rename':
            src, dst = e[1], e[2]
            if dst in targets:
                if src == dst or state.get(src) != 'closed':
                    ok_rename = False
                state[src] = 'renamed'
    return [('target-never-opened-for-writing', ok_direct),
            ('target-replaced-only-by-rename-of-a-complete-temp-file', ok_rename)]
