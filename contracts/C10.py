"""C10 -- command-line reference substitution is exact.

The substitution loop of ComponentSpecification.resolveArguments (statement slice of the real source) on STRUCTURED
argument strings: two declared references (arbitrary producer names, stages, optional file, path- or contents-valued
methods) mentioned in either spelling between literal text; DataReference.resolve is an extern returning an opaque value
per reference.  Specification (from the statement): token-wise substitution of every occurrence of every declared
reference, in either spelling, by that reference's own value; all other text untouched; independent of declaration
order.  Occurrence analysis by the REPLACE rule (name overlaps are explored by refining atoms)."""
import string
import z3
from pyvc.spec import Target, Lemma, State, NULLLOG
from pyvc.values import Obj, Extern, FlexDict, unflex, SymBytes, Uninterp
from pyvc.core import And, Or, Not, Implies, Iff, If, Eq, In, Sym, compare, OutsideSubset
from pyvc import sstr
from pyvc.sstr import SStr, Lit, Num, Atom

import experiment.model.graph as graph_mod
import experiment.model.errors

G = 'python/experiment/model/graph.py'
DataReference = graph_mod.DataReference
NAME_ALLOWED = string.ascii_letters + string.digits + '_-#'
NAME_EXCL = ''.join(ch for ch in string.printable if ch not in NAME_ALLOWED)
VAL_EXCL = ''.join(ch for ch in string.printable if ch not in string.ascii_letters + string.digits + '_')


def S(*parts):
    parts = [p for p in parts if p is not None]
    if all(isinstance(p, str) for p in parts):
        return ''.join(parts)
    return sstr.simplify(SStr([p if isinstance(p, (Lit, Num, Atom, SStr)) else sstr.lift(p) for p in parts]))


def num(c, n):
    return str(n) if c.mode != 'sym' else SStr([Num(n)])


def same(a, b, c=None):
    if isinstance(a, (SStr, str)) and isinstance(b, (SStr, str)):
        try:
            return sstr.equal(a, b)
        except OutsideSubset:
            if c is not None and getattr(c, 'suffix_refinements', []):
                return False      # on a name-overlap path equality that cannot be established counts as not established
            raise
    return a == b


class ResolveArguments(Target):
    prop = 'C10'
    name = 'ComponentSpecification.resolveArguments[substitution]'
    file = G
    qualname = 'ComponentSpecification.resolveArguments'
    slice = (None, 'supported_ref_methods = [', False)      # from the top: helper definitions are part of the slice
    max_paths = 100000
    inline_class = {'this': (G, 'ComponentSpecification')}
    trusted = ["DataReference.resolve returns the reference's own value (a path, or the file contents for :output)",
               "rules of the structured-string domain incl. the REPLACE rule"]
    assumptions = ["two declared references, the first mentioned once, twice, or in both spellings; values are non-empty strings over [A-Za-z0-9_] (no ':' so a value never looks like a "
                   "reference); component names over [A-Za-z0-9_#-] not starting with a digit"]
    carve_outs = {
        # the witness classes of the recorded findings, no wider: (a) one name PROPERLY ends with the other, (b) both
        # spellings of one reference are mentioned, (c) equal names (in different stages) with a relative mention
        'one-spelling-per-reference-and-unrelated-names':
            lambda c, st: not (any(r[2] == 'tail' for r in getattr(c, 'suffix_refinements', [])) or st.both_spellings or
                               (any(r[2] == 'eq' for r in getattr(c, 'suffix_refinements', [])) and st.relative_mention)),
    }

    def setup(self, c):
        name = lambda tag, sample: c.atom(tag, sample, excludes=NAME_EXCL, distinct_from=['stage', ''],
                                           not_stage_prefixed=True, first_not_digit=True)
        p1, p2 = name('p1', 'alpha'), name('p2', 'other')
        s1, s2 = c.int('stage1'), c.int('stage2')
        c.require(And(compare('>=', s1, 0), compare('>=', s2, 0)))
        m1 = c.one_of('method1', ['ref', 'output'])
        m2 = c.one_of('method2', ['ref', 'output'])
        v1 = c.atom('value1', 'VALUE_ONE', excludes=VAL_EXCL)
        v2 = c.atom('value2', 'VALUE_TWO', excludes=VAL_EXCL, differs_from=('value1',))

        def spell(p, s, m, absolute):
            return S(('stage' if absolute else None), (num(c, s) if absolute else None), ('.' if absolute else None), p, ':', m)
        use1 = c.one_of('mention1', ['absolute', 'relative', 'both', 'relative-twice', 'absolute-twice'])
        use2 = c.one_of('mention2', ['absolute', 'relative'])
        order = c.one_of('declaration_order', ['12', '21'])

        def mk(p, s, m, v, tag):
            return Obj('ref' + tag, method=m, absoluteReference=spell(p, s, m, True), relativeReference=spell(p, s, m, False),
                       stringRepresentation=spell(p, s, m, True), resolve=Extern('DataReference.resolve', lambda c, g, v=v: v),
                       Output='output', LoopOutput='loopoutput')
        r1, r2 = mk(p1, s1, m1, v1, '1'), mk(p2, s2, m2, v2, '2')
        tok1 = {'absolute': [spell(p1, s1, m1, True)], 'relative': [spell(p1, s1, m1, False)],
                'both': [spell(p1, s1, m1, True), spell(p1, s1, m1, False)],
                'relative-twice': [spell(p1, s1, m1, False)] * 2, 'absolute-twice': [spell(p1, s1, m1, True)] * 2}[use1]
        tok2 = spell(p2, s2, m2, use2 == 'absolute')
        pieces = ['run -i '] + [x for t in tok1 for x in (t, ' ')] + ['--other=', tok2, ' plain text']
        args = S(*pieces)
        want = S(*(['run -i '] + [x for _ in tok1 for x in (v1, ' ')] + ['--other=', v2, ' plain text']))
        this = Obj('spec', dataReferences=[r1, r2] if order == '12' else [r2, r1], commandDetails={'arguments': args},
                   workflowAttributes={'isRepeat': False},
                   workflowGraphRef=Extern('workflowGraphRef', lambda c: 'graph'),
                   identification=Obj('cid', identifier='stage0.me', stageIndex=0))
        unused = []
        return State(kwargs={'self': this, 'unresolved': None, 'unused': unused, 'ignoreErrors': False}, this=this,
                     want=want, unused=unused, both_spellings=(use1 == 'both'), r1=r1, r2=r2,
                     relative_mention=(use1 in ('relative', 'both', 'relative-twice') or use2 == 'relative'))

    def ensures(self, c, st, out):
        if out.kind == 'raise':
            return [('no-exception', False)]
        got = st.env['arguments']
        try:
            duplicate = same(st.r1.absoluteReference, st.r2.absoluteReference)
        except OutsideSubset:
            duplicate = False
        if duplicate:
            return [('duplicate-declaration-is-out-of-scope', True)]     # the same reference declared twice
        return [('every-occurrence-replaced-by-its-own-value-nothing-else-changed', bool(same(got, st.want, c))),
                ('used-references-are-not-reported-unused', len(st.unused) == 0)]

    def cross_compare(self, sctx, sst, nctx, nst, model, concretize):
        if not hasattr(sst, 'env') or not hasattr(nst, 'env'):
            return []
        sv = concretize(sst.env['arguments'], model)
        nv = nst.env['arguments']
        return [] if sv == nv else ["arguments: symbolic %r vs native %r" % (sv, nv)]


class ResolveArgumentsDirectFirst(ResolveArguments):
    """why the order of ComponentSpecification.dataReferences matters (its contract, below): a DIRECT reference whose path
    ends with the name of a producer (`data/P:ref`) has the relative spelling `P:ref` of the component reference as its
    tail.  With the direct reference first in the list -- what dataReferences guarantees -- both are replaced by their own
    values; this target proves the substitution loop under exactly that precondition."""
    name = 'ComponentSpecification.resolveArguments[direct reference first]'
    assumptions = ["one direct reference data/<P>:ref and one component reference to the producer <P> of the consumer's stage, "
                   "mentioned relatively; list order = direct first (postcondition of dataReferences)"]
    carve_outs = {}

    def setup(self, c):
        name = lambda tag, sample: c.atom(tag, sample, excludes=NAME_EXCL, distinct_from=['stage', ''],
                                           not_stage_prefixed=True, first_not_digit=True)
        p1 = name('p1', 'alpha')
        s1 = c.int('stage1')
        c.require(compare('>=', s1, 0))
        v1 = c.atom('value1', 'VALUE_ONE', excludes=VAL_EXCL)
        vd = c.atom('valueD', 'VALUE_DIRECT', excludes=VAL_EXCL, differs_from=('value1',))
        absolute = S('stage', num(c, s1), '.', p1, ':ref')
        relative = S(p1, ':ref')
        direct = S('data/', p1, ':ref')

        def mk(tag, a, r, v):
            return Obj('ref' + tag, method='ref', absoluteReference=a, relativeReference=r, stringRepresentation=a,
                       resolve=Extern('DataReference.resolve', lambda c, g, v=v: v), Output='output', LoopOutput='loopoutput')
        rd, r1 = mk('D', direct, direct, vd), mk('1', absolute, relative, v1)
        args = S('run --in ', direct, ' --from ', relative, ' done')
        want = S('run --in ', vd, ' --from ', v1, ' done')
        this = Obj('spec', dataReferences=[rd, r1], commandDetails={'arguments': args}, workflowAttributes={'isRepeat': False},
                   workflowGraphRef=Extern('workflowGraphRef', lambda c: 'graph'),
                   identification=Obj('cid', identifier='stage0.me', stageIndex=0))
        unused = []
        return State(kwargs={'self': this, 'unresolved': None, 'unused': unused, 'ignoreErrors': False}, this=this,
                     want=want, unused=unused, both_spellings=False, r1=rd, r2=r1, relative_mention=True)


class ResolveComponentPath(Target):
    """'... by that reference's own value (a path ...)', 'equal names across stages': DataReference.resolve of a path reference
    to a component gives THAT component's working directory (plus the file) -- also when another component of the same name,
    in another stage, was resolved just before on the same storage (two looks, the real method twice)."""
    prop = 'C10'
    name = 'DataReference.resolve[component path]'
    file = G
    qualname = 'DataReference.resolve'
    inline_class = {'this': (G, 'DataReference'), 'other': (G, 'DataReference')}
    compare_return = False
    trusted = ["rootStorage.workingDirectoryForComponent(stage, name) is that component's working directory"]
    assumptions = ["producers stage0.gen and stage1.gen (equal names) and stage0.other; reference with or without a file; ref / copy"]

    def _ref(self, stage, name, fileref, method):
        pid = Obj('pid', identifier='stage%d.%s' % (stage, name), stageIndex=stage, componentName=name)
        return Obj('dataref:stage%d.%s' % (stage, name), method=method, fileRef=fileref, producerName=name,
                   stringRepresentation='stage%d.%s:%s' % (stage, name, method), absoluteReference='stage%d.%s:%s' % (stage, name, method),
                   producerIdentifier=pid, _producerIdentifier=pid)

    def setup(self, c):
        method = c.one_of('method', ['ref', 'copy', 'link'])
        fileref = c.one_of('file', [None, 'out.txt'])
        first = c.one_of('resolved_before', ['nothing', 'stage1.gen', 'stage0.other'])
        nodes = {}
        for (st_, name) in ((0, 'gen'), (1, 'gen'), (0, 'other')):
            nodes['stage%d.%s' % (st_, name)] = {'componentSpecification': Obj('spec', identification=Obj(
                'cid', stageIndex=st_, componentName=name))}
        storage = Obj('storage', workingDirectoryForComponent=Extern('workingDirectoryForComponent',
                                                                       lambda c, s_, n_: '/inst/stages/stage%d/%s' % (s_, n_)),
                      resolvePath=Extern('resolvePath', lambda c, p: '/inst/' + p))
        graph = Obj('wg', _placeholders={}, graph=Obj('nx', nodes=nodes), rootStorage=storage)
        this = self._ref(0, 'gen', fileref, method)
        stage, name = (1, 'gen') if first == 'stage1.gen' else (0, 'other')
        other = self._ref(stage, name, fileref, method)
        return State(args=[this, graph], this=this, other=other, other_id=(stage, name), graph=graph, method=method, fileref=fileref,
                     first=first)

    def real_function(self):
        return graph_mod.DataReference.resolve

    def ensures(self, c, st, out):
        if out.kind == 'raise':
            return [('no-exception', False)]
        tail = ('/' + st.fileref) if st.fileref else ''
        cl = [('a-path-reference-resolves-to-its-own-producers-directory', out.value == '/inst/stages/stage0/gen' + tail)]
        if st.first != 'nothing':
            stage, name = st.other_id
            # the REAL method on another reference of the same storage, after the first one was resolved
            second = st.other.resolve(st.graph)
            cl.append(('a-reference-resolved-afterwards-gets-ITS-producers-directory',
                       second == '/inst/stages/stage%d/%s' % (stage, name) + tail))
        return cl

    def cross_compare(self, *a):
        return []


class DataReferencesOrder(Target):
    """ComponentSpecification.dataReferences: the list resolveArguments substitutes in order.  Direct (input) references
    come BEFORE component references -- the substitution loop relies on it: the relative spelling `A:ref` of a component
    reference is a tail of a direct reference such as `data/A:ref`, which therefore has to be replaced first -- every
    declared reference appears exactly once, and within each kind the declaration order is kept (so the result is a
    function of the declaration, not of incidental ordering)."""
    prop = 'C10'
    name = 'ComponentSpecification.dataReferences'
    file = G
    qualname = 'ComponentSpecification.dataReferences'
    inline_class = {'this': (G, 'ComponentSpecification')}
    compare_return = False
    trusted = ["DataReference.isDirectReference (graph lookup)", "configuration.dataReferencesForNode returns the declared references"]
    assumptions = ["<= 3 declared references, each direct or to a component, every declaration order"]

    def setup(self, c):
        n = 1 + c.choice('references', 3)
        kinds = [c.one_of('ref%d.is' % i, ['component', 'direct']) for i in range(n)]
        declared = ['%s%d%s:ref' % ('data/' if k == 'direct' else '', i, 'A') for i, k in enumerate(kinds)]
        graph = Obj('graph', dataReferencesForNode=Extern('dataReferencesForNode', lambda c, name: list(declared)))
        this = Obj('spec', workflowGraphRef=Extern('workflowGraphRef', lambda c: graph), workflowGraph=graph,
                   identification=Obj('cid', identifier='stage1.me', stageIndex=1))
        return State(args=[this], this=this, kinds=kinds, declared=declared, graph=graph)

    def real_function(self):
        import experiment.model.graph as graph_mod
        return graph_mod.ComponentSpecification.dataReferences.fget

    def externs(self, c, st):
        def make(c, r, stageIndex=None):
            direct = st.kinds[st.declared.index(r)] == 'direct'
            return Obj('DataReference(%s)' % r, text=r, stage=stageIndex, isDirectReference=Extern('isDirectReference', lambda c, g: direct),
                       stringRepresentation=r)
        return {'DataReference': Extern('DataReference', make)}

    def ensures(self, c, st, out):
        if out.kind == 'raise':
            return [('no-exception', False)]
        got = list(out.value)
        texts = [g.text for g in got]
        is_direct = [st.kinds[st.declared.index(t)] == 'direct' for t in texts]
        firsts = [i for i, d in enumerate(is_direct) if not d]
        inputs_first = all(not d for d in is_direct[firsts[0]:]) if firsts else True
        want_direct = [t for t, k in zip(st.declared, st.kinds) if k == 'direct']
        want_comp = [t for t, k in zip(st.declared, st.kinds) if k == 'component']
        return [('direct-references-come-before-component-references', inputs_first),
                ('every-declared-reference-exactly-once', sorted(texts) == sorted(st.declared)),
                ('declaration-order-is-kept-within-each-kind', [t for t, d in zip(texts, is_direct) if d] == want_direct and
                 [t for t, d in zip(texts, is_direct) if not d] == want_comp),
                ('component-references-carry-the-consumer-stage-direct-ones-do-not',
                 all((g.stage is None) == d for g, d in zip(got, is_direct)))]

    def cross_compare(self, *a):
        return []


class ResolveOutputContents(Target):
    """'... or the contents of the referenced file for output references': DataReference.resolve on an :output reference
    to a file returns the file's bytes decoded as UTF-8 (undecodable bytes replaced) without trailing newlines -- a
    function of the BYTES, with no newline translation or other text-mode processing."""
    prop = 'C10'
    name = 'DataReference.resolve[output]'
    file = G
    qualname = 'DataReference.resolve'
    abstracted = True
    compare_return = False
    trusted = ["open(path, 'rb').read() returns the file's bytes; a text-mode read returns universal_newlines(decode(bytes)) "
               "-- modelled as a DIFFERENT (uninterpreted) function of the bytes", "glob.glob / os.path.exists / isfile",
               "bytes.decode('utf-8', 'replace') and str.rstrip are functions (uninterpreted in the proof, real in replays)"]
    assumptions = ["a direct :output reference to one existing file (no component node); contents arbitrary"]

    def setup(self, c):
        content = c.str('file_contents')
        this = Obj('dataref', method='output', fileRef='out.txt', producerName='data', stringRepresentation='data/out.txt:output',
                   absoluteReference='data/out.txt:output',
                   producerIdentifier=Obj('pid', identifier='data', stageIndex=None, componentName='data'),
                   _producerIdentifier=Obj('pid', identifier='data', stageIndex=None, componentName='data'))
        graph = Obj('wg', _placeholders={}, graph=Obj('nx', nodes={}),
                    rootStorage=Obj('storage', resolvePath=Extern('resolvePath', lambda c, p: '/inst/' + p)))
        return State(args=[this, graph], content=content, this=this)

    def real_function(self):
        return graph_mod.DataReference.resolve

    def externs(self, c, st):
        content = st.content

        def open_(c, path, mode='r', *a, **k):
            if 'b' in mode:
                data = SymBytes(content, 'utf-8') if c.mode == 'sym' else content.encode('utf-8', 'surrogateescape')
            else:
                # text mode: decoding AND universal-newline translation
                data = TEXT_MODE.apply(content) if c.mode == 'sym' else content.replace('\r\n', '\n').replace('\r', '\n')
            f = Obj('rfile', read=Extern('file.read', lambda c: data))
            f.__enter__ = Extern('file.__enter__', lambda c: f)
            f.__exit__ = Extern('file.__exit__', lambda c, *e: None)
            return f
        return {'open': Extern('open', open_), 'glob.glob': Extern('glob.glob', lambda c, p: [p]),
                'os.path.exists': Extern('os.path.exists', lambda c, p: True),
                'os.path.isfile': Extern('os.path.isfile', lambda c, p: True),
                'traceback.format_exc': Extern('format_exc', lambda c: 'tb')}

    def ensures(self, c, st, out):
        if out.kind == 'raise':
            return [('no-exception', False)]
        if c.mode == 'sym':
            from pyvc.models import str_function
            want = str_function('rstrip', '\n').apply(st.content)      # decode(encode(s)) is s
            return [('output-reference-resolves-to-the-decoded-bytes-of-the-file', Eq(out.value, want))]
        return [('output-reference-resolves-to-the-decoded-bytes-of-the-file', out.value == st.content.rstrip('\n'))]

    def cross_compare(self, *a):
        return []


TEXT_MODE = Uninterp('text_mode_read', doc="open(path, 'r').read(): decoding plus universal-newline translation")

class ResolveArgumentsUnresolved(ResolveArguments):
    """a reference that cannot be resolved while errors are ignored (validation of a package before it ran): the
    contents of a missing :output are the empty string, a missing path is left as written -- never the text 'None'"""
    name = 'ComponentSpecification.resolveArguments[unresolved]'
    carve_outs = {}
    assumptions = ["one declared reference whose resolution fails; ignoreErrors=True"]

    def setup(self, c):
        import experiment.model.errors as errors
        name = lambda tag, sample: c.atom(tag, sample, excludes=NAME_EXCL, distinct_from=['stage', ''],
                                           not_stage_prefixed=True, first_not_digit=True)
        p1 = name('p1', 'alpha')
        s1 = c.int('stage1')
        c.require(compare('>=', s1, 0))
        m1 = c.one_of('method1', ['ref', 'output'])
        absolute = c.one_of('mention1', ['absolute', 'relative']) == 'absolute'

        def spell(p, s, m, ab):
            return S(('stage' if ab else None), (num(c, s) if ab else None), ('.' if ab else None), p, ':', m)

        def resolve(c, g):
            c.raise_(errors.InternalInconsistencyError, 'cannot resolve yet')
        r1 = Obj('ref1', method=m1, absoluteReference=spell(p1, s1, m1, True), relativeReference=spell(p1, s1, m1, False),
                 stringRepresentation=spell(p1, s1, m1, True), resolve=Extern('DataReference.resolve', resolve),
                 Output='output', LoopOutput='loopoutput')
        tok = spell(p1, s1, m1, absolute)
        args = S('run -i ', tok, ' plain text')
        want = S('run -i ', ' plain text') if m1 == 'output' else args
        this = Obj('spec', dataReferences=[r1], commandDetails={'arguments': args}, workflowAttributes={'isRepeat': False},
                   workflowGraphRef=Extern('workflowGraphRef', lambda c: 'graph'),
                   identification=Obj('cid', identifier='stage0.me', stageIndex=0))
        unused = []
        return State(kwargs={'self': this, 'unresolved': None, 'unused': unused, 'ignoreErrors': True}, this=this,
                     want=want, unused=unused, both_spellings=False, r1=r1, r2=r1, relative_mention=not absolute)

    def ensures(self, c, st, out):
        if out.kind == 'raise':
            return [('no-exception', False)]
        return [('an-unresolved-reference-never-becomes-the-text-None', bool(same(st.env['arguments'], st.want, c)))]


# the objects the substitution loop walks are graph.DataReference instances: their absolute / relative spellings (C09's
# contract on the real classes) are part of "either spelling" here
from pyvc.spec import shared as _shared
import contracts.C09 as _c09
REFERENCE_CLASSES = [_shared(_c09.DataReferenceClass(), 'C10'), _shared(_c09.ComponentIdentifierClass(), 'C10')]

TARGETS = [ResolveArguments(), ResolveArgumentsDirectFirst(), ResolveArgumentsUnresolved(), ResolveOutputContents(), ResolveComponentPath(),
           DataReferencesOrder()] + REFERENCE_CLASSES
LEMMAS = []
