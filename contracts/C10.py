"""C10 -- command-line reference substitution is exact.

The substitution loop of ComponentSpecification.resolveArguments (statement slice of the real source) on STRUCTURED
argument strings: two declared references (arbitrary producer names, stages, optional file, path- or contents-valued
methods) mentioned in either spelling between literal text; DataReference.resolve is an extern returning an opaque value
per reference.  Specification (from the statement): token-wise substitution of every occurrence of every declared
reference, in either spelling, by that reference's own value; all other text untouched; independent of declaration
order.  Occurrence analysis by the REPLACE rule (name overlaps are explored by refining atoms)."""
import string
import z3
from pyvc.spec import Target, Lemma, State, NULLLOG
from pyvc.values import Obj, Extern, FlexDict, unflex
from pyvc.core import And, Or, Not, Implies, Iff, If, Eq, In, Sym, compare, OutsideSubset
from pyvc import sstr
from pyvc.sstr import SStr, Lit, Num, Atom

import experiment.model.graph as graph_mod
import experiment.model.errors

G = 'python/experiment/model/graph.py'
DataReference = graph_mod.DataReference
NAME_ALLOWED = string.ascii_letters + string.digits + '_-#'
NAME_EXCL = ''.join(ch for ch in string.printable if ch not in NAME_ALLOWED)
VAL_EXCL = ''.join(ch for ch in string.printable if ch not in string.ascii_letters + string.digits + '_')


def S(*parts):
    parts = [p for p in parts if p is not None]
    if all(isinstance(p, str) for p in parts):
        return ''.join(parts)
    return sstr.simplify(SStr([p if isinstance(p, (Lit, Num, Atom, SStr)) else sstr.lift(p) for p in parts]))


def num(c, n):
    return str(n) if c.mode != 'sym' else SStr([Num(n)])


def same(a, b, c=None):
    if isinstance(a, (SStr, str)) and isinstance(b, (SStr, str)):
        try:
            return sstr.equal(a, b)
        except OutsideSubset:
            if c is not None and getattr(c, 'suffix_refinements', []):
                return False      # on a name-overlap path equality that cannot be established counts as not established
            raise
    return a == b


class ResolveArguments(Target):
    prop = 'C10'
    name = 'ComponentSpecification.resolveArguments[substitution]'
    file = G
    qualname = 'ComponentSpecification.resolveArguments'
    slice = (None, 'supported_ref_methods = [', False)      # from the top: helper definitions are part of the slice
    max_paths = 100000
    inline_class = {'this': (G, 'ComponentSpecification')}
    trusted = ["DataReference.resolve returns the reference's own value (a path, or the file contents for :output)",
               "rules of the structured-string domain incl. the REPLACE rule"]
    assumptions = ["two declared references; values are non-empty strings over [A-Za-z0-9_] (no ':' so a value never looks like a "
                   "reference); component names over [A-Za-z0-9_#-] not starting with a digit"]
    carve_outs = {
        # the witness classes of the recorded findings, no wider: (a) one name PROPERLY ends with the other, (b) both
        # spellings of one reference are mentioned, (c) equal names (in different stages) with a relative mention
        'one-spelling-per-reference-and-unrelated-names':
            lambda c, st: not (any(r[2] == 'tail' for r in getattr(c, 'suffix_refinements', [])) or st.both_spellings or
                               (any(r[2] == 'eq' for r in getattr(c, 'suffix_refinements', [])) and st.relative_mention)),
    }

    def setup(self, c):
        name = lambda tag, sample: c.atom(tag, sample, excludes=NAME_EXCL, distinct_from=['stage', ''],
                                           not_stage_prefixed=True, first_not_digit=True)
        p1, p2 = name('p1', 'alpha'), name('p2', 'other')
        s1, s2 = c.int('stage1'), c.int('stage2')
        c.require(And(compare('>=', s1, 0), compare('>=', s2, 0)))
        m1 = c.one_of('method1', ['ref', 'output'])
        m2 = c.one_of('method2', ['ref', 'output'])
        v1 = c.atom('value1', 'VALUE_ONE', excludes=VAL_EXCL)
        v2 = c.atom('value2', 'VALUE_TWO', excludes=VAL_EXCL, differs_from=('value1',))

        def spell(p, s, m, absolute):
            return S(('stage' if absolute else None), (num(c, s) if absolute else None), ('.' if absolute else None), p, ':', m)
        use1 = c.one_of('mention1', ['absolute', 'relative', 'both'])
        use2 = c.one_of('mention2', ['absolute', 'relative'])
        order = c.one_of('declaration_order', ['12', '21'])

        def mk(p, s, m, v, tag):
            return Obj('ref' + tag, method=m, absoluteReference=spell(p, s, m, True), relativeReference=spell(p, s, m, False),
                       stringRepresentation=spell(p, s, m, True), resolve=Extern('DataReference.resolve', lambda c, g, v=v: v),
                       Output='output', LoopOutput='loopoutput')
        r1, r2 = mk(p1, s1, m1, v1, '1'), mk(p2, s2, m2, v2, '2')
        tok1 = [spell(p1, s1, m1, True)] if use1 == 'absolute' else [spell(p1, s1, m1, False)] if use1 == 'relative' else \
            [spell(p1, s1, m1, True), spell(p1, s1, m1, False)]
        tok2 = spell(p2, s2, m2, use2 == 'absolute')
        pieces = ['run -i '] + [x for t in tok1 for x in (t, ' ')] + ['--other=', tok2, ' plain text']
        args = S(*pieces)
        want = S(*(['run -i '] + [x for _ in tok1 for x in (v1, ' ')] + ['--other=', v2, ' plain text']))
        this = Obj('spec', dataReferences=[r1, r2] if order == '12' else [r2, r1], commandDetails={'arguments': args},
                   workflowAttributes={'isRepeat': False},
                   workflowGraphRef=Extern('workflowGraphRef', lambda c: 'graph'),
                   identification=Obj('cid', identifier='stage0.me', stageIndex=0))
        unused = []
        return State(kwargs={'self': this, 'unresolved': None, 'unused': unused, 'ignoreErrors': False}, this=this,
                     want=want, unused=unused, both_spellings=(use1 == 'both'), r1=r1, r2=r2,
                     relative_mention=(use1 in ('relative', 'both') or use2 == 'relative'))

    def ensures(self, c, st, out):
        if out.kind == 'raise':
            return [('no-exception', False)]
        got = st.env['arguments']
        try:
            duplicate = same(st.r1.absoluteReference, st.r2.absoluteReference)
        except OutsideSubset:
            duplicate = False
        if duplicate:
            return [('duplicate-declaration-is-out-of-scope', True)]     # the same reference declared twice
        return [('every-occurrence-replaced-by-its-own-value-nothing-else-changed', bool(same(got, st.want, c))),
                ('used-references-are-not-reported-unused', len(st.unused) == 0)]

    def cross_compare(self, sctx, sst, nctx, nst, model, concretize):
        if not hasattr(sst, 'env') or not hasattr(nst, 'env'):
            return []
        sv = concretize(sst.env['arguments'], model)
        nv = nst.env['arguments']
        return [] if sv == nv else ["arguments: symbolic %r vs native %r" % (sv, nv)]


TARGETS = [ResolveArguments()]
LEMMAS = []
