"""C18 -- staging and deployment never write outside their target directory.

EFFECT rule on paths: tarfile / shutil / os.symlink / os.makedirs are externs that record every path they create
(tarfile.extractall creates join(dest, member.name) for every member and, for link members, a link to member.linkname --
the assumed contract of the stdlib).  The extract branch of data.StageReference, the copy/link branches, and the manifest
loop of storage.ExperimentPackage.expandPackageToDirectory + Manifest.validate are executed on every archive / manifest
over a pool of hostile names (parent segments, absolute names, nested escapes, symlink and hardlink members with
escaping targets).  Postcondition: every created path and every link target recorded lies inside the destination
(os.path.normpath segment comparison), or the call is rejected with the staging / packaging error."""
import itertools
import os
import tarfile
import z3
from pyvc.spec import Target, Lemma, State, NULLLOG
from pyvc.values import Obj, Extern, FlexDict, unflex, Native
from pyvc.core import And, Or, Not, Implies, Iff, If, Eq, In, Sym

import experiment.model.errors as errors
import experiment.model.frontends.flowir as flowir_mod

D = 'python/experiment/model/data.py'
ST = 'python/experiment/model/storage.py'
F = 'python/experiment/model/frontends/flowir.py'
DEST = '/work/inst/stages/stage0/comp'
NAMES = ['f.txt', 'sub/f.txt', './f.txt', '../x', 'sub/../../x', '/etc/passwd', 'a/../b', '..', 'sub/../f', '../comp2/f',
         '../comp/f.txt']
LINKS = [None, ('sym', 'f.txt'), ('sym', '../../secret'), ('sym', '/etc/passwd'), ('hard', '../outside'), ('hard', 'sub/f.txt'),
         ('sym', 'sub/../../../x')]


def inside(root, path):
    root = os.path.normpath(root)
    p = os.path.normpath(path)
    return p == root or p.startswith(root + os.sep)


class Member(Native):
    def __init__(self, name, link):
        self.name = name
        self.linkname = link[1] if link else ''
        self._kind = link[0] if link else None

    def issym(self):
        return self._kind == 'sym'

    def islnk(self):
        return self._kind == 'hard'

    def isfile(self):
        return self._kind is None

    def isdir(self):
        return False


class ExtractArchive(Target):
    prop = 'C18'
    name = 'StageReference[extract]'
    file = D
    qualname = 'StageReference'
    max_paths = 100000
    trusted = ["tarfile.extractall(dest) creates join(dest, m.name) for every member; a symlink member points to "
               "join(dirname(member path), linkname), a hardlink member to join(dest, linkname)",
               "os.path.* (stdlib, executed natively on concrete paths); os.path.realpath on paths without existing symlinks"]
    assumptions = ["archives of <= 2 members over a pool of %d names x %d link kinds" % (len(NAMES), len(LINKS))]

    def setup(self, c):
        n = 1 + c.choice('members', 2)
        members = []
        for i in range(n):
            nm = NAMES[c.choice('name%d' % i, len(NAMES))]
            lk = LINKS[c.choice('link%d' % i, len(LINKS))]
            members.append(Member(nm, lk))
        c.ghost['created'] = []
        c.ghost['links'] = []
        ref = Obj('dataref', method='extract', stringRepresentation='data/archive.tgz:extract',
                  resolve=Extern('DataReference.resolve', lambda c, g: '/work/inst/data/archive.tgz'))
        loc = Obj('workdir', path=DEST)
        return State(args=[ref, loc, 'graph'], members=members)

    def externs(self, c, st):
        def tar_open(c, archive):
            def extractall(c, dest, **kw):
                for m in st.members:
                    p = os.path.join(dest, m.name)
                    c.ghost['created'].append(p)
                    if m.issym():
                        c.ghost['links'].append(os.path.join(os.path.dirname(p), m.linkname))
                    elif m.islnk():
                        c.ghost['links'].append(os.path.join(dest, m.linkname))
            t = Obj('tar', getmembers=Extern('TarFile.getmembers', lambda c: list(st.members)),
                    extractall=Extern('TarFile.extractall', extractall), close=Extern('TarFile.close', lambda c: None))
            t.__enter__ = Extern('tar.__enter__', lambda c: t)
            t.__exit__ = Extern('tar.__exit__', lambda c, *a: None)
            return t
        return {'tarfile.open': Extern('tarfile.open', tar_open),
                'os.path.exists': Extern('os.path.exists', lambda c, p: True),
                'os.path.realpath': Extern('os.path.realpath', lambda c, p: os.path.normpath(p) if os.path.isabs(p) else os.path.normpath(os.path.join('/cwd', p)))}

    def ensures(self, c, st, out):
        g = c.ghost
        escapes = [p for p in g['created'] + g['links'] if not inside(DEST, p)]
        hostile = any(not inside(DEST, os.path.join(DEST, m.name)) for m in st.members) or \
            any((m.issym() and not inside(DEST, os.path.join(os.path.dirname(os.path.join(DEST, m.name)), m.linkname))) or
                (m.islnk() and not inside(DEST, os.path.join(DEST, m.linkname))) for m in st.members)
        cl = [('nothing-is-created-outside-the-working-directory', not escapes)]
        if out.kind == 'raise':
            cl.append(('rejected-with-the-staging-error', out.raised(errors.DataReferenceCouldNotStageError)))
            cl.append(('benign-archives-are-not-rejected', hostile))
        else:
            cl.append(('hostile-archives-are-rejected', not hostile))
        return cl


class StageCopyLink(Target):
    prop = 'C18'
    name = 'StageReference[copy/link]'
    file = D
    qualname = 'StageReference'
    trusted = ["shutil.copy(src, dir) creates join(dir, basename(src)); shutil.copytree(src, dst) creates dst; os.symlink(src, dst) creates dst"]

    def setup(self, c):
        method = c.one_of('method', ['copy', 'copyout', 'link'])
        src = c.one_of('reference', ['/work/inst/stages/stage0/prod/out.txt', '/work/inst/data/dir', '/work/inst/data/dir/'])
        isdir = c.one_of('isdir', [False, True])
        c.ghost['created'] = []
        ref = Obj('dataref', method=method, stringRepresentation='x:%s' % method,
                  resolve=Extern('DataReference.resolve', lambda c, g: src))
        return State(args=[ref, Obj('workdir', path=DEST), 'graph'], src=src, isdir=isdir)

    def externs(self, c, st):
        g = c.ghost
        return {'os.path.exists': Extern('os.path.exists', lambda c, p: True),
                'os.path.isdir': Extern('os.path.isdir', lambda c, p: st.isdir),
                'shutil.copytree': Extern('shutil.copytree', lambda c, s, d, **k: g['created'].append(d)),
                'shutil.copy': Extern('shutil.copy', lambda c, s, d: g['created'].append(os.path.join(d, os.path.basename(s)))),
                'os.symlink': Extern('os.symlink', lambda c, s, d: g['created'].append(d))}

    def ensures(self, c, st, out):
        g = c.ghost
        return [('nothing-is-created-outside-the-working-directory', all(inside(DEST, p) for p in g['created'])),
                ('something-is-staged', out.kind == 'raise' or len(g['created']) == 1)]


KEYS = ['bin', 'data/extra', 'nested/dir', '../outside', 'bin/../../escape', '/abs/path', 'ok/../fine', '..']


class DeployManifest(Target):
    prop = 'C18'
    name = 'ExperimentPackage.expandPackageToDirectory[manifest]'
    file = ST
    qualname = 'ExperimentPackage.expandPackageToDirectory'
    trusted = ["shutil.copytree / os.symlink / os.makedirs / shutil.copyfile create exactly their destination argument"]
    assumptions = ["manifests of <= 2 entries over the key pool %r, methods copy/link" % (KEYS,)]

    def setup(self, c):
        n = 1 + c.choice('entries', 2)
        manifest = {}
        for i in range(n):
            k = KEYS[c.choice('key%d' % i, len(KEYS))]
            manifest[k] = 'src%d:%s' % (i, c.one_of('method%d' % i, ['copy', 'link']))
        c.ghost['created'] = []
        this = Obj('package', location='/pkgs/wf/flowir.yaml', manifestData=manifest,
                   configuration=Obj('conf', isExperimentPackageDirectory=False))
        return State(args=[this, '/work/inst'], kwargs={'file_format': None}, manifest=dict(manifest))

    def externs(self, c, st):
        g = c.ghost
        rec = lambda name, idx: Extern(name, lambda c, *a, **k: g['created'].append(a[idx]))
        return {'os.path.exists': Extern('os.path.exists', lambda c, p: False), 'os.makedirs': rec('os.makedirs', 0),
                'shutil.copytree': rec('shutil.copytree', 1), 'os.symlink': rec('os.symlink', 1),
                'shutil.copyfile': rec('shutil.copyfile', 1), 'pprint.pformat': Extern('pformat', lambda c, v: 'x')}

    def ensures(self, c, st, out):
        g = c.ghost
        hostile = any(not inside('/work/inst', os.path.join('/work/inst', k)) or os.path.isabs(k) for k in st.manifest)
        cl = [('nothing-is-created-outside-the-instance-directory', all(inside('/work/inst', p) for p in g['created']))]
        if out.kind == 'raise':
            cl.append(('rejected-with-a-packaging-error', out.raised(errors.PackageCreateError)))
            cl.append(('benign-manifests-are-not-rejected', hostile))
        else:
            cl.append(('hostile-manifests-are-rejected', not hostile))
        return cl


class ManifestValidate(Target):
    prop = 'C18'
    name = 'Manifest.validate'
    file = F
    qualname = 'Manifest.validate'

    def setup(self, c):
        k = KEYS[c.choice('key', len(KEYS))]
        this = Obj('manifest', _manifest={k: 'src:copy'})
        return State(args=[this], key=k)

    def ensures(self, c, st, out):
        hostile = os.path.isabs(st.key) or not inside('/root-dir', os.path.join('/root-dir', st.key))
        if out.kind == 'raise':
            return [('escaping-keys-are-rejected-by-validation', hostile and out.raised(errors.FlowIRManifestException)
                     if hasattr(errors, 'FlowIRManifestException') else hostile)]
        return [('escaping-keys-are-rejected-by-validation', not hostile)]


class HostileArchivesNative:
    """BOUNDED stand-in with the REAL tarfile/shutil on a scratch directory (outside /repo and /verif): hostile archives are
    built on disk, StageReference is run natively, the directory tree outside the working directory must stay unchanged"""
    name = 'hostile-archives[bounded,native]'

    def run(self, tier='quick', seed=0):
        import io, shutil, tempfile
        import experiment.model.data as data_mod
        root = tempfile.mkdtemp(prefix='pyvc-c18-')
        bad, cases = [], 0
        try:
            for nm in NAMES:
                for lk in LINKS:
                    cases += 1
                    case = os.path.join(root, 'case%d' % cases)
                    dest = os.path.join(case, 'stages', 'stage0', 'comp')
                    os.makedirs(dest)
                    os.makedirs(os.path.join(case, 'stages', 'stage0', 'comp2'))
                    arc = os.path.join(case, 'a.tar')
                    with tarfile.open(arc, 'w') as t:
                        ti = tarfile.TarInfo(nm)
                        if lk:
                            ti.type = tarfile.SYMTYPE if lk[0] == 'sym' else tarfile.LNKTYPE
                            ti.linkname = lk[1]
                            t.addfile(ti)
                        else:
                            ti.size = 3
                            t.addfile(ti, io.BytesIO(b'abc'))
                    before = self.snapshot(case, dest)
                    ref = Obj('dataref', method='extract', stringRepresentation='a.tar:extract', resolve=lambda g, a=arc: a)
                    try:
                        data_mod.StageReference(ref, Obj('wd', path=dest), None)
                        verdict = 'extracted'
                    except errors.DataReferenceCouldNotStageError:
                        verdict = 'rejected'
                    except Exception as err:
                        verdict = 'other:%s' % type(err).__name__
                    after = self.snapshot(case, dest)
                    links_ok = all(inside(dest, os.path.realpath(os.path.join(r, f))) or not os.path.islink(os.path.join(r, f))
                                   for r, ds, fs in os.walk(dest) for f in fs + ds)
                    if before != after or not links_ok:      # (a malformed archive, e.g. a dangling hard link, may raise tarfile's own error)
                        bad.append({"what": "member %r link %r: %s; outside changed: %s; links inside: %s" % (
                            nm, lk, verdict, before != after, links_ok), "replay": self._replay(nm, lk, verdict)})
        finally:
            shutil.rmtree(root, ignore_errors=True)
        return {"name": self.name, "bounded": True, "bound": "%d member names x %d link kinds" % (len(NAMES), len(LINKS)),
                "cases": cases, "violations": bad[:3], "summary": "%d archives, %d escapes" % (cases, len(bad))}

    @staticmethod
    def snapshot(case, dest):
        out = []
        for r, ds, fs in os.walk(case):
            if inside(dest, r) and os.path.normpath(r) != os.path.normpath(dest):
                continue
            for f in sorted(fs + ds):
                p = os.path.join(r, f)
                if inside(dest, p) or p.endswith('a.tar'):
                    continue
                out.append((p, os.path.islink(p), os.path.getsize(p) if os.path.isfile(p) else -1))
        return sorted(out)

    def _replay(self, nm, lk, verdict):
        import json
        p = os.path.join(os.path.dirname(os.path.dirname(os.path.abspath(__file__))), 'replays', 'C18')
        os.makedirs(p, exist_ok=True)
        f = os.path.join(p, 'hostile_archive.json')
        json.dump({"property": "C18", "check": self.name, "member": nm, "link": lk, "verdict": verdict}, open(f, 'w'), indent=1)
        return f


TARGETS = [ExtractArchive(), StageCopyLink(), DeployManifest(), ManifestValidate()]
BOUNDED = [HostileArchivesNative()]
LEMMAS = []
