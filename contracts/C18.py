"""C18 -- staging and deployment never write outside their target directory.

EFFECT rule on paths: tarfile / shutil / os.symlink / os.makedirs are externs that record every path they create
(tarfile.extractall creates join(dest, member.name) for every member and, for link members, a link to member.linkname --
the assumed contract of the stdlib).  The extract branch of data.StageReference, the copy/link branches, and the manifest
loop of storage.ExperimentPackage.expandPackageToDirectory + Manifest.validate are executed on every archive / manifest
over a pool of hostile names (parent segments, absolute names, nested escapes, symlink and hardlink members with
escaping targets).  Postcondition: every created path and every link target recorded lies inside the destination
(os.path.normpath segment comparison), or the call is rejected with the staging / packaging error."""
import itertools
import os
import tarfile
import z3
from pyvc.spec import Target, Lemma, State, NULLLOG
from pyvc.values import Obj, Extern, FlexDict, unflex, Native
from pyvc.core import And, Or, Not, Implies, Iff, If, Eq, In, Sym

import experiment.model.errors as errors
import experiment.model.frontends.flowir as flowir_mod

D = 'python/experiment/model/data.py'
ST = 'python/experiment/model/storage.py'
F = 'python/experiment/model/frontends/flowir.py'
DEST = '/work/inst/stages/stage0/comp'
QUICK = os.environ.get('VERIF_TIER') != 'thorough'

# ---- hostile vocabulary: member specifications (name, kind, link target) --------------------------------------------------
SPECS = [
    ('f.txt', 'file', ''), ('sub/f.txt', 'file', ''), ('./f.txt', 'file', ''), ('a/../b', 'file', ''), ('d', 'dir', ''),
    ('../x', 'file', ''), ('sub/../../x', 'file', ''), ('/etc/passwd', 'file', ''), ('../comp2/f', 'file', ''),
    ('l', 'sym', 'f.txt'), ('sub/l', 'sym', '../f.txt'), ('l3', 'sym', 'l'),
    ('l', 'sym', '../../secret'), ('l', 'sym', '/etc/passwd'), ('sub/l', 'sym', 'sub/../../../x'),
    ('h', 'hard', 'sub/f.txt'), ('h', 'hard', '../outside'),
    # chains through links that the archive itself creates / that already exist in the working directory
    ('d/l', 'sym', '..'), ('l2', 'sym', 'd/l/..'), ('l2/evil', 'file', ''), ('l/evil', 'file', ''),
    ('shared/params.txt', 'file', ''), ('alias/l2/evil', 'file', ''), ('l4', 'sym', 'shared/../x'),
]
# what the working directory holds before the archive is extracted (left there by earlier :link / :copy references)
PRESTATES = {
    'empty': {},
    'link-out': {DEST + '/shared': ('sym', '/work/inst/data/shared')},        # a staged :link reference
    'alias': {DEST + '/alias': ('sym', '.')},                                  # a link to the working directory itself
}
MAXLEN = 2 if QUICK else 3
# three-member archives that matter for link chains are part of the quick tier too
CHAINS = [[('d/l', 'sym', '..'), ('l2', 'sym', 'd/l/..'), ('l2/evil', 'file', '')],
          [('d', 'dir', ''), ('d/l', 'sym', '..'), ('d/l/../../x', 'file', '')],
          [('l', 'sym', 'f.txt'), ('l3', 'sym', 'l'), ('l3/x', 'file', '')],
          [('sub/l', 'sym', '../f.txt'), ('f.txt', 'file', ''), ('sub/f.txt', 'file', '')],
          [('d/l', 'sym', '..'), ('l2', 'sym', 'd/l'), ('alias/l2/../evil', 'file', '')],
          # the same chain with member names as archivers really write them (tar -cf a.tar . / doubled separators)
          [('./d/l', 'sym', '..'), ('./l2', 'sym', 'd/l/..'), ('./l2/evil', 'file', '')],
          [('d//l', 'sym', '..'), ('l2', 'sym', 'd/l/..'), ('l2/evil', 'file', '')],
          [('d/./l', 'sym', '..'), ('./l2', 'sym', 'd/l/..'), ('l2/./evil', 'file', '')],
          # a HARD link to a symbolic-link member of the archive is a second symbolic link (link() does not follow)
          [('d/l', 'sym', '..'), ('h', 'hard', 'd/l'), ('h/evil', 'file', '')]]


def inside(root, path):
    root = os.path.normpath(root)
    p = os.path.normpath(path)
    return p == root or p.startswith(root + os.sep)


class Member(Native):
    def __init__(self, name, kind, linkname):
        self.name = name
        self.linkname = linkname
        self._kind = kind

    def issym(self):
        return self._kind == 'sym'

    def islnk(self):
        return self._kind == 'hard'

    def isfile(self):
        return self._kind == 'file'

    def isdir(self):
        return self._kind == 'dir'


class VFS:
    """The ASSUMED contract of the file system, os.path.realpath and tarfile.extractall (trusted; compared with the real
    tarfile on a scratch directory by the bounded native check below): a map from absolute paths to 'dir' / 'file' /
    ('sym', target); symbolic links are followed POSIX-style; extraction creates the members in order, THROUGH whatever
    links exist at that moment."""

    def __init__(self, entries):
        self.e = dict(entries)
        self.created = []          # real locations created/overwritten by the extraction
        self.linked = []           # (location of a created link, kind, where it really points once the extraction is done)

    def realpath(self, path, depth=0):
        if depth > 40:
            raise OSError(40, 'Too many levels of symbolic links')
        walked = '/'
        for part in [p for p in path.split('/') if p not in ('', '.')]:
            if part == '..':
                walked = os.path.dirname(walked)
                continue
            cand = os.path.join(walked, part)
            ent = self.e.get(cand)
            if isinstance(ent, tuple):
                walked = self.realpath(os.path.join(walked, ent[1]), depth + 1)
            else:
                walked = cand
        return walked

    def location(self, path):
        """real directory of @path + its last segment (the last segment itself is not followed)"""
        path = path.rstrip('/')
        return os.path.join(self.realpath(os.path.dirname(path)), os.path.basename(path)) if os.path.basename(path) not in ('', '.', '..') \
            else self.realpath(path)

    def extractall(self, dest, members):
        made = []
        for m in members:
            loc = self.location(os.path.join(dest, m.name))
            parent = os.path.dirname(loc)
            walk = '/'
            for part in [p for p in parent.split('/') if p]:
                walk = os.path.join(walk, part)
                if self.e.get(walk) == 'file':
                    raise OSError(20, 'Not a directory: %s' % walk)
            if m.issym():
                self.e[loc] = ('sym', m.linkname)
                made.append((loc, 'sym', os.path.join(parent, m.linkname)))
                self.created.append(loc)
            elif m.islnk():
                # link(2) does not follow: a hard link to a symbolic link is a second symbolic link with the same text,
                # resolved relative to ITS OWN directory
                src = self.location(os.path.join(dest, m.linkname))
                ent = self.e.get(src)
                if isinstance(ent, tuple) and ent[0] == 'sym':
                    self.e[loc] = ('sym', ent[1])
                    made.append((loc, 'sym', os.path.join(parent, ent[1])))
                else:
                    made.append((loc, 'hard', os.path.join(dest, m.linkname)))
                    self.e[loc] = 'file'
                self.created.append(loc)
            elif m.isdir():
                loc = self.realpath(loc)
                if self.e.get(loc) != 'dir':
                    self.e[loc] = 'dir'
                self.created.append(loc)
            else:
                loc = self.realpath(loc)            # open(path, 'wb') follows a link that is already there
                self.e[loc] = 'file'
                self.created.append(loc)
        for loc, kind, tgt in made:
            try:
                self.linked.append((loc, kind, self.realpath(tgt)))
            except OSError:
                self.linked.append((loc, kind, loc))          # a loop: points nowhere


def plainly_benign(pre, members):
    """no member path or link target leaves the destination lexically, is absolute, or goes through ANY link (its own or
    one that is already there): such an archive must be accepted"""
    links = {os.path.normpath(os.path.join(DEST, m.name)) for m in members if m.issym() or m.islnk()} | set(pre)
    def clean(p):
        if not inside(DEST, p):
            return False
        q = os.path.normpath(p)
        parts = os.path.relpath(q, DEST).split('/')
        pref = DEST
        for part in parts[:-1]:
            pref = os.path.join(pref, part)
            if pref in links:
                return False
        return True
    for m in members:
        if os.path.isabs(m.name) or '..' in m.name.split('/') or not clean(os.path.join(DEST, m.name)):
            return False
        if m.issym():
            if os.path.isabs(m.linkname) or not clean(os.path.join(os.path.dirname(os.path.join(DEST, m.name)), m.linkname)):
                return False
            # '..' inside a link target is fine as long as the lexical walk never passes a link (checked by clean on the
            # normalised path) -- but a target that names a link as an INTERMEDIATE segment before normalisation is not plain
            raw = os.path.join(os.path.dirname(os.path.join(DEST, m.name)), m.linkname).split('/')
            pref = ''
            for part in raw[1:-1]:
                pref = os.path.normpath(pref + '/' + part)
                if pref in links:
                    return False
        if m.islnk() and (os.path.isabs(m.linkname) or not clean(os.path.join(DEST, m.linkname))):
            return False
    return True


def archives(c):
    """one archive per path: every sequence of <= MAXLEN member specifications, plus the chain archives"""
    kind = c.choice('archive', 2)
    if kind == 1:
        return [Member(*spec) for spec in CHAINS[c.choice('chain', len(CHAINS))]]
    n = 1 + c.choice('members', MAXLEN)
    return [Member(*SPECS[c.choice('member%d' % i, len(SPECS))]) for i in range(n)]


class ExtractArchive(Target):
    prop = 'C18'
    name = 'StageReference[extract]'
    file = D
    qualname = 'StageReference'
    max_paths = 400000
    trusted = ["file-system model (contracts/C18.py VFS): POSIX symbolic-link resolution; os.path.realpath resolves through the "
               "links that exist; tarfile.extractall(dest) creates the members in order through whatever links exist at that "
               "moment, a symlink member points to join(dirname(member), linkname), a hardlink member to join(dest, linkname) "
               "-- compared with the real tarfile on disk by the bounded native check",
               "os.path.join/dirname/commonprefix/normpath (stdlib, executed natively on concrete paths)"]
    assumptions = ["archives: every sequence of <= %d members over %d member specifications (BOUNDED hostile vocabulary: parent "
                   "segments, absolute names, escaping symlink/hardlink targets, links to links, members placed through links "
                   "of the archive itself), plus %d three-member link-chain archives; working directory empty, holding a "
                   "staged link that leaves it, or holding a link to itself" % (MAXLEN, len(SPECS), len(CHAINS))]

    def setup(self, c):
        pre_name = c.one_of('working-directory', sorted(PRESTATES))
        members = archives(c)
        ref = Obj('dataref', method='extract', stringRepresentation='data/archive.tgz:extract',
                  resolve=Extern('DataReference.resolve', lambda c, g: '/work/inst/data/archive.tgz'))
        loc = Obj('workdir', path=DEST)
        return State(args=[ref, loc, 'graph'], members=members, pre=pre_name)

    def _vfs(self, c, st):
        v = c.ghost.get('vfs')
        if v is None:
            v = c.ghost['vfs'] = VFS(PRESTATES[st.pre])
        return v

    def externs(self, c, st):
        vfs = self._vfs(c, st)

        def tar_open(c, archive):
            def extractall(c, dest, **kw):
                c.ghost['extracted'] = True
                vfs.extractall(dest, st.members)
            t = Obj('tar', getmembers=Extern('TarFile.getmembers', lambda c: list(st.members)),
                    extractall=Extern('TarFile.extractall', extractall), close=Extern('TarFile.close', lambda c: None))
            t.__enter__ = Extern('tar.__enter__', lambda c: t)
            t.__exit__ = Extern('tar.__exit__', lambda c, *a: None)
            return t
        return {'tarfile.open': Extern('tarfile.open', tar_open),
                'os.path.exists': Extern('os.path.exists', lambda c, p: True),
                'os.path.realpath': Extern('os.path.realpath', lambda c, p: vfs.realpath(p if os.path.isabs(p) else os.path.join('/cwd', p)))}

    def ensures(self, c, st, out):
        vfs = self._vfs(c, st)
        escapes = [p for p in vfs.created if not inside(DEST, p)] + \
                  [loc for (loc, kind, tgt) in vfs.linked if not inside(DEST, tgt)]
        cl = [('nothing-is-created-outside-the-working-directory', not escapes)]
        if out.kind == 'raise':
            cl.append(('rejected-with-the-staging-error', out.raised(errors.DataReferenceCouldNotStageError)))
            cl.append(('plainly-benign-archives-are-not-rejected', not plainly_benign(PRESTATES[st.pre], st.members)))
        return cl


class StageCopyLink(Target):
    """copy / copyout / link of one reference into a working directory that may already hold what an EARLIER reference of the
    same component staged under the same name: a symbolic link to another component's file (`:link`) or a plain copy.  The
    file-system model follows links like the operating system: writing a file through an existing link modifies the link's
    target, removing a link removes the link."""
    prop = 'C18'
    name = 'StageReference[copy/link]'
    file = D
    qualname = 'StageReference'
    trusted = ["shutil.copy(src, dir) writes join(dir, basename(src)) THROUGH a symbolic link that is already there; "
               "shutil.copytree(src, dst) creates dst (fails if it exists); os.symlink(src, dst) creates dst (fails if it exists); "
               "os.remove / os.unlink remove the link itself; os.path.islink / lexists look at the entry itself"]
    assumptions = ["working directory: empty, or holding an entry with the reference's base name staged by an earlier reference "
                   "(a link to another component's file, a link to another component's directory, or a plain file)"]
    OTHER = '/work/inst/stages/stage0/other/out.txt'

    def setup(self, c):
        method = c.one_of('method', ['copy', 'copyout', 'link'])
        src = c.one_of('reference', ['/work/inst/stages/stage0/prod/out.txt', '/work/inst/data/dir', '/work/inst/data/dir/'])
        isdir = c.one_of('isdir', [False, True])
        earlier = c.one_of('staged_earlier_under_the_same_name', ['nothing', 'link-to-a-file-of-another-component', 'plain-file'])
        g = c.ghost
        g['created'] = []
        g['modified'] = []
        base = os.path.split(src)[1]
        g['entries'] = {}
        if earlier != 'nothing' and base:
            g['entries'][os.path.join(DEST, base)] = ('sym', self.OTHER) if earlier.startswith('link') else ('file', None)
        ref = Obj('dataref', method=method, stringRepresentation='x:%s' % method,
                  resolve=Extern('DataReference.resolve', lambda c, g: src))
        return State(args=[ref, Obj('workdir', path=DEST), 'graph'], src=src, isdir=isdir, earlier=earlier)

    def externs(self, c, st):
        g = c.ghost
        ent = g['entries']

        def write_file(c, s, d):
            dst = os.path.join(d, os.path.basename(s)) if (d == DEST or d.rstrip('/') == DEST) else d
            e = ent.get(dst)
            if e and e[0] == 'sym':
                g['modified'].append(e[1])             # written through the link: the link's target changes
            else:
                ent[dst] = ('file', None)
                g['created'].append(dst)
            return dst

        def copytree(c, s, d, **k):
            if d in ent:
                c.raise_(FileExistsError, 17, 'File exists: %s' % d)
            ent[d] = ('dir', None)
            g['created'].append(d)

        def symlink(c, s, d, *a, **k):
            if d in ent:
                c.raise_(FileExistsError, 17, 'File exists: %s' % d)
            ent[d] = ('sym', s)
            g['created'].append(d)

        def remove(c, p):
            if p not in ent:
                c.raise_(FileNotFoundError, 2, 'No such file: %s' % p)
            del ent[p]
        return {'os.path.exists': Extern('os.path.exists', lambda c, p: True),
                'os.path.isdir': Extern('os.path.isdir', lambda c, p: st.isdir if p == st.src else (p in ent and ent[p][0] == 'dir')),
                'os.path.islink': Extern('os.path.islink', lambda c, p: p in ent and ent[p][0] == 'sym'),
                'os.path.lexists': Extern('os.path.lexists', lambda c, p: p in ent),
                'os.remove': Extern('os.remove', remove), 'os.unlink': Extern('os.unlink', remove),
                'shutil.copytree': Extern('shutil.copytree', copytree),
                'shutil.copy': Extern('shutil.copy', write_file), 'shutil.copy2': Extern('shutil.copy2', write_file),
                'shutil.copyfile': Extern('shutil.copyfile', write_file),
                'os.symlink': Extern('os.symlink', symlink)}

    def ensures(self, c, st, out):
        g = c.ghost
        cl = [('nothing-is-created-outside-the-working-directory', all(inside(DEST, p) for p in g['created'])),
              ('nothing-outside-the-working-directory-is-modified', all(inside(DEST, p) for p in g['modified']))]
        if out.kind == 'raise':
            cl.append(('rejected-with-the-staging-error', out.raised(errors.DataReferenceCouldNotStageError)))
            cl.append(('a-reference-into-an-empty-working-directory-is-staged', st.earlier != 'nothing'))
        else:
            cl.append(('something-is-staged', len(g['created']) + len(g['modified']) == 1))
        return cl


KEYS = ['bin', 'bin/tool', 'bin/../beside', 'conf', 'data/extra', 'nested/dir', '../outside', 'bin/../../escape', '/abs/path', 'ok/../fine', '..',
        # siblings whose name STARTS with the instance directory's name (character-wise prefix tests accept them)
        '../inst-old/bin', 'bin/../../inst.bak', '/work/inst-shared/bin']


def _reraise(c, exc):
    """future.utils.raise_with_traceback(exc): raises exc"""
    from pyvc.core import PyRaise
    if isinstance(exc, BaseException):
        raise exc
    raise PyRaise(exc)


class ManifestFS:
    """what the deployment creates: directories, files and symbolic links under (or, through a link, outside) the instance
    directory.  Paths are resolved through the links created so far, like the operating system does."""

    def __init__(self):
        self.links = {}           # path of a link -> what it points to
        self.exists = set()       # every path that exists (created entries and their parents)
        self.created = []         # resolved location of everything that was created

    def realpath(self, p):
        return self.oswalk(p)

    def _realpath_lexical(self, p):
        p = os.path.normpath(p)
        for _ in range(8):
            parts = p.split('/')
            for i in range(2, len(parts) + 1):
                pref = '/'.join(parts[:i])
                if pref in self.links:
                    p = os.path.normpath(os.path.join(self.links[pref], *parts[i:]))
                    break
            else:
                return p
        return p

    def oswalk(self, path):
        """where the operating system ends up for `path`: component by component, following links as they are met and
        applying `..` to the RESOLVED location (unlike normpath, which cancels `link/..` lexically)"""
        cur = '/'
        for part in [x for x in path.split('/') if x not in ('', '.')]:
            if part == '..':
                cur = os.path.dirname(cur)
                continue
            cur = os.path.join(cur, part)
            for _ in range(8):
                if cur in self.links:
                    cur = self.oswalk(self.links[cur])
                else:
                    break
        return cur

    def _parent_resolved(self, dst):
        dst = dst.rstrip('/')
        parent, base = os.path.split(dst)
        if base == '..':
            return self.oswalk(dst)
        return os.path.join(self.oswalk(parent), base)

    def _add(self, loc):
        self.created.append(loc)
        q = loc
        while q not in ('/', ''):
            self.exists.add(q)
            q = os.path.dirname(q)

    def make(self, c, dst, link_to=None, exist_ok=False):
        loc = self._parent_resolved(dst)
        if loc in self.exists and not exist_ok:
            c.raise_(FileExistsError, 17, 'File exists: %s' % dst)
        if link_to is not None:
            self.links[loc] = link_to
        self._add(loc)


class DeployManifest(Target):
    prop = 'C18'
    name = 'ExperimentPackage.expandPackageToDirectory[manifest]'
    file = ST
    qualname = 'ExperimentPackage.expandPackageToDirectory'
    trusted = ["shutil.copytree / os.symlink / os.makedirs / shutil.copyfile create their destination argument, resolved through "
               "the links that exist at that moment (ManifestFS); they fail with FileExistsError on an existing destination"]
    assumptions = ["manifests of <= 2 entries (both orders) over the key pool %r, methods copy/link; sources live outside the "
                   "instance directory (a link entry therefore points outside: entries nested under it leave the instance)" % (KEYS,)]

    def setup(self, c):
        n = 1 + c.choice('entries', 2)
        manifest = {}
        for i in range(n):
            k = KEYS[c.choice('key%d' % i, len(KEYS))]
            # sources: relative to the package, or an absolute folder BESIDE the instance whose name starts like it
            src = c.one_of('source%d' % i, ['src%d' % i, '/work/inst-shared/src%d' % i])
            manifest[k] = '%s:%s' % (src, c.one_of('method%d' % i, ['copy', 'link']))
        c.ghost['fs'] = ManifestFS()
        this = Obj('package', location='/pkgs/wf/flowir.yaml', manifestData=manifest,
                   configuration=Obj('conf', isExperimentPackageDirectory=False))
        return State(args=[this, '/work/inst'], kwargs={'file_format': None}, manifest=dict(manifest))

    def externs(self, c, st):
        fs = c.ghost['fs']
        return {'os.path.exists': Extern('os.path.exists', lambda c, p: fs._parent_resolved(p) in fs.exists),
                'os.path.realpath': Extern('os.path.realpath', lambda c, p: fs.realpath(p)),
                'os.makedirs': Extern('os.makedirs', lambda c, p, *a, **k: fs.make(c, p, exist_ok=bool(k.get('exist_ok')))),
                'shutil.copytree': Extern('shutil.copytree', lambda c, src, dst, *a, **k: fs.make(c, dst)),
                'os.symlink': Extern('os.symlink', lambda c, src, dst, *a, **k: fs.make(c, dst, link_to=src)),
                'shutil.copyfile': Extern('shutil.copyfile', lambda c, src, dst, *a, **k: fs.make(c, dst, exist_ok=True)),
                'raise_with_traceback': Extern('raise_with_traceback', _reraise),
                'pprint.pformat': Extern('pformat', lambda c, v: 'x')}

    def ensures(self, c, st, out):
        fs = c.ghost['fs']
        keys = list(st.manifest)
        lexical = any(not inside('/work/inst', os.path.join('/work/inst', k)) or os.path.isabs(k) for k in keys)
        # an entry nested under a LINK entry that the same manifest creates before it is written where the link points
        through_link = False
        for i, k in enumerate(keys):
            for j in range(i):
                kj = os.path.normpath(keys[j])
                if st.manifest[keys[j]].endswith(':link') and os.path.normpath(k).startswith(kj + os.sep):
                    through_link = True
        # `conf` linked to a folder outside: the workflow definition would be written THERE (flowir_package.yaml)
        conf_linked = any(os.path.normpath(k) == 'conf' and st.manifest[k].endswith(':link') for k in keys)
        hostile = lexical or through_link or conf_linked
        # two entries that name the same place (or a place inside an entry that was COPIED before) collide: an OSError, reported
        # as a packaging error, is the documented outcome
        norm = [os.path.normpath(k) for k in keys]
        collide = any(a == b or b.startswith(a + os.sep) or a.startswith(b + os.sep) for i, a in enumerate(norm) for b in norm[i + 1:]) \
            or 'conf' in [n_.split(os.sep)[0] for n_ in norm if 'conf' not in st.manifest]
        cl = [('nothing-is-created-outside-the-instance-directory', all(inside('/work/inst', p) for p in fs.created))]
        if out.kind == 'raise':
            cl.append(('rejected-with-a-packaging-error', out.raised(errors.PackageCreateError)))
            cl.append(('benign-manifests-are-not-rejected', hostile or collide))
        else:
            cl.append(('hostile-manifests-are-rejected', not hostile))
        return cl


class ManifestValidate(Target):
    prop = 'C18'
    name = 'Manifest.validate'
    file = F
    qualname = 'Manifest.validate'

    def setup(self, c):
        k = KEYS[c.choice('key', len(KEYS))]
        this = Obj('manifest', _manifest={k: 'src:copy'})
        return State(args=[this], key=k)

    def ensures(self, c, st, out):
        hostile = os.path.isabs(st.key) or not inside('/root-dir', os.path.join('/root-dir', st.key))
        if out.kind == 'raise':
            return [('escaping-keys-are-rejected-by-validation', hostile and out.raised(errors.FlowIRManifestException)
                     if hasattr(errors, 'FlowIRManifestException') else hostile)]
        return [('escaping-keys-are-rejected-by-validation', not hostile)]


class JobStageIn(Target):
    """Job.stageIn hands every reference it stages to StageReference together with THE JOB'S OWN working directory (the
    location StageReference is proved to stay inside, above): no other directory is ever passed, references that do not
    resolve to a path are not staged, and a simulator job stages nothing."""
    prop = 'C18'
    name = 'Job.stageIn'
    file = D
    qualname = 'Job.stageIn'
    compare_return = False
    trusted = ["WorkingDirectory.updateInputs only records what is there"]
    assumptions = ["<= 2 references over the methods copy / link / ref / copyout / extract / output, from a direct source or a "
                   "producer (with or without an lsf-dm-out post-executor); the migrated-job branch (the working directory is "
                   "REPLACED by a link beside it) is excluded"]

    def setup(self, c):
        import experiment.model.graph as graph_mod
        g = c.ghost
        g['staged'] = []
        g['order'] = []
        jtype = c.one_of('backend', ['local', 'simulator'])
        n = 1 + c.choice('references', 2)
        refs, inputs, comprefs, producers = [], [], [], {}
        for i in range(n):
            method = c.one_of('ref%d.method' % i, ['copy', 'link', 'ref', 'copyout', 'extract', 'output'])
            from_component = c.one_of('ref%d.from_component' % i, [False, True])
            r = Obj('dataref%d' % i, method=method, stringRepresentation='r%d:%s' % (i, method),
                    producerIdentifier=Obj('pid', identifier='stage0.p%d' % i))
            refs.append(r)
            if from_component:
                comprefs.append(r)
                hybrid = c.one_of('ref%d.producer_stages_output_back' % i, [False, True])
                producers[r] = Obj('pspec', executors={'post': ([{'name': 'lsf-dm-out'}] if hybrid else [])})
            else:
                inputs.append(r)
        wd = Obj('workdir', path=DEST, updateInputs=Extern('updateInputs', lambda c: g['order'].append('updateInputs')),
                 experimentDirectory=Obj('instance-directory', path='/work/inst'), stageIndex=1)
        spec = Obj('cspec', dataReferences=refs, inputDataReferences=inputs, componentDataReferences=comprefs,
                   producers=producers)
        this = Obj('job', cid=Obj('cid', identifier='stage1.me'), type=jtype, isMigrated=False, workingDirectory=wd,
                   componentSpecification=spec, workflowGraph='graph', isStaged=False)
        return State(args=[this], this=this, wd=wd, refs=refs, jtype=jtype)

    def externs(self, c, st):
        g = c.ghost

        def stage(c, ref, location, graph):
            g['staged'].append((ref, location))
            g['order'].append(ref.method)
        return {'StageReference': Extern('StageReference', stage), 'time.sleep': Extern('time.sleep', lambda c, t: None),
                'logging.getLogger': Extern('getLogger', lambda c, n: NULLLOG)}

    def ensures(self, c, st, out):
        if out.kind == 'raise':
            return [('no-exception', False)]
        g = c.ghost
        staged = g['staged']
        cl = [('every-reference-is-staged-into-the-jobs-own-working-directory', all(loc is st.wd for (_, loc) in staged)),
              ('references-without-a-path-are-not-staged', all(r.method != 'output' for (r, _) in staged)),
              ('a-simulator-job-stages-nothing', not staged if st.jtype == 'simulator' else True),
              ('job-is-marked-staged', st.this.isStaged is True)]
        if 'updateInputs' in g['order']:
            i = g['order'].index('updateInputs')
            cl.append(('copyout-references-are-staged-after-the-inputs-were-recorded',
                       all(m != 'copyout' for m in g['order'][:i]) and all(m == 'copyout' for m in g['order'][i + 1:])))
        return cl

    def cross_compare(self, *a):
        return []


class HostileArchivesNative:
    """BOUNDED stand-in with the REAL tarfile on a scratch directory (outside /repo and /verif): archives over the same
    vocabulary are built on disk (absolute names are redirected into the scratch directory), the working directory is
    prepared like the model's, StageReference is run natively; everything outside the working directory must stay
    unchanged and every link inside must resolve inside.  For accepted archives the resulting tree is also compared with
    what the VFS model predicts (a mismatch is a defect of the trusted model: checker error, not a violation)."""
    name = 'hostile-archives[bounded,native]'

    def cases(self, tier):
        out = [[sp] for sp in SPECS] + [[a, b] for a in SPECS for b in SPECS] + [list(ch) for ch in CHAINS]
        return out

    def run(self, tier='quick', seed=0):
        import io, shutil, tempfile
        import experiment.model.data as data_mod
        root = tempfile.mkdtemp(prefix='pyvc-c18-')
        bad, mismatches, cases, accepted = [], [], 0, 0
        try:
            for pre_name in sorted(PRESTATES):
                for specs in self.cases(tier):
                    cases += 1
                    case = os.path.join(root, 'case%d' % cases)
                    dest = os.path.join(case, 'stages', 'stage0', 'comp')
                    os.makedirs(dest)
                    os.makedirs(os.path.join(case, 'stages', 'stage0', 'comp2'))
                    os.makedirs(os.path.join(case, 'data', 'shared'))
                    os.makedirs(os.path.join(case, 'abs'))
                    fix = lambda p: p.replace('/etc/passwd', os.path.join(case, 'abs', 'passwd'))
                    pre = {}
                    for path, (kind, tgt) in PRESTATES[pre_name].items():
                        real = path.replace(DEST, dest)
                        tgt = tgt.replace('/work/inst', case)
                        os.symlink(tgt, real)
                        pre[real] = ('sym', tgt)
                    members = [Member(fix(n), k, fix(l)) for (n, k, l) in specs]
                    arc = os.path.join(case, 'a.tar')
                    with tarfile.open(arc, 'w') as t:
                        for m in members:
                            ti = tarfile.TarInfo(m.name)
                            if m.issym() or m.islnk():
                                ti.type = tarfile.SYMTYPE if m.issym() else tarfile.LNKTYPE
                                ti.linkname = m.linkname
                                t.addfile(ti)
                            elif m.isdir():
                                ti.type = tarfile.DIRTYPE
                                ti.mode = 0o755
                                t.addfile(ti)
                            else:
                                ti.size = 3
                                t.addfile(ti, io.BytesIO(b'abc'))
                    before = self.snapshot(case, dest)
                    ref = Obj('dataref', method='extract', stringRepresentation='a.tar:extract', resolve=lambda g, a=arc: a)
                    try:
                        data_mod.StageReference(ref, Obj('wd', path=dest), None)
                        verdict = 'extracted'
                    except errors.DataReferenceCouldNotStageError:
                        verdict = 'rejected'
                    except Exception as err:
                        verdict = 'other:%s' % type(err).__name__
                    after = self.snapshot(case, dest)
                    links_ok = all(inside(dest, os.path.realpath(os.path.join(r, f))) or not os.path.islink(os.path.join(r, f))
                                   or os.path.join(r, f) in pre
                                   for r, ds, fs in os.walk(dest) for f in fs + ds)
                    if before != after or not links_ok:
                        bad.append({"what": "working directory %s, members %r: %s; outside changed: %s; links inside: %s" % (
                            pre_name, specs, verdict, before != after, links_ok), "replay": self._replay(pre_name, specs, verdict)})
                    elif verdict == 'extracted':
                        accepted += 1
                        vfs = VFS(pre)
                        try:
                            vfs.extractall(dest, members)
                            predicted = sorted(set(p for p in vfs.created if vfs.e.get(p) != 'dir'))
                        except OSError as err:
                            predicted = 'model raises %s' % err
                        real = sorted(os.path.join(r, f) for r, ds, fs in os.walk(dest) for f in fs + [d for d in ds if os.path.islink(os.path.join(r, d))]
                                      if os.path.join(r, f) not in pre)
                        if predicted != real:
                            mismatches.append("working directory %s, members %r: model %r, tarfile %r" % (pre_name, specs, predicted, real))
                    shutil.rmtree(case, ignore_errors=True)
        finally:
            shutil.rmtree(root, ignore_errors=True)
        if mismatches:
            raise RuntimeError("the VFS model of tarfile disagrees with the real tarfile on %d archives, e.g. %s" % (
                len(mismatches), mismatches[:2]))
        return {"name": self.name, "bounded": True,
                "bound": "%d archives (every 1- and 2-member sequence over %d specifications + %d chains) x %d working-directory states" % (
                    cases // len(PRESTATES), len(SPECS), len(CHAINS), len(PRESTATES)),
                "cases": cases, "accepted_and_compared_with_the_model": accepted, "violations": bad[:3],
                "summary": "%d archives, %d escapes, %d accepted archives agree with the file-system model" % (cases, len(bad), accepted)}

    @staticmethod
    def snapshot(case, dest):
        out = []
        for r, ds, fs in os.walk(case):
            if inside(dest, r) and os.path.normpath(r) != os.path.normpath(dest):
                continue
            for f in sorted(fs + ds):
                p = os.path.join(r, f)
                if inside(dest, p) or p.endswith('a.tar'):
                    continue
                out.append((p, os.path.islink(p), os.path.getsize(p) if os.path.isfile(p) else -1))
        return sorted(out)

    def _replay(self, pre_name, specs, verdict):
        import json
        base = os.environ.get('PYVC_OUT') or os.path.dirname(os.path.dirname(os.path.abspath(__file__)))
        p = os.path.join(base, 'replays', 'C18')
        os.makedirs(p, exist_ok=True)
        f = os.path.join(p, 'hostile_archive.json')
        json.dump({"property": "C18", "check": self.name, "working_directory": pre_name, "members": specs, "verdict": verdict,
                   "how": "build a tar with these members (name, kind, link target) in a scratch working directory prepared as "
                          "named, call experiment.model.data.StageReference on an :extract reference to it"}, open(f, 'w'), indent=1)
        return f


TARGETS = [ExtractArchive(), StageCopyLink(), DeployManifest(), ManifestValidate(), JobStageIn()]
BOUNDED = [HostileArchivesNative()]
LEMMAS = []
