"""C20 -- reported progress is a proper weighted fraction.

Statement slices under contract (extracted from /repo on every run, loops unrolled for each number of
stages n <= NMAX -- BOUNDED in n, complete in the weights, which are symbolic reals / missing / non-numeric):
  flowir.py  FlowIR.inject_default_values   stage-weight normalisation block
  output.py  StatusMonitor.__init__         weight re-check block
  output.py  StatusMonitor.run.CheckStatus  total-progress accumulation
  control.py Controller.get_stage_status
Unbounded in n: lemma over the arithmetic expressions extracted from the fallback branch.
Floats are treated as reals (a concrete double stands for the decimal it prints as); the statement's
"sum to one" is read with the tolerance the code itself uses for accepting given weights."""
import ast
import threading
import z3
from pyvc.spec import Target, Lemma, State, NULLLOG
from pyvc.values import Obj, Extern, Lazy
from pyvc.core import And, Or, Not, Implies, Iff, If, Eq, In, Sym, binop, compare, to_z3, wrap, OutsideSubset
from pyvc import extract

import experiment.model.codes as codes
import experiment.model.errors
import experiment.model.frontends.flowir as flowir_mod

SR = flowir_mod.FlowIR.FieldStatusReport
NMAX_QUICK, NMAX_THOROUGH = 4, 6
TOL = 1e-9   # tolerance of "sum to one" for doubles (see DESIGN C20)

import os
NMAX = NMAX_THOROUGH if os.environ.get('VERIF_TIER') == 'thorough' else NMAX_QUICK


def total(ws):
    acc = 0
    for w in ws:
        acc = binop('+', acc, w)
    return acc


def close_to_one(x):
    return And(compare('<=', binop('-', x, 1), TOL), compare('>=', binop('-', x, 1), -TOL))


def weight_entry(c, i):
    """one stage's status-report entry: absent, without weight, numeric weight, or a non-numeric string"""
    kind = c.choice('entry%d' % i, 4)
    if kind == 0:
        return None, 0
    if kind == 1:
        return {}, 0
    if kind == 2:
        w = c.real('w%d' % i)
        return {'stage-weight': w}, w
    return {'stage-weight': 'abc'}, 0


class InjectWeights(Target):
    prop = 'C20'
    name = 'FlowIR.inject_default_values[weights]'
    file = 'python/experiment/model/frontends/flowir.py'
    qualname = 'FlowIR.inject_default_values'
    slice = ('num_stages = max_stage + 1', 'return flowir', False)
    max_paths = 400000
    float_sensitive = True
    assumptions = ["number of stages n <= NMAX (loops unrolled per n; BOUNDED in n, all weights symbolic)",
                   "stage weights are reals, missing, or strings float() rejects with ValueError",
                   "floats treated as reals"]

    def setup(self, c):
        n = c.choice('n', NMAX + 1)
        report, given = {}, []
        for i in range(n):
            e, w = weight_entry(c, i)
            if e is not None:
                report[i] = e
            given.append(w)
        doc = {SR: report}
        return State(kwargs={'self': flowir_mod.FlowIR, 'flowir': doc, 'max_stage': n - 1}, n=n, given=given, doc=doc)

    def final_weights(self, st):
        rep = st.doc[SR]
        return [rep[i]['stage-weight'] for i in range(st.n)]

    def ensures(self, c, st, out):
        if out.kind == 'raise':
            return [('no-exception', False)]
        n = st.n
        if n == 0:
            return [('no-stages-no-weights', len(st.doc[SR]) == 0)]
        rep = st.doc[SR]
        cl = [('every-stage-has-a-weight', all(i in rep and 'stage-weight' in rep[i] for i in range(n)))]
        if not cl[0][1]:
            return cl
        final = self.final_weights(st)
        numeric = [not isinstance(w, str) for w in final]
        if not all(numeric):
            # a non-numeric weight left in place is only acceptable if ... it never is: weights are numbers
            return cl + [('weights-are-numbers', False)]
        s = total(final)
        given_sum = total(st.given)
        given_ok = And(close_to_one(given_sum), *[compare('>=', w, 0) for w in st.given])
        all_numeric_given = all(isinstance(rep[i]['stage-weight'], (int, float, Sym)) for i in range(n))
        cl += [
            ('non-negative', And(*[compare('>=', w, 0) for w in final])),
            ('sum-to-one', close_to_one(s)),
            # "equal to the weights given by the package whenever those already sum to one"
            ('unchanged-when-given-sum-to-one', Implies(given_ok, And(*[Eq(a, b) for a, b in zip(final, st.given)]))),
        ]
        return cl

    def cross_compare(self, sctx, sst, nctx, nst, model, concretize):
        if sst.n == 0:
            return []
        try:
            sw = concretize(self.final_weights(sst), model)
            nw = self.final_weights(nst)
        except Exception as err:
            return ["final weights not comparable: %s" % err]
        bad = [(a, b) for a, b in zip(sw, nw) if isinstance(a, str) != isinstance(b, str) or
               (not isinstance(a, str) and abs(float(a) - float(b)) > 1e-6)]
        return ["final weights: symbolic %r vs native %r" % (sw, nw)] if bad else []


class MonitorWeights(Target):
    prop = 'C20'
    name = 'StatusMonitor.__init__[weights]'
    file = 'python/experiment/runtime/output.py'
    qualname = 'StatusMonitor.__init__'
    slice = ('stageNames = [stage.name for stage in self.experiment._stages]', 'self.stageWeights = weights', True)
    pure = ('FlowIR.stage_identifier_to_stage_index',)      # on concrete keys (real code, executed natively)
    max_paths = 400000
    float_sensitive = True
    assumptions = ["number of stages n <= NMAX (BOUNDED in n)", "status_report has one entry per stage (checked just above the slice)",
                   "insertion order of the report: ascending, descending or rotated (stage 0 last)"]

    def setup(self, c):
        n = 1 + c.choice('n', NMAX)
        entries, given = {}, []
        for i in range(n):
            kind = c.choice('entry%d' % i, 3)
            if kind == 0:
                w = c.real('w%d' % i)
                entries[i] = {'stage-weight': w}
                given.append(w)
            elif kind == 1:
                entries[i] = {}
                given.append(None)
            else:
                entries[i] = {'stage-weight': 'abc'}
                given.append(None)
        # The report is a dictionary keyed by stage index whose INSERTION order is an input: a package may list its stages
        # in any order, and inject_default_values appends the stages the package does not mention after the given ones.
        orders = [list(range(n))]
        if n > 1:
            orders += [list(reversed(range(n))), list(range(1, n)) + [0]]
        order = orders[c.choice('insertion_order', len(orders))]
        report = {i: entries[i] for i in order}
        # a STALE entry: the report mentions a stage index past the last stage of the workflow (inject_default_values does
        # not touch it); _initJobs has created a status command slot for every entry of the report
        stale = c.one_of('entry_for_a_stage_that_does_not_exist', ['none', 'without-weight', 'zero-weight', 'with-weight'])
        if stale != 'none':
            report[n] = {} if stale == 'without-weight' else {'stage-weight': 0.0 if stale == 'zero-weight' else 0.25}
        this = Obj('statusmonitor', commands={('stage%d' % i): None for i in report}, log=NULLLOG,
                   experiment=Obj('experiment', _stages=[Obj('stage%d' % i, name='stage%d' % i, index=i) for i in range(n)]))
        return State(kwargs={'self': this, 'status_report': report}, n=n, given=given, this=this, order=order, stale=stale)

    def ensures(self, c, st, out):
        if st.stale != 'none':
            # a report that does not match the stages of the workflow is refused: its weights cannot be 'the weights of the stages'
            return [('a-report-with-an-entry-for-a-missing-stage-is-refused',
                     out.kind == 'raise' and out.raised(experiment.model.errors.ExperimentInvalidConfigurationError))]
        if out.kind == 'raise':
            return [('no-exception', False)]
        ws = st.this.stageWeights
        cl = [('one-weight-per-stage', len(ws) == st.n)]
        if len(ws) != st.n:
            return cl
        s = total(ws)
        cl += [('non-negative', And(*[compare('>=', w, 0) for w in ws])),
               ('sum-to-one', close_to_one(s))]
        if all(g is not None for g in st.given):
            given_ok = And(close_to_one(total(st.given)), *[compare('>=', w, 0) for w in st.given])
            cl.append(('unchanged-when-given-sum-to-one',
                       Implies(given_ok, And(*[Eq(a, b) for a, b in zip(ws, st.given)]))))
        return cl

    def cross_compare(self, sctx, sst, nctx, nst, model, concretize):
        if not sst.this.has_field('stageWeights') or not nst.this.has_field('stageWeights'):
            return []
        sw = concretize(list(sst.this.stageWeights), model)
        nw = list(nst.this.stageWeights)
        bad = len(sw) != len(nw) or any(abs(float(a) - float(b)) > 1e-6 for a, b in zip(sw, nw))
        return ["stageWeights: symbolic %r vs native %r" % (sw, nw)] if bad else []


class TotalProgress(Target):
    prop = 'C20'
    name = 'StatusMonitor.run.CheckStatus[total]'
    file = 'python/experiment/runtime/output.py'
    qualname = 'StatusMonitor.run.CheckStatus'
    slice = ('stage_status = 0.0', 'self.statusFile.setTotalProgress(stage_status)', True)
    max_paths = 400000
    float_sensitive = True
    assumptions = ["number of stages n <= NMAX (BOUNDED in n)",
                   "active stages and finished stages are disjoint (proved below on get_stages_in_transit / get_stages_finished)",
                   "per-stage progress values lie in [0,1] (Controller.get_stage_status, proved below; status programs trusted)"]

    def setup(self, c):
        n = 1 + c.choice('n', NMAX)
        weights = [c.real('w%d' % i) for i in range(n)]
        active, finished, prog = {}, [], []
        for i in range(n):
            k = c.choice('stage%d' % i, 3)     # 0 not started, 1 active, 2 finished
            if k == 1:
                p = c.real('p%d' % i)
                active[i] = p
            elif k == 2:
                finished.append(i)
        c.ghost['total'] = None

        def set_total(c, v):
            c.ghost['total'] = v
        this = Obj('statusmonitor', stageWeights=weights, statusFile=Obj('statusfile', setTotalProgress=Extern(
            'Status.setTotalProgress', set_total)))
        # the names the surrounding code defines before the slice (so that moving a read across the slice boundary is not
        # mistaken for a failure here; consistency of the two sets is the business of the [snapshot] target)
        controller = Obj('controller', comp_lock=threading.RLock(),
                         get_stages_finished=Extern('get_stages_finished', lambda c: list(finished)),
                         get_stages_in_transit=Extern('get_stages_in_transit', lambda c: [i for i in active]))
        return State(kwargs={'self': this, 'active_stages': active, 'stages_finished': finished, 'controller': controller,
                             'stage': Obj('stage', index=-1, name='current'), 'stages_in_transit': [i for i in active]},
                     n=n, weights=weights, active=active, finished=finished)

    def requires(self, c, st):
        ws = st.weights
        return And(close_to_one(total(ws)), *([compare('>=', w, 0) for w in ws] +
                   [And(compare('>=', p, 0), compare('<=', p, 1)) for p in st.active.values()]))

    def ensures(self, c, st, out):
        if out.kind == 'raise':
            return [('no-exception', False)]
        t = c.ghost['total']
        all_done = len(st.finished) == st.n
        return [('reported', t is not None),
                ('between-zero-and-one', And(compare('>=', t, 0), compare('<=', t, 1 + TOL))),
                ('one-when-all-stages-finished', Implies(all_done, close_to_one(t)))]


def UNLOCKED_WRITERS():
    """the calls comp_done.add(...) in control.py that are not inside a `with ….comp_lock:` block (current /repo source)"""
    from pyvc import frames
    return frames.calls_outside_lock('python/experiment/runtime/control.py', 'comp_done', 'add', 'comp_lock')


class TotalProgressSnapshot(Target):
    """The status monitor's view of the controller.  The sets 'stages in transit' and 'stages finished' are read from a
    controller that OTHER THREADS keep changing (finishedCheck moves a stage from in-transit to finished); the sum is a
    proper fraction only if both sets come from ONE consistent state.  Rely/guarantee harness: the controller's state may
    advance (a stage in transit becomes finished) at every call made while controller.comp_lock is NOT held; calls made
    inside one `with controller.comp_lock:` block see one state.  The slice runs from the snapshot to the reported total."""
    prop = 'C20'
    name = 'StatusMonitor.run.CheckStatus[snapshot]'
    file = 'python/experiment/runtime/output.py'
    qualname = 'StatusMonitor.run.CheckStatus'
    slice = ('active_stages = {}', 'self.statusFile.setTotalProgress(stage_status)', True)
    float_sensitive = True
    max_paths = 200000
    trusted = ["a thread inside `with comp_lock:` is excluded by comp_lock holders only: whether every writer of comp_done takes "
               "the lock is CHECKED on the source (frames.calls_outside_lock); if one does not, the environment may act under the lock too",
               "compute_stage_status returns a value in [0,1] (get_stage_status, proved below; status programs trusted)"]
    assumptions = ["1..3 (quick) / 4 (thorough) stages, any of them the current one; every initial placement of the others (not started / in transit / "
                   "finished); the environment may finish any stage in transit at any call it is not excluded from (BOUNDED in n)"]
    NMAX_SNAPSHOT = 4 if os.environ.get('VERIF_TIER') == 'thorough' else 3

    def setup(self, c):
        g = c.ghost
        n = 1 + c.choice('n', self.NMAX_SNAPSHOT)
        self_cur = c.choice('current_stage', n)
        weights = [c.real('w%d' % i) for i in range(n)]
        world = {}
        for i in range(n):
            if i != self_cur:
                world[i] = c.one_of('stage%d.initially' % i, ['transit', 'finished', 'not-started'])
        g['held'] = 0
        g['total'] = None
        g['steps'] = 0
        progress = {}

        def env_step(c, where):
            # another thread (finishedCheck) may complete a stage whenever it is not excluded: holding comp_lock excludes it
            # only if every writer of comp_done takes that lock -- read off the source (frame obligation), not assumed
            if g['held'] and not UNLOCKED_WRITERS():
                return
            for i in sorted(world):
                if world[i] == 'transit' and c.one_of('%s: stage %d finishes meanwhile' % (where, i), [False, True]):
                    world[i] = 'finished'
                    g['steps'] += 1

        def in_transit(c):
            env_step(c, 'get_stages_in_transit')
            return [i for i in sorted(world) if world[i] == 'transit']

        def finished(c):
            env_step(c, 'get_stages_finished')
            return [i for i in sorted(world) if world[i] == 'finished']

        def compute(c, stage, controller):
            env_step(c, 'compute_stage_status(%d)' % stage.index)
            if stage.index not in progress:
                p = c.real('p%d' % stage.index)
                c.require(And(compare('>=', p, 0), compare('<=', p, 1)))
                progress[stage.index] = p
            return progress[stage.index]

        def acquire(c):
            g['held'] += 1
            return None

        def release(c, *a):
            g['held'] -= 1
            return False
        lock = Obj('comp_lock', __enter__=Extern('comp_lock.acquire', acquire), __exit__=Extern('comp_lock.release', release))
        controller = Obj('controller', comp_lock=lock, get_stages_in_transit=Extern('get_stages_in_transit', in_transit),
                         get_stages_finished=Extern('get_stages_finished', finished))
        stages = [Obj('stage%d' % i, index=i, name='stage%d' % i) for i in range(n)]

        def set_total(c, v):
            g['total'] = v
        this = Obj('statusmonitor', stageWeights=weights, compute_stage_status=Extern('compute_stage_status', compute),
                   experiment=Obj('experiment', _stages=stages), log=NULLLOG,
                   statusFile=Obj('statusfile', setTotalProgress=Extern('Status.setTotalProgress', set_total),
                                  setExperimentState=Extern('Status.setExperimentState', lambda c, s: None)))
        return State(kwargs={'self': this, 'controller': controller, 'stage': stages[self_cur], 'stageState': 'running'},
                     weights=weights, world=world, progress=progress, initial=dict(world), cur=self_cur)

    def requires(self, c, st):
        return And(close_to_one(total(st.weights)), *[compare('>=', w, 0) for w in st.weights])

    def ensures(self, c, st, out):
        if out.kind == 'raise':
            return [('no-exception', False)]
        t = c.ghost['total']
        cl = [('reported', t is not None),
              ('between-zero-and-one-whatever-the-other-threads-do', And(compare('>=', t, 0), compare('<=', t, 1 + TOL))),
              ('lock-released', c.ghost['held'] == 0)]
        if all(v == 'finished' for v in st.initial.values()) and st.cur in st.progress:
            cl.append(('one-when-every-stage-has-completed', Implies(compare('==', st.progress[st.cur], 1), close_to_one(t))))
        return cl

    def cross_compare(self, *a):
        return []


class StageStatus(Target):
    prop = 'C20'
    name = 'Controller.get_stage_status'
    file = 'python/experiment/runtime/control.py'
    qualname = 'Controller.get_stage_status'
    assumptions = ["components per stage <= NMAX+1 (BOUNDED)"]

    def setup(self, c):
        m = c.choice('ncomps', NMAX + 2)
        comps = [Obj('comp%d' % i, state=c.enum('state%d' % i, list(codes.states))) for i in range(m)]
        known = c.choice('known_stage', 2)
        this = Obj('controller', _stageStates={0: 'x'} if known else {}, log=NULLLOG, comp_lock=threading.RLock(),
                   get_components_in_stage=Extern('Controller.get_components_in_stage', lambda c, i: list(comps)))
        return State(args=[this, 0], comps=comps, known=known)

    def ensures(self, c, st, out):
        if out.kind == 'raise':
            return [('no-exception', False)]
        r = out.value
        if not st.known or not st.comps:
            return [('no-value-without-components', r is None)]
        fin = [Eq(x.state, codes.FINISHED_STATE) for x in st.comps]
        return [('has-value', r is not None),
                ('between-zero-and-one', And(compare('>=', r, 0), compare('<=', r, 1))),
                ('one-iff-all-finished', Iff(compare('==', r, 1), And(*fin))),
                ('zero-iff-none-finished', Iff(compare('==', r, 0), Not(Or(*fin))))]


def _fallback_exprs():
    """the two arithmetic expressions of the fallback branch, located by shape in the real source:
    the assignment to `fallbackWeight`, and the stage-weight store in that branch that is not in a loop"""
    ex = extract.statement_slice(InjectWeights.file, InjectWeights.qualname, *InjectWeights.slice)
    fb = last = None
    in_loop = set()
    for n in ast.walk(ex.node):
        if isinstance(n, (ast.For, ast.While)):
            for m in ast.walk(n):
                in_loop.add(id(m))
    # the fallback variable is whatever NAME the loop of the fallback branch stores into every stage's 'stage-weight'
    fb_name = None
    for loop in ast.walk(ex.node):
        if isinstance(loop, ast.For) and len(loop.body) == 1 and isinstance(loop.body[0], ast.Assign):
            n = loop.body[0]
            if isinstance(n.targets[0], ast.Subscript) and 'stage-weight' in ast.unparse(n.targets[0]) and isinstance(n.value, ast.Name):
                fb_name = n.value.id
    for n in ast.walk(ex.node):
        if isinstance(n, ast.Assign) and isinstance(n.targets[0], ast.Name) and n.targets[0].id == fb_name:
            fb = n.value
    for n in ast.walk(ex.node):
        if isinstance(n, ast.Assign) and isinstance(n.targets[0], ast.Subscript) and id(n) not in in_loop \
                and 'stage-weight' in ast.unparse(n.targets[0]) and 'num_stages' in ast.unparse(n.value):
            last = n.value
    if fb is None or last is None:
        raise extract.AnchorLost("fallback weight expressions not found in inject_default_values")
    return ex, fb, last, fb_name


class FallbackArithmetic(Lemma):
    """UNBOUNDED in n: the fallback expressions of the real source, evaluated symbolically for a symbolic
    number of stages, give n-1 weights q/1000 and a last weight (1000-(n-1)q)/1000 with q = floor(1000/n):
    all non-negative, and n-1 copies of the first plus the last sum to exactly 1."""
    prop = 'C20'
    name = 'fallback-arithmetic'
    assumptions = ["floats treated as reals"]

    def obligations(self, c):
        from pyvc.interp import Interp, Env
        _, globs = extract.module_globals(InjectWeights.file)
        ex, fb_e, last_e, fb_name = _fallback_exprs()
        n = c.int('num_stages')
        c.assume(n >= 1)
        it = Interp(c, globs)
        env = Env(globs=globs)
        env.vars['num_stages'] = n
        fb = it.eval(fb_e, env)
        env.vars[fb_name] = fb
        last = it.eval(last_e, env)
        q = Sym(z3.ToReal(to_z3(n) * 0 + (1000 / to_z3(n))))     # floor(1000/n) for n >= 1 (z3 integer division)
        nm1 = binop('-', n, 1)
        return [
            ('fallback-non-negative', compare('>=', fb, 0)),
            ('last-non-negative', compare('>=', last, 0)),
            ('sum-is-one', Eq(binop('+', binop('*', nm1, fb), last), 1)),
            ('milli-weights-sum-to-1000', Eq(binop('+', binop('*', nm1, binop('*', fb, 1000)), binop('*', last, 1000)), 1000)),
        ]


    def replay(self, model):
        """run the REAL normalisation slice natively for the counter-model's number of stages (no weights given)"""
        n = int(model.get('num_stages', 0))
        if n < 1 or n > 5000:
            return 'no-replay', {"reason": "num_stages=%r" % n}
        import ast as _ast
        ex = extract.statement_slice(InjectWeights.file, InjectWeights.qualname, *InjectWeights.slice)
        _, globs = extract.module_globals(InjectWeights.file)
        code = compile(_ast.fix_missing_locations(_ast.Module(body=ex.node.body, type_ignores=[])), '<slice>', 'exec')
        doc = {SR: {}}
        exec(code, globs, {'self': flowir_mod.FlowIR, 'flowir': doc, 'max_stage': n - 1})
        ws = [doc[SR][i]['stage-weight'] for i in range(n)]
        milli = sum(int(round(w * 1000)) for w in ws)
        ok = all(w >= 0 for w in ws) and milli == 1000 and abs(sum(ws) - 1.0) <= 1e-9
        detail = {"num_stages": n, "weights_head": ws[:3], "weights_tail": ws[-2:], "sum": sum(ws), "milli_sum": milli}
        return ('contradicted' if ok else 'confirmed'), detail


class DoubleRoundTrip(Lemma):
    """Bit-precise side fact (IEEE double, exhaustive over k = 0..1000, evaluated natively):
    int((k/1000.0)*1000) == k, so milli-weights produced by the fallback are re-read exactly."""
    prop = 'C20'
    name = 'double-roundtrip'

    def obligations(self, c):
        ok = all(int((k / 1000.0) * 1000) == k for k in range(0, 1001))
        return [('int-of-k-over-1000-times-1000', ok)]


class StageSets(Target):
    """The total sums `progress*weight` over the stages in transit and `weight` over the finished stages: it stays a
    proper fraction only if no stage is in BOTH sets.  Controller.get_stages_in_transit and get_stages_finished (real
    source, run on the same controller state) never report a stage twice, whatever has been observed as done and whatever
    the components' states are -- including a component that reached a final state but whose finishedCheck is pending."""
    prop = 'C20'
    name = 'Controller.get_stages_in_transit/get_stages_finished'
    file = 'python/experiment/runtime/control.py'
    qualname = 'Controller.get_stages_in_transit'
    inline_class = {'this': ('python/experiment/runtime/control.py', 'Controller')}
    compare_return = False
    set_iter = 'sorted-repr'        # sorted(<set of stage indices>): the order of the set does not reach the result
    trusted = ["networkx nodes view (real library on a concrete graph)", "StageState.runningComponents lists the components "
               "whose state is not final"]
    assumptions = ["2 stages x 2 components; every combination of 'observed as done' and 'state is final' with done => final"]

    def setup(self, c):
        import networkx
        import threading
        import experiment.model.codes as codes
        g = networkx.DiGraph()
        done = set()
        stage_states = {}
        comps = {}
        for sidx in (0, 1):
            running = []
            for k in (0, 1):
                name = 'stage%d.c%d' % (sidx, k)
                g.add_node(name, stageIndex=sidx)
                status = c.one_of('%s' % name, ['running', 'final-not-yet-observed', 'done'])
                if status == 'done':
                    done.add(name)
                state = codes.RUNNING_STATE if status == 'running' else codes.FINISHED_STATE
                comp = Obj('ComponentState:' + name, stageIndex=sidx, state=state)
                comps[name] = comp
                if status == 'running':
                    running.append(comp)
            stage_states[sidx] = Obj('StageState%d' % sidx, runningComponents=list(running), index=sidx)
        this = Obj('controller', comp_lock=threading.RLock(), graph=g, comp_done=done, _stageStates=stage_states, log=NULLLOG,
                   get_compstate=Extern('get_compstate', lambda c, n: comps[n]))
        return State(args=[this], this=this)

    def ensures(self, c, st, out):
        if out.kind == 'raise':
            return [('no-exception', False)]
        transit = list(out.value)
        finished = list(st.this.get_stages_finished())           # the other REAL method, on the same state
        return [('no-stage-is-both-in-transit-and-finished', not (set(transit) & set(finished))),
                ('every-stage-is-in-transit-or-finished', set(transit) | set(finished) == {0, 1})]

    def cross_compare(self, *a):
        return []


TARGETS = [InjectWeights(), MonitorWeights(), TotalProgress(), TotalProgressSnapshot(), StageStatus(), StageSets()]
LEMMAS = [FallbackArithmetic(), DoubleRoundTrip()]
