"""C08 -- configuration queries always reflect the latest updates.

Coherence invariant  Coh:  a cached label (platform, stage, name) is only present while nothing in its read footprint
  RF = { component (stage,name), variables[default|platform].{global, stages[stage]}, blueprint[default|platform].* }
has been written since it was filled.  Every mutator of FlowIRConcrete (real source, with the helper methods it calls
interpreted from their real source as well) is executed symbolically on a document with 2 platforms x 2 stages x 3
components -- one of them carrying regular-expression metacharacters in its name -- and symbolic values; the written
regions are obtained by diffing the document (a live reference handed out counts as a write to what it reaches);
the postcondition demands that every label whose footprint was touched has been invalidated by the cache calls made.
FlowIRCache's own methods and the fill/lookup protocol of get_component_configuration are under contract as well."""
import copy
import re
import threading
import z3
from pyvc.spec import Target, Lemma, State, NULLLOG
from pyvc.values import Obj, Extern, Lazy, FlexDict, unflex, MapBox
from pyvc.core import And, Or, Not, Implies, Iff, If, Eq, In, Sym, OutsideSubset

import experiment.model.errors as errors
import experiment.model.frontends.flowir as flowir_mod

FlowIR = flowir_mod.FlowIR
F = 'python/experiment/model/frontends/flowir.py'
# 'implicit' is a platform that exists only because variables were set for it (FlowIR.discover_platforms lists it, the
# document's `platforms` field does not): configurations can be queried -- and cached -- for it all the same
DECLARED = [FlowIR.LabelDefault, 'plat']
PLATFORMS = DECLARED + ['implicit']
COMPS = [(0, 'comp'), (0, 'a+b'), (1, 'comp')]
STAGES = [0, 1]
HELPERS = ['get_component', '_get_component_variables_ref', 'invalidate_cache_for_component', 'set_component_variable',
           'delete_component_variable', 'set_platform_global_variable', 'get_platform_global_variables',
           'get_platform_stage_variables', 'get_default_global_variables', 'get_default_stage_variables']


def label(p, s, n):
    return 'component:%s:stage%s:%s' % (p, s, n)


ALL_LABELS = [(p, s, n) for p in PLATFORMS for (s, n) in COMPS]


def make_doc(c):
    def comp(s, n):
        return {'stage': s, 'name': n, 'variables': {'v': 'var.%s.%s' % (s, n)},
                'command': {'executable': 'exe.%s.%s' % (s, n), 'arguments': 'x'},
                'override': {'plat': {'command': {'arguments': 'y'}}}, 'references': []}
    comps = [comp(s, n) for (s, n) in COMPS]
    variables = {p: {FlowIR.LabelGlobal: {'g': 'glob.%s' % p},
                     FlowIR.LabelStages: {s: {'sv': 'stagevar.%s.%s' % (p, s)} for s in STAGES}} for p in PLATFORMS}
    doc = {FlowIR.FieldComponents: comps, FlowIR.FieldVariables: variables, FlowIR.FieldPlatforms: list(DECLARED)}
    return doc, {cid: cm for cid, cm in zip(COMPS, comps)}


def freeze(v):
    v = unflex(v)
    if isinstance(v, MapBox):
        return ('symbolic-map', id(v.m))
    if isinstance(v, dict):
        return ('dict', id(v), tuple(sorted(((repr(k), freeze(x)) for k, x in v.items()))))
    if isinstance(v, list):
        return ('list', id(v), tuple(freeze(x) for x in v))
    if isinstance(v, Sym):
        return ('sym', str(v.e))
    return ('val', repr(v))


def regions(doc, cdict):
    """name -> live object of every region a cached configuration depends on"""
    r = {}
    for cid in COMPS:
        r[('component', cid)] = cdict.get(cid)
    var = doc.get(FlowIR.FieldVariables, {})
    for p in PLATFORMS:
        pv = var.get(p, {}) if isinstance(var, dict) else {}
        r[('vars-global', p)] = pv.get(FlowIR.LabelGlobal) if isinstance(pv, dict) else None
        st = pv.get(FlowIR.LabelStages, {}) if isinstance(pv, dict) else {}
        for s in STAGES:
            r[('vars-stage', p, s)] = st.get(s) if isinstance(st, dict) else None
    return r


def footprint(p, s, n):
    fp = {('component', (s, n))}
    for q in {FlowIR.LabelDefault, p}:
        fp.add(('vars-global', q))
        fp.add(('vars-stage', q, s))
    return fp


def reachable_ids(v, acc=None):
    acc = set() if acc is None else acc
    v = unflex(v)
    if isinstance(v, (dict, list)):
        if id(v) in acc:
            return acc
        acc.add(id(v))
        for x in (v.values() if isinstance(v, dict) else v):
            reachable_ids(x, acc)
    return acc


def make_cache(c):
    """the REAL FlowIRCache code (its methods are interpreted from their source through inline_class), holding a
    cached configuration for every label of the universe"""
    return Obj('cache', _cache={label(*l): FlexDict({'cached': label(*l)}) for l in ALL_LABELS},
               _lock=threading.RLock(), _enabled=True)


def invalidated(cache, p, s, n):
    return label(p, s, n) not in cache._cache


class Mutator(Target):
    """one public mutator; subclasses give qualname, args(c) and the carve-out for the known regex finding"""
    prop = 'C08'
    file = F
    inline_methods = {'this': (F, 'FlowIRConcrete', HELPERS)}
    inline_class = {'this': (F, 'FlowIRConcrete'), 'cache': (F, 'FlowIRCache')}
    assumptions = ["universe: platforms %r, components %r (one with regex metacharacters), stages %r; values symbolic"
                   % (PLATFORMS, COMPS, STAGES), "FlowIR documents are tree-shaped (regions do not alias)"]
    trusted = ["copy.deepcopy", "re.compile / Pattern.match (stdlib, executed natively on concrete labels)"]
    method = None

    @property
    def qualname(self):
        return 'FlowIRConcrete.' + self.method

    @property
    def name(self):
        return 'FlowIRConcrete.' + self.method + self.variant

    variant = ''

    def call_args(self, c):
        raise NotImplementedError

    def setup(self, c):
        doc, cdict = make_doc(c)
        cache = make_cache(c)
        active = c.one_of('active_platform', PLATFORMS)
        this = Obj('concrete', _flowir=doc, _component_dictionary=cdict, _cache=cache, _platform=active,
                   platforms=list(PLATFORMS), _documents={})
        args, kwargs = self.call_args(c)
        before = {k: freeze(v) for k, v in regions(doc, cdict).items()}
        return State(args=[this] + list(args), kwargs=kwargs, this=this, doc=doc, cdict=cdict, before=before, cache=cache)

    def ensures(self, c, st, out):
        after_objs = regions(st.doc, st.cdict)
        after = {k: freeze(v) for k, v in after_objs.items()}
        written = {k for k in after if after[k] != st.before[k]}
        if out.kind == 'return' and isinstance(unflex(out.value), (dict, list)):
            # a live reference handed out: everything reachable from it may be written behind the API
            ids = reachable_ids(out.value)
            for k, obj in after_objs.items():
                if obj is not None and id(unflex(obj)) in ids:
                    written.add(k)
        stale = [(p, s, n) for (p, s, n) in ALL_LABELS if footprint(p, s, n) & written and not invalidated(st.cache, p, s, n)]
        st.written, st.stale = sorted(map(repr, written)), stale
        return [('touched-labels-are-invalidated', len(stale) == 0)]


def _mk(method_name, call, variant_name='', doc=None):
    cls = type('M_' + method_name + variant_name.replace('[', '_').replace(']', '').replace('=', '_'), (Mutator,),
               {'method': method_name, 'variant': variant_name, 'call_args': lambda self, c: call(c)})
    return cls()


def any_comp(c):
    return COMPS[c.choice('component', len(COMPS))]


def any_platform(c, with_none=True):
    opts = ([None] if with_none else []) + PLATFORMS
    return opts[c.choice('platform_arg', len(opts))]


MUTATORS = [
    _mk('get_component', lambda c: ([any_comp(c)], {'return_copy': c.one_of('return_copy', [True, False])})),
    _mk('update_component', lambda c: ([any_comp(c), {'stage': 0, 'name': 'x', 'variables': {}, 'command': {}}], {})),
    _mk('delete_component', lambda c: ([any_comp(c)], {})),
    _mk('set_component_variable', lambda c: ([any_comp(c), 'v', 'NEW-VALUE'], {})),
    _mk('delete_component_variable', lambda c: ([any_comp(c), 'v'], {})),
    _mk('set_component_option', lambda c: ([any_comp(c), c.one_of('route', ['v', '#command.arguments']), 'NEW-VALUE'], {})),
    _mk('remove_component_option', lambda c: ([any_comp(c), c.one_of('route', ['v', '#command.arguments'])], {})),
    _mk('set_global_variable', lambda c: (['g', 'NEW-VALUE'], {})),
    _mk('set_stage_variable', lambda c: ([STAGES[c.choice('stage', 2)], 'sv', 'NEW-VALUE'], {})),
    _mk('set_platform_global_variable', lambda c: (['g', 'NEW-VALUE'], {'platform': any_platform(c)})),
    _mk('set_platform_stage_variable', lambda c: ([STAGES[c.choice('stage', 2)], 'sv', 'NEW-VALUE'],
                                                   {'platform': any_platform(c)})),
    _mk('get_platform_global_variables', lambda c: ([], {'platform': any_platform(c),
                                                         'return_copy': c.one_of('return_copy', [True, False])})),
    _mk('get_platform_stage_variables', lambda c: ([STAGES[c.choice('stage', 2)]],
                                                   {'platform': any_platform(c),
                                                    'return_copy': c.one_of('return_copy', [True, False])})),
    _mk('invalidate_cache_for_component', lambda c: ([any_comp(c)], {})),
]


class ConfSetOption(Target):
    prop = 'C08'
    file = 'python/experiment/model/conf.py'
    pure = ('ParseProducerReference',)
    trusted = ["FlowIRConcrete.set_component_option / remove_component_option as proved above"]
    which = 'setOptionForNode'

    @property
    def qualname(self):
        return 'FlowIRExperimentConfiguration.' + self.which

    @property
    def name(self):
        return self.qualname

    def setup(self, c):
        c.ghost['calls'] = []
        s, n = COMPS[c.choice('component', 2) * 2]       # names without metacharacters are valid references
        meth = 'set_component_option' if self.which == 'setOptionForNode' else 'remove_component_option'
        conc = Obj('concrete')
        setattr(conc, meth, Extern(meth, lambda c, *a: c.ghost['calls'].append(a)))
        this = Obj('conf', _concrete=conc)
        args = [this, 'stage%d.%s' % (s, n), '#command.arguments'] + ([c.str('value')] if self.which == 'setOptionForNode' else [])
        return State(args=args, cid=(s, n))

    def ensures(self, c, st, out):
        calls = c.ghost['calls']
        return [('delegates-to-the-invalidating-api', out.kind == 'return' and len(calls) == 1 and calls[0][0] == st.cid)]


class ConfRemoveOption(ConfSetOption):
    which = 'removeOptionForNode'


class CacheProtocol(Target):
    """fill / lookup protocol of get_component_configuration: a hit returns the cache's (copying) __getitem__, a miss
    stores a deep copy under the label of exactly (platform, stage, name); the stored object is never the returned one"""
    prop = 'C08'
    name = 'FlowIRConcrete.get_component_configuration[cache]'
    file = F
    qualname = 'FlowIRConcrete.get_component_configuration'
    trusted = ["override_object / fill_in / convert_component_types / getters return fresh values (covered by C04)",
               "deep_copy returns a fresh copy"]

    def setup(self, c):
        g = c.ghost
        g['sets'] = []
        g['gets'] = []
        plat_arg = c.one_of('platform_arg', [None, lambda: c.str('platform')])
        if plat_arg is not None:
            c.require(plat_arg != '')       # `platform or self._platform`: an empty name means "the active one"
        active = c.str('active_platform')
        stage, name = c.int('stage'), c.str('name')
        hit = c.bool('in_cache')
        cached_copy = Obj('copy-from-cache')

        def fresh(tag):
            return lambda c, *a, **k: FlexDict({'tag': tag})
        cache = Obj('cache', in_cache=Extern('FlowIRCache.in_cache', lambda c, lab: (g.__setitem__('asked', lab), hit)[1]),
                    __getitem__=Extern('FlowIRCache.__getitem__', lambda c, lab: (g['gets'].append(lab), cached_copy)[1]),
                    __setitem__=Extern('FlowIRCache.__setitem__', lambda c, lab, v: g['sets'].append((lab, v))))
        this = Obj('concrete', _platform=active, _cache=cache, _flowir={},
                   get_component=Extern('get_component', lambda c, cid: FlexDict({'override': {}})),
                   get_component_variables=Extern('get_component_variables', lambda c, cid, **k: FlexDict({'v': 'x'})),
                   get_default_global_blueprint=Extern('b1', fresh('b1')), get_default_stage_blueprint=Extern('b2', fresh('b2')),
                   get_platform_blueprint=Extern('b3', fresh('b3')), get_platform_stage_blueprint=Extern('b4', fresh('b4')))
        flags = {k: c.one_of(k, [False, True]) for k in ('raw', 'include_default', 'is_primitive', 'inject_missing_fields')}
        return State(args=[this, (stage, name)], kwargs=dict(flags, platform=plat_arg), flags=flags, hit=hit,
                     cached_copy=cached_copy, plat=plat_arg if plat_arg is not None else active, stage=stage, cname=name)

    def externs(self, c, st):
        def override(c, a, b):
            r = FlexDict(unflex(a) if isinstance(unflex(a), dict) else {})
            if isinstance(unflex(b), dict):
                r.update(unflex(b))
            return r

        def deep(c, v):
            c.ghost['deep_copies'] = c.ghost.get('deep_copies', 0) + 1
            return Obj('deepcopy', source=v)
        ident = lambda c, v, *a, **k: v
        return {'FlowIR.override_object': Extern('FlowIR.override_object', override),
                'FlowIR.inject_default_values_to_component': Extern('inject_defaults', lambda c, v, *a: FlexDict(unflex(v))),
                'FlowIR.digest_interpreter_field': Extern('digest_interpreter_field', lambda c, v: FlexDict()),
                'FlowIR.fill_in': Extern('FlowIR.fill_in', ident), 'deep_copy': Extern('deep_copy', deep),
                'FlowIR.convert_component_types': Extern('convert_component_types', lambda c, v, **k: None)}

    def ensures(self, c, st, out):
        g = c.ghost
        if out.kind == 'raise':
            return [('no-exception', False)]
        f = st.flags
        full = (not f['raw']) and f['inject_missing_fields'] and f['include_default'] and (not f['is_primitive'])
        want = 'component:%s:stage%s:%s' % (st.plat, st.stage, st.cname) if False else None
        from pyvc.strings import percent_format
        lab = percent_format('component:%s:stage%s:%s', (st.plat, st.stage, st.cname))
        res = out.value
        cl = []
        if full and st.hit is not False:
            cl.append(('hit-returns-the-copying-lookup', Implies(st.hit, And(len(g['gets']) == 1, res is st.cached_copy))))
        if not full:
            cl.append(('partial-configurations-bypass-the-cache', len(g['sets']) == 0 and len(g['gets']) == 0))
        if g['gets']:
            cl.append(('lookup-label-is-this-component-on-this-platform', Eq(g['gets'][0], lab)))
        if g['sets']:
            slab, sval = g['sets'][0]
            cl += [('fill-label-is-this-component-on-this-platform', Eq(slab, lab)),
                   ('stored-object-is-a-private-copy', isinstance(sval, Obj) and sval is not res and
                    object.__getattribute__(sval, '_name') == 'deepcopy' and sval.source is res),
                   ('only-full-configurations-are-cached', full)]
        if full and not g['gets']:
            cl.append(('full-configuration-is-cached-on-miss', len(g['sets']) == 1))
        return cl


class CacheGet(Target):
    prop = 'C08'
    name = 'FlowIRCache.get'
    file = F
    qualname = 'FlowIRCache.get'

    def setup(self, c):
        stored = FlexDict({'x': 1})
        enabled = c.one_of('enabled', [True, False])
        present = c.choice('present', 2)
        this = Obj('cache', _cache={'component:default:stage0:comp': stored} if present else {}, _enabled=enabled,
                   _lock=threading.RLock())
        return State(args=[this, 'component:default:stage0:comp'], stored=stored, enabled=enabled, present=present)

    def externs(self, c, st):
        return {'deep_copy': Extern('deep_copy', lambda c, v: Obj('deepcopy', source=v))}

    def ensures(self, c, st, out):
        if out.kind == 'raise':
            return [('raises-only-when-disabled-or-missing', (out.raised(ValueError) and not st.enabled) or
                     (out.raised(KeyError) and not st.present))]
        v = out.value
        return [('returns-a-private-copy', isinstance(v, Obj) and v.source is st.stored and st.enabled and bool(st.present))]


class CacheInvalidateRe(Target):
    prop = 'C08'
    name = 'FlowIRCache.invalidate_reg_expression'
    file = F
    qualname = 'FlowIRCache.invalidate_reg_expression'
    inline_methods = {'this': (F, 'FlowIRCache', ['invalidate_selector'])}
    trusted = ["re.compile / Pattern.match (stdlib, run natively on concrete labels)"]
    assumptions = ["cache contents: every subset of the %d labels of the universe" % len(ALL_LABELS)]

    def setup(self, c):
        present = [l for l in ALL_LABELS if c.choice('cached[%s]' % (l,), 2)]
        cache = {label(*l): FlexDict({'id': i}) for i, l in enumerate(present)}
        this = Obj('cache', _cache=cache, _lock=threading.RLock())
        s, n = any_comp(c)
        pattern = flowir_mod.FlowIRConcrete.__dict__  # noqa (pattern is built by the real callers; here: their shape)
        pat = c.one_of('pattern', [r'component:.*:stage%s:%s' % (s, n), r'component:.*:stage%s:%s' % (s, re.escape(n))])
        return State(args=[this, pat], this=this, before=dict(cache), pat=pat)

    def ensures(self, c, st, out):
        if out.kind == 'raise':
            return [('no-exception', False)]
        after = st.this._cache
        rx = re.compile(st.pat)
        want = {k: v for k, v in st.before.items() if rx.match(k) is None}
        return [('removes-exactly-the-matching-labels', set(after) == set(want) and all(after[k] is want[k] for k in want))]


class CacheClear(Target):
    prop = 'C08'
    name = 'FlowIRCache.clear'
    file = F
    qualname = 'FlowIRCache.clear'

    def setup(self, c):
        this = Obj('cache', _cache={label(*l): {} for l in ALL_LABELS if c.choice('cached[%s]' % (l,), 2)},
                   _lock=threading.RLock())
        return State(args=[this], this=this)

    def ensures(self, c, st, out):
        return [('empties-the-cache', out.kind == 'return' and len(st.this._cache) == 0)]


class RegexKeyAdequacy(Lemma):
    """UNBOUNDED in the component name: at every site that invalidates by regular expression, the name is interpolated
    through re.escape (rule: re.escape(x) matches exactly x -- stdlib, trusted), so the pattern built from (stage, name)
    matches the label 'component:<any platform>:stage<stage>:<name>' for every name."""
    prop = 'C08'
    name = 'regex-key-adequacy'
    trusted = ["re.escape(x) is a pattern that matches exactly the string x (stdlib)"]

    def sites(self):
        import ast
        from pyvc import extract
        src, tree = extract.parse_file(F)
        out = []
        for n in ast.walk(tree):
            if isinstance(n, ast.Call) and isinstance(n.func, ast.Attribute) and n.func.attr == 'invalidate_reg_expression' \
                    and n.args:
                out.append(n)
        return out

    def obligations(self, c):
        import ast
        obs = []
        sites = self.sites()
        self.detail = []
        verdicts = []
        for i, call in enumerate(sites):
            arg = call.args[0]
            ok = False
            why = ast.unparse(arg)
            if isinstance(arg, ast.BinOp) and isinstance(arg.op, ast.Mod) and isinstance(arg.left, ast.Constant) \
                    and isinstance(arg.right, ast.Tuple) and len(arg.right.elts) == 2:
                fmt = arg.left.value
                name_arg = arg.right.elts[1]
                escaped = isinstance(name_arg, ast.Call) and ast.unparse(name_arg.func) == 're.escape'
                ok = fmt.startswith('component:.*:stage%s:') and fmt.endswith('%s') and escaped
                self.detail.append({"site": i, "line": call.lineno, "pattern": why, "adequate": ok})
                verdicts.append(ok)
            else:
                # another shape (not the per-component pattern): decided by the mutator obligations only
                self.detail.append({"site": i, "line": call.lineno, "pattern": why, "adequate": None})
        # (no such site at all is fine: then only the mutator obligations above carry the property)
        obs.append(('every-per-component-regex-site-escapes-the-name', all(verdicts)))
        return obs

    def replay(self, model):
        """native witnesses: a component whose name holds a metacharacter (or that is cached for another platform) stays
        cached after an update through one of the public routes"""
        import copy
        tried = []
        for route in ('set_component_variable', 'update_component', 'set_component_option'):
            for name, platform in (('a+b', FlowIR.LabelDefault), ('comp', 'plat')):
                doc = {'components': [{'stage': 0, 'name': name, 'command': {'executable': 'ls'}, 'variables': {'myvar': 'old'}}],
                       'platforms': [FlowIR.LabelDefault, 'plat']}
                try:
                    conc = flowir_mod.FlowIRConcrete(copy.deepcopy(doc), FlowIR.LabelDefault, {})
                    conc.get_component_configuration((0, name), platform=platform, include_default=True)
                    if route == 'set_component_variable':
                        conc.set_component_variable((0, name), 'myvar', 'new')
                    elif route == 'update_component':
                        comp = conc.get_component((0, name))
                        comp['variables']['myvar'] = 'new'
                        conc.update_component((0, name), comp)
                    else:
                        conc.set_component_option((0, name), '#command.arguments', 'new')
                    after = conc.get_component_configuration((0, name), platform=platform, include_default=True)
                    scratch = flowir_mod.FlowIRConcrete(conc.raw(), FlowIR.LabelDefault, {}).get_component_configuration(
                        (0, name), platform=platform, include_default=True)
                except Exception as err:
                    tried.append({"route": route, "component": name, "platform": platform, "error": "%s: %s" % (type(err).__name__, err)})
                    continue
                tried.append({"route": route, "component": name, "platform": platform, "stale": after != scratch})
                if after != scratch:
                    return 'confirmed', {"route": route, "component": name, "platform": platform,
                                         "cached": {k: after.get(k) for k in ('variables', 'command')},
                                         "from_scratch": {k: scratch.get(k) for k in ('variables', 'command')},
                                         "sites": getattr(self, 'detail', None)}
        # the lemma is about the TEXT of the patterns; that no public route shows a stale entry does not contradict it
        return 'no-replay', {"reason": "no stale cache entry through the public routes tried", "tried": tried,
                             "sites": getattr(self, 'detail', None)}


class QueryFrameBounded:
    """BOUNDED stand-in (native, the real FlowIRConcrete end to end -- override_object, fill_in and type conversion included,
    which the proofs above only see through assumed contracts): a QUERY does not change the stored description and does not
    hand out live references into it.  After any sequence of queries (other components, other platforms, raw or resolved,
    callers editing what they got) every answer equals the answer of a fresh object built from the same description, and
    raw() is what it was.  The description has blueprint entries of every kind: scalars, lists, nested dictionaries with and
    without variable references (e.g. resourceManager.kubernetes.podSpec), on the default and on another platform."""
    name = 'query-frame[bounded,native]'

    @staticmethod
    def document():
        return {
            'platforms': ['default', 'hpc'],
            'variables': {'default': {'global': {'q': 'normal', 'img': 'registry/default:1'}, 'stages': {0: {'sv': 's0'}}},
                          'hpc': {'global': {'q': 'long', 'img': 'registry/hpc:2'}, 'stages': {}}},
            'blueprint': {'default': {'global': {'command': {'environment': 'none'},
                                                 'resourceManager': {'config': {'backend': 'local'},
                                                                     'kubernetes': {'podSpec': {'nodeSelector': {'queue': 'fast-nodes'},
                                                                                                'labels': ['a', 'b']}}}},
                                      'stages': {0: {'resourceRequest': {'numberThreads': 2}}}},
                          'hpc': {'global': {'resourceManager': {'lsf': {'queue': '%(q)s'},
                                                                 'kubernetes': {'podSpec': {'tolerations': [{'key': 'hpc'}]}}}},
                                  'stages': {}}},
            'environments': {'default': {}},
            'components': [
                {'stage': 0, 'name': 'a', 'command': {'executable': 'echo', 'arguments': '%(q)s %(own)s'}, 'variables': {'own': 'A'},
                 'resourceManager': {'kubernetes': {'podSpec': {'priority': 'high'}}}},
                {'stage': 0, 'name': 'b', 'command': {'executable': 'echo', 'arguments': '%(q)s %(own)s'}, 'variables': {'own': 'B', 'q': 'mine'}},
                {'stage': 1, 'name': 'c', 'command': {'executable': 'echo'}, 'references': ['stage0.a:ref']}],
        }

    QUERIES = [((0, 'a'), 'default', False), ((0, 'b'), 'default', False), ((0, 'a'), 'hpc', False), ((1, 'c'), 'hpc', False),
               ((0, 'a'), 'default', True), ((0, 'b'), 'hpc', True), ((0, 'a'), None, False)]

    def run(self, tier='quick', seed=0):
        import copy, itertools, logging
        FlowIRConcrete = flowir_mod.FlowIRConcrete
        logging.disable(logging.CRITICAL)
        bad, cases = [], 0

        def ask(conc, q):
            cid, plat, raw = q
            return conc.get_component_configuration(cid, platform=plat, raw=raw, include_default=True)

        def fresh(q):
            return ask(FlowIRConcrete(copy.deepcopy(self.document()), 'default', {}), q)
        try:
            expected = {i: fresh(q) for i, q in enumerate(self.QUERIES)}
            for order in itertools.permutations(range(len(self.QUERIES)), 3):
                for edit in (False, True):
                    cases += 1
                    conc = FlowIRConcrete(copy.deepcopy(self.document()), 'default', {})
                    before = copy.deepcopy(conc.raw())
                    what = None
                    for step, i in enumerate(order):
                        got = ask(conc, self.QUERIES[i])
                        if got != expected[i]:
                            what = "query %r after %r differs from the answer of a fresh object" % (self.QUERIES[i], [self.QUERIES[j] for j in order[:step]])
                            break
                        if edit:
                            # the caller edits what it got: later answers must not change
                            self._scribble(got)
                    if what is None and conc.raw() != before:
                        what = "the stored description changed after the queries %r" % ([self.QUERIES[j] for j in order],)
                    if what:
                        bad.append({"what": what + (" (callers edited the results)" if edit else ""), "replay": self._replay(order, edit, what)})
                        break
                if bad:
                    break
        finally:
            logging.disable(logging.NOTSET)
        return {"name": self.name, "bounded": True, "bound": "every sequence of 3 of %d queries, with and without callers editing the results" % len(self.QUERIES),
                "cases": cases, "violations": bad[:3], "summary": "%d query sequences, %d wrong" % (cases, len(bad))}

    @staticmethod
    def _scribble(obj):
        if isinstance(obj, dict):
            for k in list(obj):
                QueryFrameBounded._scribble(obj[k])
            obj['__edited_by_the_caller__'] = True
        elif isinstance(obj, list):
            for x in obj:
                QueryFrameBounded._scribble(x)
            obj.append('__edited_by_the_caller__')

    def _replay(self, order, edit, what):
        import json, os
        base = os.environ.get('PYVC_OUT') or os.path.dirname(os.path.dirname(os.path.abspath(__file__)))
        p = os.path.join(base, 'replays', 'C08')
        os.makedirs(p, exist_ok=True)
        fn = os.path.join(p, 'query_frame.json')
        json.dump({"check": self.name, "queries": [repr(self.QUERIES[i]) for i in order], "callers_edit_results": edit, "failed": what,
                   "how": "FlowIRConcrete(QueryFrameBounded.document(), 'default', {}); get_component_configuration(cid, platform=, raw=) in this order; "
                          "compare with a fresh FlowIRConcrete and with raw() before"}, open(fn, 'w'), indent=1)
        return fn


TARGETS = MUTATORS + [ConfSetOption(), ConfRemoveOption(), CacheProtocol(), CacheGet(), CacheInvalidateRe(), CacheClear()]
LEMMAS = [RegexKeyAdequacy()]
BOUNDED = [QueryFrameBounded()]
