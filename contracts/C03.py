"""C03 -- replication expands a workflow without changing its dataflow.

FlowIR.apply_replicate (real source) on a producer / consumer / aggregator chain with the replica count given
literally or through a variable defined in the global, stage or component scope (every order of the components):
exactly N copies 0..N-1 in order for the replicated producer and its consumer, one aggregate, the reference list handed
to each copy, unrelated components untouched.  FlowIR.compile_component_replica with STRUCTURED reference strings
(arbitrary producer names): name suffix, replica variable, replicate attribute, and the textual rewriting of every
string leaf against the token-wise substitution specification (REPLACE rule: overlaps between names are decided by
refining atoms, i.e. one producer name being the tail of another is a path of its own).
compile_component_aggregate's regular-expression path and propagate_replicate (networkx): bounded stand-ins."""
import itertools
import z3
from pyvc.spec import Target, Lemma, State, NULLLOG
from pyvc.values import Obj, Extern, FlexDict, unflex
from pyvc.core import And, Or, Not, Implies, Iff, If, Eq, In, Sym, compare, OutsideSubset
from pyvc import sstr
from pyvc.sstr import SStr, Lit, Num, Atom

import experiment.model.frontends.flowir as flowir_mod

FlowIR = flowir_mod.FlowIR
F = 'python/experiment/model/frontends/flowir.py'


class ApplyReplicate(Target):
    prop = 'C03'
    name = 'FlowIR.apply_replicate'
    file = F
    qualname = 'FlowIR.apply_replicate'
    inline_class = {'cls': (F, 'FlowIR')}
    pure = ('FlowIR.ParseDataReferenceFull', 'FlowIR.compile_reference')
    max_paths = 50000
    trusted = ["networkx DiGraph / topological_sort inside the REAL FlowIR.propagate_replicate (inlined from source, executed "
               "natively on the concrete graph of the harness)", "FlowIR.fill_in resolves %(name)s from the variables it is given (C04 bounded)",
               "FlowIR.override_object merges the second dictionary INTO the first and returns it (C04 bounded)",
               "ParseDataReferenceFull / compile_reference (C09)"]
    assumptions = ["chain: producer P (stage 0) -> consumer C (stage 1) -> aggregator A (stage 2) -> D (stage 3, which also "
                   "consumes P directly), plus an unrelated component X (stage 0, with its own value of the replica-count variable); every order of the five; replica count 1..3"]

    def setup(self, c):
        g = c.ghost
        g['calls'] = []
        n = 1 + c.choice('N', 3)
        how = c.choice('count_given', 4)          # 0 literal, 1 global variable, 2 stage variable, 3 component variable
        other = n + 1 + c.choice('other_value', 2)
        glob, stage_vars = {}, {0: {}, 1: {'points': str(other)}, 2: {}}
        pvars = {}
        if how == 0:
            rep = n
        else:
            rep = '%(points)s'
            if how == 1:
                glob['points'] = str(n)
            elif how == 2:
                glob['points'] = str(other)
                stage_vars[0]['points'] = str(n)
            else:
                glob['points'] = str(other)
                pvars['points'] = str(n)
        P = {'name': 'P', 'stage': 0, 'workflowAttributes': {'replicate': rep, 'aggregate': False}, 'variables': pvars,
             'references': []}
        C = {'name': 'C', 'stage': 1, 'workflowAttributes': {'replicate': None, 'aggregate': False}, 'variables': {},
             'references': ['stage0.P:ref', 'data/file.txt:copy']}
        A = {'name': 'A', 'stage': 2, 'workflowAttributes': {'replicate': None, 'aggregate': True}, 'variables': {},
             'references': ['stage1.C/out.txt:copy']}
        # X shares P's stage and defines ITS OWN value of the variable that gives P's replica count: a component's
        # variables are visible to that component only (whatever the order of the components in the document)
        X = {'name': 'X', 'stage': 0, 'workflowAttributes': {'replicate': None, 'aggregate': 'no'},
             'variables': {'points': str(other + 1)}, 'references': []}
        # D consumes the AGGREGATOR's output and, directly, the replicated producer: D is replicated because of P, its
        # reference to the aggregator must not be treated as a reference to a replicated component
        D = {'name': 'D', 'stage': 3, 'workflowAttributes': {'replicate': None, 'aggregate': False}, 'variables': {},
             'references': ['stage2.A/agg.txt:copy', 'stage0.P:ref']}
        comps = [P, C, A, X, D]
        order = list(itertools.permutations(range(5)))[c.choice('order', 120)]
        comps = [comps[i] for i in order]
        pv = {FlowIR.LabelGlobal: glob, FlowIR.LabelStages: stage_vars}

        def replica(c, comp, idx, total, refs):
            c.ghost['calls'].append(('replica', comp['name'], idx, total, list(refs)))
            return {'name': '%s%d' % (comp['name'], idx), 'stage': comp['stage']}

        def aggregate(c, comp, count, refs):
            c.ghost['calls'].append(('aggregate', comp['name'], count, list(refs)))
            return {'name': comp['name'], 'stage': comp['stage']}

        def fill_in(c, value, variables, label=None, is_primitive=True, **kw):
            if isinstance(value, str) and value.startswith('%(') and value.endswith(')s'):
                return unflex(variables)[value[2:-2]]
            return value

        def override(c, old, new):
            old.update(new)
            return old
        if c.mode == 'sym':
            cls = Obj('FlowIR', LabelStages=FlowIR.LabelStages, LabelGlobal=FlowIR.LabelGlobal,
                      compile_component_replica=Extern('compile_component_replica', replica),
                      compile_component_aggregate=Extern('compile_component_aggregate', aggregate),
                      fill_in=Extern('fill_in', fill_in),
                      override_object=Extern('override_object', override))
        else:
            cls = type('FlowIRStub', (FlowIR,), {})
            for nm, fn in (('compile_component_replica', replica), ('compile_component_aggregate', aggregate),
                           ('fill_in', fill_in), ('override_object', override)):
                setattr(cls, nm, Extern(nm, fn))
        return State(args=[cls, comps, pv, False, [], []], cls=cls, n=n, comps=comps, X=X, pv=pv, glob=dict(glob))

    def real_function(self):
        return FlowIR.apply_replicate.__func__

    def ensures(self, c, st, out):
        if out.kind == 'raise':
            return [('no-exception', False)]
        n = st.n
        calls = c.ghost['calls']
        res = out.value
        want_calls = []
        want_names = []
        for comp in st.comps:
            if comp['name'] == 'P':
                want_calls += [('replica', 'P', i, n, []) for i in range(n)]
                want_names += ['P%d' % i for i in range(n)]
            elif comp['name'] == 'C':
                want_calls += [('replica', 'C', i, n, ['stage0.P:ref']) for i in range(n)]
                want_names += ['C%d' % i for i in range(n)]
            elif comp['name'] == 'A':
                want_calls += [('aggregate', 'A', n, ['stage1.C/out.txt:copy'])]
                want_names += ['A']
            elif comp['name'] == 'D':
                want_calls += [('replica', 'D', i, n, ['stage0.P:ref']) for i in range(n)]
                want_names += ['D%d' % i for i in range(n)]
            else:
                want_names += ['X']
        totals = {t[3] for t in calls if t[0] == 'replica'} | {t[2] for t in calls if t[0] == 'aggregate'}
        return [('replica-count-is-resolved-in-the-component-scope', totals == {n}),
                ('exactly-N-copies-in-index-order-and-one-aggregate', calls == want_calls),
                ('result-lists-the-copies-in-place', [x['name'] for x in res] == want_names),
                ('components-outside-the-replicated-region-are-unchanged', any(x is st.X for x in res)),
                ('variable-scopes-are-not-modified', st.pv[FlowIR.LabelGlobal] == st.glob)]


# ------------------------------------------------------------------------------------------------ textual rewriting
import string
NAME_ALLOWED = string.ascii_letters + string.digits + '_-#'
NAME_EXCL = ''.join(ch for ch in string.printable if ch not in NAME_ALLOWED)


def name_atom(c, tag, sample):
    return c.atom(tag, sample, excludes=NAME_EXCL, distinct_from=list(FlowIR.SpecialFolders) + ['stage', ''],
                  not_stage_prefixed=True, first_not_digit=True)


def S(*parts):
    parts = [p for p in parts if p is not None]
    if all(isinstance(p, str) for p in parts):
        return ''.join(parts)
    return sstr.simplify(SStr([p if isinstance(p, (Lit, Num, Atom, SStr)) else sstr.lift(p) for p in parts]))


def num(c, n):
    return str(n) if c.mode != 'sym' else SStr([Num(n)])


class CompileReplica(Target):
    prop = 'C03'
    name = 'FlowIR.compile_component_replica'
    file = F
    qualname = 'FlowIR.compile_component_replica'
    inline_class = {'cls': (F, 'FlowIR')}
    inline = {'FlowIR.compile_reference': (F, 'FlowIR.compile_reference', 'cls')}
    max_paths = 50000
    trusted = ["rules of the structured-string domain incl. the REPLACE rule (pyvc/sstr.py, pyvc/replace.py)",
               "FlowIR.replace_strings applies the function to every string leaf (inlined from source)"]
    assumptions = ["component names are non-empty strings over [A-Za-z0-9_#-] that do not start with a digit",
                   "consumer with one reference to a replicated producer p and one to a non-replicated producer q, spelled "
                   "relative or absolute, mentioned in the arguments together with literal text"]
    carve_outs = {
        # witness class of the recorded finding: one producer name is the tail of another one
        'no-name-is-the-tail-of-another': lambda c, st: not getattr(c, 'suffix_refinements', []),
    }

    def setup(self, c):
        cls = Obj('FlowIR', SpecialFolders=list(FlowIR.SpecialFolders), VariablePattern=FlowIR.VariablePattern) \
            if c.mode == 'sym' else FlowIR
        p = name_atom(c, 'p', 'prod')
        q = name_atom(c, 'q', 'other')
        own = name_atom(c, 'own', 'consumer')
        stage = c.int('producer_stage')
        c.require(compare('>=', stage, 0))
        idx = c.int('replica')
        total = c.int('total')
        c.require(And(compare('>=', idx, 0), compare('<', idx, total)))
        f = c.one_of('file', [None, lambda: c.atom('file', 'out', excludes=NAME_EXCL)])
        abs_p = c.one_of('p_spelling_in_arguments', ['absolute', 'relative'])
        abs_q = c.one_of('q_spelling', ['absolute', 'relative'])
        q_same_stage_number = c.one_of('q_in_same_stage', [True, False])
        qstage = stage if q_same_stage_number else c.int('q_stage')

        def ref(prod, spelling, st_, repl=None, fl=None):
            return S(('stage' if spelling == 'absolute' else None), (num(c, st_) if spelling == 'absolute' else None),
                     ('.' if spelling == 'absolute' else None), prod, (num(c, repl) if repl is not None else None),
                     ('/' if fl is not None else None), fl, ':ref')
        rp_args = ref(p, abs_p, stage, None, f)
        rq = ref(q, abs_q, qstage, None, None)
        args = S('-i ', rp_args, ' --other=', rq, ' literal:text')
        comp = {'name': own, 'stage': stage, 'command': {'executable': 'run.sh', 'arguments': args},
                'references': [ref(p, 'absolute', stage, None, f), rq], 'variables': {}, 'workflowAttributes': {}}
        refs = [ref(p, 'absolute', stage, None, f)]
        want_args = S('-i ', ref(p, 'absolute', stage, idx, f), ' --other=', rq, ' literal:text')
        want_refs = [ref(p, 'absolute', stage, idx, f), rq]
        return State(args=[cls, comp, idx, total, refs], cls=cls, comp=comp, own=own, idx=idx, total=total,
                     want_args=want_args, want_refs=want_refs, rq=rq)

    def real_function(self):
        return FlowIR.compile_component_replica.__func__

    def ensures(self, c, st, out):
        if out.kind == 'raise':
            return [('no-exception', False)]
        r = out.value
        same = _same
        cl = [('copy-is-named-name+index', bool(same(r['name'], S(st.own, num(c, st.idx))))),
              ('copy-knows-its-replica-index', _eq(r['variables'].get('replica'), st.idx)),
              ('copy-records-the-replica-count', _eq(r['workflowAttributes'].get('replicate'), st.total)),
              ('template-is-not-modified', st.comp['name'] is st.own and 'replica' not in st.comp['variables'])]
        cl.append(('copy-i-consumes-copy-i-and-nothing-else-changes',
                   bool(same(r['command']['arguments'], st.want_args) and len(r['references']) == 2 and
                        same(r['references'][0], st.want_refs[0]) and same(r['references'][1], st.want_refs[1]))))
        return cl


def _same(a, b):
    if isinstance(a, (SStr, str)) and isinstance(b, (SStr, str)):
        return sstr.equal(a, b)
    return a == b


def _eq(a, b):
    if a is None or b is None:
        return a is None and b is None
    return Eq(a, b)


class CompileReplicaOverlappingProducers(Target):
    """Two REPLICATED producers whose references overlap textually (`stage0.temp:ref` is the tail of `stage0.mintemp:ref`):
    copy i of the consumer consumes copy i of BOTH, whatever the order in which the replicated references are handed to
    compile_component_replica (that order comes from the caller's bookkeeping, not from the workflow).  Concrete names
    (BOUNDED: the symbolic target above excludes tail-overlaps through the recorded finding's carve-out)."""
    prop = 'C03'
    name = 'FlowIR.compile_component_replica[overlapping replicated producers]'
    file = F
    qualname = 'FlowIR.compile_component_replica'
    inline_class = {'cls': (F, 'FlowIR')}
    inline = {'FlowIR.compile_reference': (F, 'FlowIR.compile_reference', 'cls')}
    compare_return = False
    pure = ('FlowIR.ParseDataReferenceFull', 'FlowIR.compile_reference')
    assumptions = ["BOUNDED: producers temp / mintemp (stage 0), consumer in stage 0 or 1, references spelled absolutely or "
                   "relatively in the arguments, both orders of the replicated-references list, replica index 0..2"]

    def setup(self, c):
        cls = Obj('FlowIR', SpecialFolders=list(FlowIR.SpecialFolders), VariablePattern=FlowIR.VariablePattern) \
            if c.mode == 'sym' else FlowIR
        idx = c.choice('replica', 3)
        spelling = c.one_of('spelling_in_arguments', ['absolute', 'relative'])
        order = c.one_of('order_of_replicated_references', ['short-first', 'long-first'])
        a, b = 'stage0.temp:ref', 'stage0.mintemp:ref'
        ma, mb = (a, b) if spelling == 'absolute' else ('temp:ref', 'mintemp:ref')
        comp = {'name': 'plot', 'stage': 0, 'command': {'executable': 'plot.sh', 'arguments': '--t %s --min %s --keep literal:ref' % (ma, mb)},
                'references': [a, b], 'variables': {}, 'workflowAttributes': {}}
        refs = [a, b] if order == 'short-first' else [b, a]
        return State(args=[cls, comp, idx, 3, refs], idx=idx, cls=cls)

    def real_function(self):
        return FlowIR.compile_component_replica.__func__

    def ensures(self, c, st, out):
        if out.kind == 'raise':
            return [('no-exception', False)]
        r = out.value
        i = st.idx
        return [('copy-i-consumes-copy-i-of-both-producers-whatever-the-order-of-the-list',
                 r['command']['arguments'] == '--t stage0.temp%d:ref --min stage0.mintemp%d:ref --keep literal:ref' % (i, i)
                 and list(r['references']) == ['stage0.temp%d:ref' % i, 'stage0.mintemp%d:ref' % i])]

    def cross_compare(self, *a):
        return []


class CompileAggregate(Target):
    """'an aggregating component consumes ALL copies, in index order': FlowIR.compile_component_aggregate on concrete
    component texts (bounded: the regular expression it builds from the reference needs concrete names)."""
    prop = 'C03'
    name = 'FlowIR.compile_component_aggregate'
    file = F
    qualname = 'FlowIR.compile_component_aggregate'
    inline_class = {'cls': (F, 'FlowIR')}
    inline = {'FlowIR.compile_reference': (F, 'FlowIR.compile_reference', 'cls'),
              'FlowIR.replace_strings': (F, 'FlowIR.replace_strings', 'cls')}
    compare_return = False
    trusted = ["re (native, on concrete strings)", "FlowIR.replace_strings applies the function to every string leaf"]
    assumptions = ["BOUNDED: concrete names; replica count 1..3; the reference mentioned in its absolute or relative spelling, "
                   "bare, followed by a path, or by a path and a comma; an unrelated reference next to it"]

    def setup(self, c):
        count = 1 + c.choice('count', 3)
        spelling = c.one_of('spelling', ['stage0.Prod:ref', 'Prod:ref'])
        tail = c.one_of('tail', ['', '/out.txt', '/dir/out.csv,'])
        comp = {'name': 'Agg', 'stage': 1, 'references': ['stage0.Prod:ref', 'stage0.Other:copy'],
                'command': {'executable': 'gather', 'arguments': '-i %s%s --also Other:copy plain' % (spelling, tail)},
                'variables': {'note': 'untouched text'}}
        cls = Obj('FlowIR')
        import copy
        return State(args=[cls, comp, count, ['stage0.Prod:ref']], count=count, spelling=spelling, tail=tail, comp=comp, cls=cls,
                     before=copy.deepcopy(comp))

    def real_function(self):
        return FlowIR.compile_component_aggregate.__func__

    def ensures(self, c, st, out):
        if out.kind == 'raise':
            return [('no-exception', False)]
        res = out.value
        copies = ['stage0.Prod%d:ref' % i for i in range(st.count)]
        sep, path = ' ', st.tail
        if path.endswith(','):
            sep, path = ',', path[:-1]
        want_args = '-i %s --also Other:copy plain' % sep.join(x + path for x in copies)
        return [('references-list-every-copy-in-index-order', res['references'] == copies + ['stage0.Other:copy']),
                ('arguments-mention-every-copy-in-index-order', res['command']['arguments'] == want_args),
                ('everything-else-is-unchanged', res['variables'] == st.before['variables'] and res['name'] == 'Agg'
                 and res['command']['executable'] == 'gather'),
                ('the-template-is-not-modified', st.comp == st.before)]

    def cross_compare(self, *a):
        return []


class GraphEdges(Target):
    """'every reference in the result names a component that exists / copy i consumes from copy i' is what the GRAPH is
    built from: WorkflowGraph._createCompleteGraph adds the edge producer -> consumer for exactly the component references
    of each (expanded) component -- relative spellings resolved against the consumer's stage, files and application
    dependencies skipped, a producer referenced twice giving one edge."""
    prop = 'C03'
    name = 'WorkflowGraph._createCompleteGraph[edges]'
    file = 'python/experiment/model/graph.py'
    qualname = 'WorkflowGraph._createCompleteGraph'
    pure = ('DataReference', 'ComponentIdentifier', 'FlowIR.ParseDataReferenceFull',
            'experiment.model.frontends.flowir.FlowIR.ParseDataReferenceFull')
    compare_return = False
    trusted = ["networkx DiGraph (native)", "graph.DataReference / ComponentIdentifier (C09: bounded stand-in) on concrete strings",
               "CreateNode adds the node of the component"]
    assumptions = ["BOUNDED: an expanded workflow of 3 replicas of a producer, 3 replicas of a consumer (copy i references "
                   "copy i in the relative or absolute spelling, twice), an aggregator referencing all copies, a direct file "
                   "reference and a reference to a component that does not exist"]

    def setup(self, c):
        import experiment.model.graph as graph_mod
        relative = c.one_of('consumer_spelling', ['absolute', 'relative'])
        comps = {}
        for i in range(3):
            comps[(0, 'P%d' % i)] = {'stage': 0, 'name': 'P%d' % i, 'references': [], 'workflowAttributes': {'aggregate': False, 'replicate': 3}}
            ref = ('stage0.P%d' % i) if relative == 'absolute' else ('P%d' % i)
            comps[(0 if relative == 'relative' else 1, 'C%d' % i)] = {
                'stage': 0 if relative == 'relative' else 1, 'name': 'C%d' % i,
                'references': ['%s:ref' % ref, '%s/out.txt:copy' % ref, 'data/input.txt:copy', 'stage5.Ghost:ref'],
                'workflowAttributes': {'aggregate': False, 'replicate': 3}}
        cstage = 0 if relative == 'relative' else 1
        comps[(2, 'A')] = {'stage': 2, 'name': 'A', 'references': ['stage%d.C%d/out.txt:copy' % (cstage, i) for i in range(3)],
                           'workflowAttributes': {'aggregate': True, 'replicate': None}}
        conc = Obj('concrete', get_component_identifiers=Extern('get_component_identifiers', lambda c, f=False: list(comps)),
                   get_component_configuration=Extern('get_component_configuration', lambda c, cid, **k: comps[cid]))
        conf = Obj('conf', get_application_dependencies=Extern('get_application_dependencies', lambda c: []), top_level_folders=['data'])
        this = Obj('workflowgraph', _concrete=conc, configuration=conf, _placeholders={}, inherit_attributes=[],
                   map_placeholders_to_looped_instances_of_components=Extern('map_placeholders', lambda c: None),
                   update_dowhile_states=Extern('update_dowhile_states', lambda c: None))
        return State(args=[this], kwargs={}, comps=comps, cstage=cstage)

    def externs(self, c, st):
        import experiment.model.graph as graph_mod

        def create_node(c, wg, g, name, stage_index, is_replicate, is_blueprint, is_aggregate, isPrimitive=False):
            cid = graph_mod.ComponentIdentifier(name, stage_index)
            g.add_node(cid.identifier, stageIndex=stage_index)
            return Obj('node-spec', rawDataReferences=list(st.comps[(stage_index, name)]['references']), identification=cid)
        return {'CreateNode': Extern('CreateNode', create_node)}

    def ensures(self, c, st, out):
        if out.kind == 'raise':
            return [('no-exception', False)]
        g = out.value
        want = set()
        for i in range(3):
            want.add(('stage0.P%d' % i, 'stage%d.C%d' % (st.cstage, i)))
            want.add(('stage%d.C%d' % (st.cstage, i), 'stage2.A'))
        got = set(g.edges())
        return [('copy-i-depends-on-copy-i-and-the-aggregator-on-every-copy', got == want),
                ('no-node-for-things-that-are-not-components', set(g.nodes()) == {'stage%d.%s' % k for k in st.comps})]

    def cross_compare(self, *a):
        return []


class ConcreteReplicate(Target):
    """FlowIRConcrete.replicate, the caller that the loader uses: replica counts given through a variable must be resolved
    with the variables THE INSTANCE gives its components -- the flattened scopes of instance() (C04: platform-global outranks
    default-stage), not a re-layering of the package's scopes.  The components handed to apply_replicate are the instance's,
    and what apply_replicate returns becomes the components of the result."""
    prop = 'C03'
    name = 'FlowIRConcrete.replicate'
    file = F
    qualname = 'FlowIRConcrete.replicate'
    inline_class = {'this': (F, 'FlowIRConcrete')}
    compare_return = False
    trusted = ["FlowIRConcrete.instance (C04) returns the flattened description", "FlowIR.apply_replicate (under contract above) "
               "looks a variable up in the component, then the stage, then the global scope it is given",
               "FlowIR.override_object: right-biased merge (only reached by re-layering variants)"]
    assumptions = ["one replica-count variable N defined in the default platform's stage scope (2) and in the selected platform's "
                   "global scope (3), or in one of them only; platform default / hpc"]

    def setup(self, c):
        g = c.ghost
        g['received'] = None
        plat = c.one_of('platform', ['hpc', 'default'])
        in_stage = c.one_of('N_in_default_stage_scope', [True, False])
        in_plat_global = c.one_of('N_in_platform_global_scope', [True, False])
        pkg_vars = {'default': {'global': {}, 'stages': {0: ({'N': '2'} if in_stage else {})}},
                    'hpc': {'global': ({'N': '3'} if in_plat_global else {}), 'stages': {0: {}}}}
        # what instance() (C04) produces for the selected platform: platform-global outranks default-stage
        if plat == 'hpc' and in_plat_global:
            flat = {'global': {'N': '3'}, 'stages': {0: {}}}
        else:
            flat = {'global': {}, 'stages': {0: ({'N': '2'} if in_stage else {})}}
        comps = [{'stage': 0, 'name': 'sim', 'workflowAttributes': {'replicate': '%(N)s'}}]
        instance_doc = {'variables': {'default': flat}, 'components': comps, 'platforms': ['default']}
        this = Obj('concrete', _platform=plat, platforms=['default', 'hpc'], _flowir={'variables': pkg_vars, 'components': comps},
                   _cache=Obj('cache', clear=Extern('cache.clear', lambda c: None)),
                   instance=Extern('instance', lambda c, platform=None, **k: instance_doc),
                   get_application_dependencies=Extern('get_application_dependencies', lambda c, *a: []),
                   get_stage_number=Extern('get_stage_number', lambda c: 1))
        return State(args=[this], kwargs={'platform': None}, this=this, flat=flat, comps=comps, instance_doc=instance_doc)

    def externs(self, c, st):
        g = c.ghost

        def apply_replicate(c, components, variables, *a, **k):
            g['received'] = (components, variables)
            return ['REPLICATED']

        def override(c, a, b):
            r = dict(unflex(a) or {})
            r.update(unflex(b) or {})
            return r
        return {'FlowIR.apply_replicate': Extern('FlowIR.apply_replicate', apply_replicate),
                'FlowIR.override_object': Extern('FlowIR.override_object', override)}

    def ensures(self, c, st, out):
        if out.kind == 'raise':
            return [('no-exception', False)]
        g = c.ghost
        if g['received'] is None:
            return [('replication-is-applied', False)]
        components, variables = g['received']
        variables = unflex(variables) or {}

        def visible(scopes):
            stage = unflex((unflex(scopes.get('stages', {})) or {}).get(0, {})) or {}
            glob = unflex(scopes.get('global', {})) or {}
            return stage.get('N', glob.get('N'))
        return [('replication-is-applied', True),
                ('replica-counts-are-resolved-with-the-variables-the-instance-gives-its-components',
                 visible(variables) == visible(st.flat)),
                ('the-instance-components-are-replicated', components is st.comps or components == st.comps),
                ('the-replicated-components-become-the-result', unflex(out.value).get('components') == ['REPLICATED'])]

    def cross_compare(self, *a):
        return []


# replication rewrites references with the parser and the printer of C09 (executed natively inside the targets above): their
# contracts are part of this check too
from pyvc.spec import shared as _shared
import contracts.C09 as _c09
REFERENCE_PARSING = [_shared(_c09.CompileReference(), 'C03'), _shared(_c09.ParsePrint(), 'C03')]

TARGETS = [ApplyReplicate(), CompileReplica(), CompileReplicaOverlappingProducers(), CompileAggregate(), GraphEdges(),
           ConcreteReplicate()] + REFERENCE_PARSING
LEMMAS = []
