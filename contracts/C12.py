"""C12 -- task restarts stay within the configured policy.

Functions under contract (real code, extracted from /repo on every run):
  engine.py   Engine.restart, RepeatingEngine.restart, Engine._setExitReason
  workflow.py ComponentState.restart
  control.py  Controller._restartComponent, Controller._unstableSystemRestart, Controller.postMortemCheck
Lemma: induction over the proved per-call clauses (history quantifier).
Top-level postconditions are transcribed from the property statement; the constants (exit reasons,
restart codes/contexts) are read from the real experiment.model.codes at run time."""
import z3
from pyvc.spec import Target, Lemma, State, NULLLOG
from pyvc.values import Obj, Extern, Lazy, LazyDict
from pyvc.core import And, Or, Not, Implies, Iff, If, Eq, In, Sym, PyRaise, OutsideSubset, EngineError

import experiment.model.codes as codes
import experiment.runtime.errors

ER = codes.exitReasons
RC = codes.restartCodes
CTX = codes.restartContexts
REASONS = list(ER.values())
# schema (flowir.py, generate_blueprint): restartHookOn may list any exit reason except Killed/Cancelled
HOOKABLE = [r for r in REASONS if r not in (ER['Killed'], ER['Cancelled'])]

HOOK_KINDS = ['str', 'bool', 'int', 'none', 'ioerror', 'exception']


def effective_max(maxRestarts, hookfile_truthy):
    """the statement: three by default, unlimited only when requested explicitly (-1) or when a
    restart hook file is named without a maximum"""
    if maxRestarts is None:
        return -1 if hookfile_truthy else 3
    return maxRestarts


def make_hook(name):
    def hook(c, *args, **kwargs):
        c.ghost['hook_calls'] = c.ghost.get('hook_calls', 0) + 1
        kind = HOOK_KINDS[c.choice('hook_outcome', len(HOOK_KINDS))]
        if kind == 'ioerror':
            c.raise_(IOError, "hook: cannot read CONTROL")
        if kind == 'exception':
            c.raise_(RuntimeError, "hook failed")
        v = {'str': lambda: c.str('hook_result'), 'bool': lambda: c.bool('hook_result_bool'),
             'int': lambda: c.int('hook_result_int'), 'none': lambda: None}[kind]()
        c.ghost['hook_result'] = v
        return v
    return Extern(name, hook, "restart hook: returns any restart context, a bool, junk, or raises IOError/other")


class EngineRestart(Target):
    prop = 'C12'
    name = 'Engine.restart'
    file = 'python/experiment/runtime/engine.py'
    qualname = 'Engine.restart'
    max_paths = 200000
    second_rate = 100            # thorough: every 100th z3 discharge is re-checked by cvc5
    trusted = ["restart hook returns a restartContext, bool, other value or raises (all enumerated)",
               "Engine.run() either starts the task or raises", "shutil.move succeeds or raises",
               "experiment.model.hooks.import_hooks_restart returns a module with Restart or raises ImportError/IOError/other",
               "Engine.isAlive/exitReason/returncode return arbitrary values of their types (volatile)"]
    assumptions = ["restartHookOn lists exit reasons other than Killed/Cancelled (FlowIR schema, flowir.py generate_blueprint)",
                   "workflowAttributes holds maxRestarts (int or None), restartHookFile (None, '' or a name), restartHookOn (list)"]

    def setup(self, c):
        g = c.ghost
        g['runs'] = 0
        g['run_ok'] = 0
        g['hook_calls'] = 0
        st = State()
        maxr = Lazy(lambda: st.set('maxr', c.one_of('maxRestarts', [None, lambda: c.int('maxRestarts')])))
        hookfile = Lazy(lambda: st.set('hookfile', c.one_of('restartHookFile', [None, '', 'custom_restart.py'])))
        hook_on = c.sublist('restartHookOn', HOOKABLE)
        jobtype = Lazy(lambda: c.one_of('jobtype', ['local', 'simulator']))
        custom = Lazy(lambda: c.one_of('sim_restart', [{}, {'sim_restart': 'yes'}, {'sim_restart': 'No'},
                                                       {'sim_restart': 'TRUE'}]))
        restarts = c.int('restarts')
        resub = c.int('resub')
        reason = c.one_of('reason_arg', [None, lambda: c.enum('reason', REASONS)])
        code = c.one_of('code_arg', [None, lambda: c.int('code')])

        def run(c):
            c.ghost['runs'] = c.ghost['runs'] + 1
            if c.choice('run_outcome', 2) == 1:
                c.raise_(RuntimeError, "could not launch")
            c.ghost['run_ok'] = c.ghost['run_ok'] + 1
            return None

        def is_alive(c):
            return c.bool('alive')

        def exit_reason(c):
            r = c.one_of('exitReason()', [None, lambda: c.enum('engine_reason', REASONS)])
            c.ghost['engine_reason'] = r
            return r

        def returncode(c):
            return c.int('engine_code')      # only ever handed to the hook (an extern that ignores it)

        job = Obj('job', workflowAttributes=LazyDict({'maxRestarts': maxr, 'restartHookFile': hookfile,
                                                      'restartHookOn': hook_on}),
                  type=jobtype, customAttributes=custom, directory='/inst/stages/stage0/comp', name='comp',
                  workflowGraph=Obj('graph', rootStorage=Obj('storage', instancePath='/inst')))
        this = Obj('engine', job=job, restarts=restarts, _resubmissionAttempts=resub,
                   _runCalled=Lazy(lambda: c.one_of('_runCalled', [None, True])),
                   isAlive=Extern('Engine.isAlive', is_alive), exitReason=Extern('Engine.exitReason', exit_reason),
                   returncode=Extern('Engine.returncode', returncode),
                   _create_termination_observable=Extern('Engine._create_termination_observable', lambda c: None),
                   run=Extern('Engine.run', run), log=NULLLOG,
                   process='P', lastExecution=False, _taskFinished='x', _taskLaunched='x', _exitReason='x')
        st.args, st.kwargs = [this], {'reason': reason, 'code': code}
        st.this, st.hook_on, st.old_restarts, st.old_resub, st.reason_arg, st.job = this, hook_on, restarts, resub, reason, job
        return st

    def externs(self, c, st):
        def import_hooks(c, hooks_dir, module_name):
            k = c.choice('import_outcome', 4)
            if k == 1:
                c.raise_(ImportError, "no hook")
            if k == 2:
                c.raise_(IOError, "cannot read hook")
            if k == 3:
                c.raise_(SyntaxError, "broken hook")
            return Obj('hookmodule', Restart=make_hook('hooks.Restart'))

        def move(c, a, b):
            c.event('move', a, b)
            if c.choice('move_outcome', 2) == 1:
                c.raise_(OSError, "cannot move")

        return {'experiment.model.hooks.import_hooks_restart': Extern('import_hooks_restart', import_hooks),
                'DLMESORestart': make_hook('DLMESORestart'),
                'shutil.move': Extern('shutil.move', move)}

    def requires(self, c, st):
        # representation invariant of the counters (established by __init__ = 0, preserved: clause `counters`)
        return And(st.old_restarts >= 0, st.old_resub >= 0)

    def ensures(self, c, st, out):
        g = c.ghost
        this = st.this
        if out.kind == 'raise':
            # documented: AssertionError when the engine is still alive; a broken hook module propagates.
            return [('raise:no-run', Eq(g['runs'], 0)),
                    ('raise:kind', out.raised(AssertionError) or out.raised(SyntaxError))]
        res = out.value
        reason = st.reason_arg if st.reason_arg is not None else g.get('engine_reason')
        wa = st.job.workflowAttributes
        maxr = wa['maxRestarts']          # resolves the lazy inputs if the code never read them
        M = effective_max(maxr, bool(wa['restartHookFile']) if maxr is None else False)
        listed = In(reason, []) if reason is None else _listed(st.hook_on, reason)
        is_sf = Eq(reason, ER['SubmissionFailed']) if reason is not None else False
        initiated = Eq(res, RC['RestartInitiated'])
        new_restarts, new_resub = this.restarts, this._resubmissionAttempts
        cl = restart_clauses(M, listed, is_sf, _in(reason, [ER['Killed'], ER['Cancelled']]),
                             st.old_restarts, new_restarts, st.old_resub, new_resub,
                             g['runs'], g['run_ok'], initiated, _in(res, list(RC.values())))
        # while the relaunch is pending (launch delay) the engine shows NO task: _setExitReason prefers the exit reason of
        # `self.process`, so a kill() in that window must not be recorded with the reason of the task that was restarted
        # ('a task is never started again after it was killed')
        if g['runs'] >= 1:
            cl.append(('no-stale-task-while-the-relaunch-is-pending', this.process is None))
        return cl


def _listed(hook_on, reason):
    if isinstance(hook_on, list):
        return reason in hook_on
    return hook_on.contains(reason)


def _in(x, xs):
    if x is None:
        return False
    return In(x, xs)


def restart_clauses(M, listed, is_sf, killed_or_cancelled, old_restarts, new_restarts, old_resub, new_resub,
                    runs, run_ok, initiated, code_ok):
    """The per-call contract of Engine.restart, shared by the code proof and by the history lemma."""
    started = runs >= 1
    return [
        ('code-domain', code_ok),
        ('initiated-iff-run-ok', Iff(initiated, Eq(run_ok, 1))),
        ('at-most-one-run', And(runs <= 1, run_ok <= runs)),
        ('only-restartable-reasons', Implies(started, Or(listed, is_sf))),
        ('never-after-killed-or-cancelled', Implies(started, Not(killed_or_cancelled))),
        ('budget', Implies(And(started, Not(Eq(M, -1))), old_restarts + 1 <= M)),
        ('continuation-restart-is-counted', Implies(And(started, Not(is_sf)), Eq(new_restarts, old_restarts + 1))),
        ('counters', And(new_restarts >= old_restarts, new_restarts <= old_restarts + 1,
                         Eq(new_resub, If(And(initiated, is_sf), old_resub + 1, old_resub)))),
        ('bound-invariant', Implies(And(M >= 0, old_restarts <= M), new_restarts <= M)),
    ]


class RepeatingEngineRestart(Target):
    prop = 'C12'
    name = 'RepeatingEngine.restart'
    file = 'python/experiment/runtime/engine.py'
    qualname = 'RepeatingEngine.restart'
    trusted = ["threading.Thread(target=f).start() runs f once or raises"]

    def setup(self, c):
        c.ghost['threads'] = 0
        reason = c.one_of('reason_arg', [None, lambda: c.enum('reason', REASONS)])
        restarts = c.int('restarts')

        def exit_reason(c):
            r = c.one_of('exitReason()', [None, lambda: c.enum('engine_reason', REASONS)])
            c.ghost['engine_reason'] = r
            return r
        this = Obj('repeating-engine', restarts=restarts, exitReason=Extern('RepeatingEngine.exitReason', exit_reason),
                   log=NULLLOG)
        return State(args=[this], kwargs={'reason': reason, 'code': None}, this=this, old_restarts=restarts,
                     reason_arg=reason)

    def requires(self, c, st):
        return st.old_restarts >= 0

    def externs(self, c, st):
        def thread(c, target=None, **kw):
            def start(c):
                if c.choice('thread_start', 2) == 1:
                    c.raise_(RuntimeError, "can't start new thread")
                c.ghost['threads'] = c.ghost['threads'] + 1
            return Obj('thread', start=Extern('Thread.start', start))
        return {'threading.Thread': Extern('threading.Thread', thread)}

    def ensures(self, c, st, out):
        g = c.ghost
        if out.kind == 'raise':
            return [('no-exception', False)]
        reason = st.reason_arg if st.reason_arg is not None else g.get('engine_reason')
        res = out.value
        started = g['threads'] >= 1
        return [
            ('at-most-one', And(g['threads'] <= 1, Implies(started, Eq(st.old_restarts, 0)))),
            ('only-resource-exhausted', Implies(started, _eq(reason, ER['ResourceExhausted']))),
            ('initiated-iff-started', Iff(Eq(res, RC['RestartInitiated']), started)),
            ('counted', Eq(st.this.restarts, If(started, st.old_restarts + 1, st.old_restarts))),
            ('code-domain', In(res, list(RC.values()))),
        ]


def _eq(a, b):
    if a is None:
        return False
    return Eq(a, b)


def _same_reason(a, b):
    if a is None or b is None:
        return a is None and b is None
    return Eq(a, b)


class ComponentStateRestart(Target):
    prop = 'C12'
    name = 'ComponentState.restart'
    file = 'python/experiment/runtime/workflow.py'
    qualname = 'ComponentState.restart'

    def setup(self, c):
        c.ghost['engine_restart_calls'] = 0

        def restart(c, reason=None, code=None):
            c.ghost['engine_restart_calls'] += 1
            c.ghost['passed'] = (reason, code)
            return c.enum('engine_result', list(RC.values()))
        shut = c.bool('isShutdown')
        eng = Obj('engine', isShutdown=shut, restart=Extern('Engine.restart', restart))
        this = Obj('componentstate', engine=eng, specification=Obj('spec', reference='stage0.comp'))
        reason = c.enum('reason', REASONS)
        code = c.int('code')
        return State(args=[this], kwargs={'reason': reason, 'code': code}, shut=shut, reason=reason, code=code)

    def ensures(self, c, st, out):
        g = c.ghost
        calls = g['engine_restart_calls']
        if out.kind == 'raise':
            return [('refuses-after-shutdown', And(Eq(st.shut, True), Eq(calls, 0),
                                                   out.raised(experiment.runtime.errors.CannotRestartShutdownEngineError)))]
        return [('delegates-once', And(Eq(st.shut, False), Eq(calls, 1))),
                ('passes-reason', Eq(g['passed'][0], st.reason) if calls else False),
                ('returns-engine-code', Eq(out.value, c.inputs_value('engine_result')))]


class RestartComponent(Target):
    prop = 'C12'
    name = 'Controller._restartComponent'
    file = 'python/experiment/runtime/control.py'
    qualname = 'Controller._restartComponent'
    trusted = ["ComponentState.restart returns a restart code or raises (its own contract is proved separately)",
               "MonitorExceptionTracker.isSystemStable returns a bool", "time.sleep returns"]
    carve_outs = {
        # witness class of the known cap-bypass finding: SubmissionFailed listed in restartHookOn
        'sf-not-listed': lambda c, st: Not(_listed(st.hook_on, ER['SubmissionFailed'])),
    }

    def setup(self, c):
        g = c.ghost
        g['restart_calls'] = 0
        g['initiated'] = 0
        hook_on = c.sublist('restartHookOn', HOOKABLE)
        reason = c.one_of('reason_arg', [None, lambda: c.enum('reason', REASONS)])
        resub = c.int('resub')

        def exit_reason(c):
            # volatile: every call may answer differently; the code under contract uses the FIRST answer
            r = c.one_of('exitReason()', [None, lambda: c.enum('engine_reason', REASONS)])
            c.ghost.setdefault('engine_reason', r)
            return r

        def restart(c, reason=None, code=None):
            c.ghost['restart_calls'] += 1
            c.ghost['restart_reason'] = reason
            k = c.choice('restart_outcome', len(RESTART_OUTCOMES))
            o = RESTART_OUTCOMES[k]
            if isinstance(o, type):
                c.raise_(o, "restart failed")
            if o == RC['RestartInitiated']:
                c.ghost['initiated'] += 1
            return o
        eng = Obj('engine', exitReason=Extern('Engine.exitReason', exit_reason), restarts=c.int('restarts'),
                  resubmissionAttempts=Extern('Engine.resubmissionAttempts', lambda c: resub))
        comp = Obj('componentstate', engine=eng, restart=Extern('ComponentState.restart', restart), controllerState='x',
                   specification=Obj('spec', reference='stage0.comp', workflowAttributes={'restartHookOn': hook_on}))

        def unstable(c, component, exitReason=None, returncode=None):
            # contract proved on Controller._unstableSystemRestart: exactly one restart call with the
            # caller's reason, never raises, returns the restart code (CouldNotInitiate if restart raised)
            c.ghost['unstable_calls'] = c.ghost.get('unstable_calls', 0) + 1
            try:
                return restart(c, reason=exitReason, code=returncode)
            except (PyRaise, Exception) as err:
                if isinstance(err, (OutsideSubset, EngineError)):
                    raise
                return RC['RestartCouldNotInitiate']
        this = Obj('controller', log=NULLLOG, _max_resubmission_attempts=5,
                   _unstableSystemRestart=Extern('Controller._unstableSystemRestart', unstable))
        return State(args=[this, comp], kwargs={'exitReason': reason}, hook_on=hook_on, reason_arg=reason, resub=resub,
                     comp=comp)

    def requires(self, c, st):
        return st.resub >= 0

    def externs(self, c, st):
        tracker = Obj('tracker', isSystemStable=Extern('isSystemStable', lambda c, n: c.bool('stable')),
                      printStatus=Extern('printStatus', lambda c, **k: None))
        return {'time.sleep': Extern('time.sleep', lambda c, s: None),
                'experiment.runtime.monitor.MonitorExceptionTracker.defaultTracker':
                    Extern('defaultTracker', lambda c: tracker)}

    def ensures(self, c, st, out):
        g = c.ghost
        if out.kind == 'raise':
            return [('no-exception', False)]
        reason = st.reason_arg if st.reason_arg is not None else g.get('engine_reason')
        res = out.value
        called = g['restart_calls'] >= 1
        listed = False if reason is None else _listed(st.hook_on, reason)
        is_sf = _eq(reason, ER['SubmissionFailed'])
        return [
            ('code-domain', In(res, list(RC.values()))),
            ('at-most-one-restart-call', g['restart_calls'] <= 1),
            ('initiated-only-via-restart', Iff(Eq(res, RC['RestartInitiated']), Eq(g['initiated'], 1))),
            ('passes-own-reason', Implies(called, _same_reason(g.get('restart_reason'), reason))),
            # the statement: never after a killed or cancelled task; only for listed reasons, a failed
            # submission, or (system instability path) an abnormal exit -- never after Success
            ('never-after-killed-cancelled-success',
             Implies(called, Or(listed, Not(_in(reason, [ER['Killed'], ER['Cancelled'], ER['Success']]))))),
            # the statement: consecutive re-submissions after failed submissions never exceed five
            ('resubmission-cap', Implies(And(called, is_sf), st.resub < 5)),
        ]


RESTART_OUTCOMES = list(RC.values()) + [experiment.runtime.errors.CannotRestartShutdownEngineError, AssertionError]


class UnstableSystemRestart(Target):
    prop = 'C12'
    name = 'Controller._unstableSystemRestart'
    file = 'python/experiment/runtime/control.py'
    qualname = 'Controller._unstableSystemRestart'
    trusted = ["MonitorExceptionTracker.isSystemStable returns a bool", "time.sleep returns"]

    def setup(self, c):
        g = c.ghost
        g['restart_calls'] = 0
        g['sleeps'] = 0
        reason = c.enum('reason', REASONS)

        def restart(c, reason=None, code=None):
            c.ghost['restart_calls'] += 1
            c.ghost['restart_reason'] = reason
            o = RESTART_OUTCOMES[c.choice('restart_outcome', len(RESTART_OUTCOMES))]
            if isinstance(o, type):
                c.raise_(o, "restart failed")
            c.ghost['restart_result'] = o
            return o
        comp = Obj('componentstate', restart=Extern('ComponentState.restart', restart), controllerState='x',
                   specification=Obj('spec', reference='stage0.comp'))
        this = Obj('controller', log=NULLLOG)
        return State(args=[this, comp], kwargs={'exitReason': reason, 'returncode': 1}, reason=reason, comp=comp)

    def externs(self, c, st):
        def sleep(c, s):
            c.ghost['sleeps'] += 1
        tracker = Obj('tracker', isSystemStable=Extern('isSystemStable', lambda c, n: c.bool('stable')))
        return {'time.sleep': Extern('time.sleep', sleep),
                'experiment.runtime.monitor.MonitorExceptionTracker.defaultTracker':
                    Extern('defaultTracker', lambda c: tracker)}

    def ensures(self, c, st, out):
        g = c.ghost
        if out.kind == 'raise':
            return [('no-exception', False)]
        return [('exactly-one-restart-call', Eq(g['restart_calls'], 1)),
                ('passes-own-reason', Eq(g['restart_reason'], st.reason)),
                ('bounded-wait', And(g['sleeps'] >= 1, g['sleeps'] <= 4)),
                ('returns-restart-code', Eq(out.value, g.get('restart_result', RC['RestartCouldNotInitiate']))),
                ('not-left-suspended', st.comp.controllerState is None)]


class SetExitReason(Target):
    prop = 'C12'
    name = 'Engine._setExitReason'
    file = 'python/experiment/runtime/engine.py'
    qualname = 'Engine._setExitReason'

    def setup(self, c):
        resub = c.int('resub')
        reason = c.enum('reason', REASONS)
        proc = c.one_of('process', [None, lambda: Obj('process', isAlive=Extern('Task.isAlive', lambda c: False),
                                                       exitReason=c.one_of('process.exitReason',
                                                                           [None, lambda: c.enum('preason', REASONS)]))])
        this = Obj('engine', _resubmissionAttempts=resub, process=proc, log=NULLLOG, _exitReason=None,
                   emit_now=Extern('Engine.emit_now', lambda c: None))
        return State(args=[this, reason], this=this, resub=resub, reason=reason, proc=proc)

    def ensures(self, c, st, out):
        if out.kind == 'raise':
            return [('no-exception', False)]
        final = st.this._exitReason
        return [('resubmissions-reset-only-on-success',
                 Eq(st.this._resubmissionAttempts, If(Eq(final, ER['Success']), 0, st.resub)))]


class LaunchTask(Target):
    """The closure Engine.run.LaunchTask, where a submission fails.  The resubmission cap counts consecutive exits whose
    recorded reason is SubmissionFailed; _setExitReason (above) prefers the reason of `self.process` when there is one.
    So a failed launch must leave NO task on the engine -- not the finished task of the previous round -- and the reason that
    the real _setExitReason then records for the emission must be the launch failure's own reason."""
    prop = 'C12'
    name = 'Engine.run.LaunchTask'
    file = 'python/experiment/runtime/engine.py'
    qualname = 'Engine.run.LaunchTask'
    inline_class = {'this': ('python/experiment/runtime/engine.py', 'Engine')}
    compare_return = False
    trusted = ["taskGenerator returns a task or raises"]
    assumptions = ["engine entered with no task or with the finished task of the previous round (any exit reason); the launch "
                   "succeeds, or raises OSError / JobLaunchError / another exception"]

    def setup(self, c):
        prev_reason = c.one_of('task_of_the_previous_round', [None, 'ResourceExhausted', 'KnownIssue', 'Success'])
        previous = None if prev_reason is None else Obj('previous-task', exitReason=ER[prev_reason], returncode=1,
                                                      isAlive=Extern('Task.isAlive', lambda c: False))
        launch = c.one_of('launch', ['ok', 'OSError', 'JobLaunchError', 'other'])
        new_task = Obj('new-task', exitReason=None, isAlive=Extern('Task.isAlive', lambda c: True))

        def generate(c, job, *a, **k):
            if launch == 'OSError':
                c.raise_(OSError, 5, 'stale file handle')
            if launch == 'JobLaunchError':
                c.raise_(experiment.runtime.errors.JobLaunchError, 'submission refused', IOError('backend down'))
            if launch == 'other':
                c.raise_(RuntimeError, 'boom')
            return new_task
        this = Obj('engine', log=NULLLOG, process=previous, job=Obj('job', executable='x', arguments='y'), _exitReason=None,
                   _resubmissionAttempts=c.int('resub'), taskGenerator=Extern('taskGenerator', generate),
                   emit_now=Extern('Engine.emit_now', lambda c: None))
        return State(args=['perf'], free={'self': this}, this=this, launch=launch, new_task=new_task, previous=previous)

    def externs(self, c, st):
        return {'traceback.format_exc': Extern('format_exc', lambda c: 'tb')}

    def ensures(self, c, st, out):
        if out.kind == 'raise':
            return [('a-failed-launch-is-reported-not-raised', False)]
        em = out.value
        this = st.this
        if st.launch == 'ok':
            return [('a-failed-launch-is-reported-not-raised', True),
                    ('the-new-task-is-the-engines-task', em['process'] is st.new_task and this.process is st.new_task and em['exitReason'] is None)]
        want = ER['SubmissionFailed'] if st.launch in ('OSError', 'JobLaunchError') else ER['UnknownIssue']
        cl = [('a-failed-launch-is-reported-not-raised', True),
              ('a-failed-submission-is-reported-as-such', em['process'] is None and em['exitReason'] == want),
              ('no-stale-task-is-left-on-the-engine', this.process is None)]
        # what the engine records for this emission (the REAL _setExitReason on the state LaunchTask left behind)
        this._setExitReason(em['exitReason'])
        cl.append(('the-recorded-exit-reason-is-the-launch-failure', this._exitReason == want))
        return cl

    def cross_compare(self, *a):
        return []


class PostMortemCheck(Target):
    prop = 'C12'
    name = 'Controller.postMortemCheck'
    file = 'python/experiment/runtime/control.py'
    qualname = 'Controller.postMortemCheck'
    trusted = ["Controller._restartComponent returns a restart code or raises (its own contract is proved separately)",
               "ComponentState.finish(state) records the final state"]
    assumptions = ["Controller.stage() is not None while components post-mortem (log formatting is dropped from the verified text)"]
    inline = {'TransitionComponentToFinalState': ('python/experiment/runtime/control.py', 'TransitionComponentToFinalState')}

    def setup(self, c):
        g = c.ghost
        g['finish'] = []
        g['restart_component_calls'] = 0
        reason = c.one_of('exitReason()', [None, lambda: c.enum('engine_reason', REASONS)])
        shutdown_on = c.sublist('shutdownOn', REASONS)

        def finish(c, state):
            c.ghost['finish'] = c.ghost['finish'] + [state]
            if c.choice('finish_outcome', 2) == 1 and len(c.ghost['finish']) == 1:
                c.raise_(RuntimeError, "finish failed")

        def restart_component(c, component, exitReason=None, returncode=None):
            c.ghost['restart_component_calls'] += 1
            o = RESTART_OUTCOMES[c.choice('restartComponent_outcome', len(RESTART_OUTCOMES))]
            if isinstance(o, type):
                c.raise_(o, "boom")
            c.ghost['restart_result'] = o
            return o
        eng = Obj('engine', returncode=Extern('Engine.returncode', lambda c: c.one_of('returncode()', [None, 0, 1])),
                  exitReason=Extern('Engine.exitReason', lambda c: reason))
        comp = Obj('componentstate', engine=eng, finish=Extern('ComponentState.finish', finish),
                   specification=Obj('spec', reference='stage0.comp', workflowAttributes={'shutdownOn': shutdown_on}))
        # stage() is never None here: with None the (dropped) log call itself raises TypeError natively
        stage = Obj('stage', index=0)
        this = Obj('controller', log=NULLLOG, stage=Extern('Controller.stage', lambda c: stage),
                   _restartComponent=Extern('Controller._restartComponent', restart_component))
        return State(args=[this, 'checking', comp], reason=reason, shutdown_on=shutdown_on)

    def externs(self, c, st):
        import experiment.runtime.control as control
        return {}

    def ensures(self, c, st, out):
        g = c.ghost
        if out.kind == 'raise':
            # only a failing finish(FAILED) inside the error handler can escape
            return [('exception-only-from-error-handler', len(g['finish']) >= 1)]
        fin = g['finish']
        initiated = g.get('restart_result') == RC['RestartInitiated']
        reason = st.reason
        clauses = [
            # the statement: once a restart is refused the component receives its final state
            ('refused-restart-gets-final-state', True if initiated else len(fin) >= 1),
            ('restarted-component-is-not-finalised', (len(fin) == 0) if initiated else True),
            ('final-states-only', all(s in (codes.FINISHED_STATE, codes.FAILED_STATE, codes.SHUTDOWN_STATE) for s in fin)),
        ]
        if not initiated and g.get('restart_result') is None:
            # the handling itself failed (an exception before the restart decision): the component must end up failed
            clauses.append(('exception-means-failed', bool(fin) and fin[0] == codes.FAILED_STATE))
        elif not initiated and fin:
            first = fin[0]
            success = _eq(reason, ER['Success'])
            in_shutdown = False if reason is None else _listed(st.shutdown_on, reason)
            if True:
                # documented rule: success -> finished, reason on the shutdown list -> shut down, else failed
                clauses.append(('final-state-rule', And(
                    Iff(success, first == codes.FINISHED_STATE),
                    Iff(And(Not(success), in_shutdown), first == codes.SHUTDOWN_STATE),
                    Iff(And(Not(success), Not(in_shutdown)), first == codes.FAILED_STATE))))
        return clauses


class HistoryLemma(Lemma):
    """Induction over the per-call clauses proved on Engine.restart / _setExitReason /_restartComponent:
    for every history, #continuation re-runs <= restarts <= M and consecutive resubmissions <= 5."""
    prop = 'C12'
    name = 'history'
    assumptions = ["histories are sequences of calls each satisfying the per-call contracts; counters start at 0 (Engine.__init__)"]

    def obligations(self, c):
        # ghost history counters: n_cont = continuation re-runs so far, n_resub = consecutive resubmissions
        M = c.int('M')
        r0, r1 = c.int('restarts'), c.int("restarts'")
        s0, s1 = c.int('resub'), c.int("resub'")
        n_cont, n_sf = c.int('n_cont'), c.int('n_sf')
        runs, run_ok = c.int('runs'), c.int('run_ok')
        listed, is_sf, koc, initiated, code_ok = (c.bool('listed'), c.bool('is_sf'), c.bool('koc'), c.bool('initiated'),
                                                  c.bool('code_ok'))
        hyp = And(*[f for _, f in restart_clauses(M, listed, is_sf, koc, r0, r1, s0, s1, runs, run_ok, initiated, code_ok)])
        inv0 = And(n_cont <= r0, n_sf <= s0, Implies(M >= 0, r0 <= M), r0 >= 0, s0 >= 0, n_cont >= 0, n_sf >= 0)
        started = runs >= 1
        n_cont1 = If(And(started, Not(is_sf)), n_cont + 1, n_cont)
        n_sf1 = If(And(Eq(run_ok, 1), is_sf), n_sf + 1, n_sf)
        inv1 = And(n_cont1 <= r1, n_sf1 <= s1, Implies(M >= 0, r1 <= M), r1 >= 0, s1 >= 0)
        # controller-level cap (proved on _restartComponent, modulo the recorded finding): a SubmissionFailed
        # restart is only requested while resub < 5
        cap_pre = Implies(And(started, is_sf), s0 < 5)
        return [
            ('base', Implies(M >= 0, And(0 <= 0, 0 <= M))),
            ('step', Implies(And(hyp, inv0), inv1)),
            ('continuation-reruns-bounded', Implies(And(hyp, inv0, M >= 0), n_cont1 <= M)),
            ('resubmissions-bounded', Implies(And(hyp, inv0, cap_pre, s0 <= 5), And(s1 <= 5, n_sf1 <= 5))),
            ('reset-keeps-invariant', Implies(inv0, And(0 <= 0, n_cont <= r0))),
        ]


class CounterFrames(Lemma):
    """writes-frame of the policy counters: every function that assigns them is under contract above
    (or is the constructor, which sets them to 0 / 5).  A new writer elsewhere invalidates the history lemma."""
    prop = 'C12'
    name = 'counter-frames'

    def obligations(self, c):
        from pyvc import frames
        eng = 'python/experiment/runtime/engine.py'
        w_resub = frames.attribute_writers(eng, '_resubmissionAttempts')
        w_restarts = frames.attribute_writers(eng, 'restarts')
        others = set()
        for f in ('python/experiment/runtime/control.py', 'python/experiment/runtime/workflow.py'):
            others |= frames.attribute_writers(f, '_resubmissionAttempts') | frames.attribute_writers(f, 'restarts')
        w_cap = frames.attribute_writers('python/experiment/runtime/control.py', '_max_resubmission_attempts')
        self.detail = {"_resubmissionAttempts": sorted(w_resub), "restarts": sorted(w_restarts),
                       "outside engine.py": sorted(others), "_max_resubmission_attempts": sorted(w_cap)}
        return [
            ('resubmission-counter-writers', w_resub <= {'Engine.__init__', 'Engine.restart', 'Engine._setExitReason'}),
            ('restart-counter-writers', w_restarts <= {'Engine.__init__', 'Engine.restart', 'RepeatingEngine.restart',
                                                       'RepeatingEngine.__init__'}),
            ('no-writers-outside-engine', not others),
            ('resubmission-cap-is-constant', w_cap <= {'Controller.__init__'}),
        ]

    def replay(self, model):
        return 'no-replay', {"writers": getattr(self, 'detail', None),
                             "reason": "frame obligation: a function outside the contracts writes a policy counter"}


TARGETS = [EngineRestart(), RepeatingEngineRestart(), ComponentStateRestart(), SetExitReason(), LaunchTask(),
           RestartComponent(), UnstableSystemRestart(), PostMortemCheck()]
LEMMAS = [HistoryLemma(), CounterFrames()]
