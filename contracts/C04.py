"""C04 -- resolved component configuration follows the documented layering order.

Proved (for every variable name: scopes are dictionaries over ARBITRARY symbolic keys): the variable layering of
FlowIRConcrete.get_component_variables (6 layers, platform layers absent on the default platform); the order in which
get_component_configuration hands the blueprint layers to override_object and that interpolation happens after
layering with exactly those variables; user variables are injected into the STAGE scope of every platform, global
user variables first; several variable files are folded in the order given.
override_object itself is an ASSUMED right-biased deep merge (worklist over id()): bounded stand-in, exhaustive to
depth 2.  interpolate / fill_in / convert_component_types: bounded stand-in on variable chains."""
import itertools
import z3
from pyvc.spec import Target, Lemma, State, NULLLOG
from pyvc.values import Obj, Extern, FlexDict, MapBox, SymMap, unflex
from pyvc.core import And, Or, Not, Implies, Iff, If, Eq, In, Sym

import experiment.model.errors as errors
import experiment.model.frontends.flowir as flowir_mod

FlowIR = flowir_mod.FlowIR
F = 'python/experiment/model/frontends/flowir.py'
CF = 'python/experiment/model/conf.py'
DEFAULT = FlowIR.LabelDefault


def has(m, k):
    m = unflex(m)
    if isinstance(m, dict):
        return (k in m) if isinstance(k, str) else Or(*[Eq(k, x) for x in m]) if m else False
    return m.m.has(k)


def at(m, k):
    m = unflex(m)
    if isinstance(m, dict):
        if isinstance(k, Sym):
            v = ''
            for kk, vv in m.items():
                v = If(Eq(k, kk), vv, v)
            return v
        return m.get(k, '')
    return m.m.at(k)


def first_defined(layers, k):
    """(present, value) of the highest-priority layer defining k; layers listed from HIGHEST to lowest priority"""
    pres, val = False, ''
    for m in reversed(layers):
        pres, val = Or(pres, has(m, k)), If(has(m, k), at(m, k), val)
    return pres, val


class ComponentVariables(Target):
    prop = 'C04'
    name = 'FlowIRConcrete.get_component_variables'
    file = F
    qualname = 'FlowIRConcrete.get_component_variables'
    trusted = ["the scope getters return (copies of) the respective scope"]
    assumptions = ["variable scopes are dictionaries from names to values (arbitrary, symbolic)"]

    def setup(self, c):
        scopes = {n: c.map(n) for n in ('default_global', 'default_stage', 'platform_global', 'platform_stage',
                                        'component', 'override')}
        plat_arg = c.one_of('platform_arg', [None, DEFAULT, 'plat', 'unknown'])
        active = c.one_of('active_platform', [DEFAULT, 'plat'])
        has_vars = c.choice('component_has_variables', 2)
        has_ovr = c.choice('component_has_override', 2)
        comp = {'stage': 0, 'name': 'comp'}
        if has_vars:
            comp['variables'] = scopes['component']
        if has_ovr:
            comp['override'] = {'plat': {'variables': scopes['override']}}
        flags = {k: c.one_of(k, [True, False]) for k in ('include_default_global', 'include_default_stage',
                                                         'include_platform_global', 'include_platform_stage',
                                                         'include_platform_override')}

        def clone(m):
            return MapBox(m.m.copy()) if isinstance(m, MapBox) else dict(m)
        this = Obj('concrete', _platform=active, platforms=[DEFAULT, 'plat'], _flowir={},
                   get_component=Extern('get_component', lambda c, cid, return_copy=True: comp),
                   get_default_global_variables=Extern('get_default_global_variables',
                                                       lambda c, return_copy=True: clone(scopes['default_global'])),
                   get_default_stage_variables=Extern('get_default_stage_variables',
                                                      lambda c, s, return_copy=True: clone(scopes['default_stage'])),
                   get_platform_global_variables=Extern('get_platform_global_variables',
                                                        lambda c, p, return_copy=True: clone(scopes['platform_global'])),
                   get_platform_stage_variables=Extern('get_platform_stage_variables',
                                                       lambda c, s, p, return_copy=True: clone(scopes['platform_stage'])))
        return State(args=[this, (0, 'comp')], kwargs=dict(flags, platform=plat_arg), scopes=scopes, flags=flags,
                     platform=plat_arg or active, has_vars=has_vars, has_ovr=has_ovr, key=c.str('anyvar'))

    def ensures(self, c, st, out):
        if out.kind == 'raise':
            return [('unknown-platform-is-an-error', out.raised(errors.FlowIRPlatformUnknown) and st.platform == 'unknown')]
        if st.platform == 'unknown':
            return [('unknown-platform-is-an-error', False)]
        s, f, k = st.scopes, st.flags, st.key
        empty = {}
        on_plat = st.platform != DEFAULT
        layers = [  # highest priority first  (the statement / docstring order, reversed)
            s['override'] if (f['include_platform_override'] and st.has_ovr and st.platform == 'plat') else empty,
            s['component'] if st.has_vars else empty,
            s['platform_stage'] if (f['include_platform_stage'] and on_plat) else empty,
            s['platform_global'] if (f['include_platform_global'] and on_plat) else empty,
            s['default_stage'] if f['include_default_stage'] else empty,
            s['default_global'] if f['include_default_global'] else empty,
        ]
        pres, val = first_defined(layers, k)
        res = out.value
        return [('defined-iff-some-layer-defines-it', Iff(has(res, k), pres)),
                ('value-comes-from-the-highest-priority-layer', Implies(pres, Eq(at(res, k), val)))]

    def cross_compare(self, *a):
        return []


class InstanceVariables(Target):
    """FlowIRConcrete.instance() FLATTENS the layered variables of the selected platform into a document for the
    default platform that only has a global scope and one scope per stage (stage outranks global when the instance
    is read back).  The flattening must preserve the documented order: for every variable name, what a component of
    the stage sees in the instance (stage scope, then global scope) is what the layered package gives it
    (platform-stage > platform-global > default-stage > default-global).  The statement slice is the part of
    instance() that computes the two scopes; the getters it calls are the REAL ones (interpreted from the class)."""
    prop = 'C04'
    name = 'FlowIRConcrete.instance[variable scopes]'
    file = F
    qualname = 'FlowIRConcrete.instance'
    slice = ('platform = platform or self._platform', 'self.get_environments(', False)
    inline_class = {'this': (F, 'FlowIRConcrete')}
    trusted = ["FlowIR.interpolate replaces references inside one value and leaves the choice of the layer alone "
               "(identity here; interpolation is C10 / the bounded stand-in below)",
               "FlowIR.override_object is a right-biased merge (only reached by refactorings; bounded stand-in below)"]
    assumptions = ["variable names range over a 2-element universe, presence of each name in each of the four scopes "
                   "enumerated, values arbitrary (symbolic); one stage with one component"]
    NAMES = ('a', 'b')

    def setup(self, c):
        plat = c.one_of('platform', ['plat', DEFAULT])
        scopes = {}
        for sc in ('default_global', 'default_stage', 'platform_global', 'platform_stage'):
            d = {}
            for n in self.NAMES:
                if sc.startswith('platform') and plat == DEFAULT:
                    continue
                if c.one_of('%s_defines_%s' % (sc, n), [True, False]):
                    d[n] = c.str('%s_%s' % (sc, n))
            scopes[sc] = d
        doc = {FlowIR.FieldVariables: {DEFAULT: {FlowIR.LabelGlobal: dict(scopes['default_global']),
                                                 FlowIR.LabelStages: {0: dict(scopes['default_stage'])}},
                                       'plat': {FlowIR.LabelGlobal: dict(scopes['platform_global']),
                                                FlowIR.LabelStages: {0: dict(scopes['platform_stage'])}}}}
        comp = {'stage': 0, 'name': 'comp'}
        c.ghost['contexts'] = []
        this = Obj('concrete', _platform=c.one_of('active_platform', [DEFAULT, 'plat']), platforms=[DEFAULT, 'plat'],
                   _flowir=doc, _cache=Obj('cache', clear=Extern('cache.clear', lambda c: None)),
                   get_component_identifiers=Extern('get_component_identifiers', lambda c, **k: [(0, 'comp')]),
                   get_component=Extern('get_component', lambda c, cid, return_copy=True: dict(comp)),
                   get_component_configuration=Extern('get_component_configuration', lambda c, cid, **k: dict(comp)),
                   get_stage_number=Extern('get_stage_number', lambda c: 1))
        return State(kwargs={'self': this, 'platform': plat, 'is_primitive': False, 'inject_missing_fields': True,
                             'ignore_errors': False, 'fill_in_all': False},
                     this=this, scopes=scopes, plat=plat, doc=doc)

    def externs(self, c, st):
        def interpolate(c, value, context, *a, **k):
            c.ghost['contexts'].append((k.get('label'), dict(unflex(context))))
            return value

        def override(c, a, b):
            r = dict(unflex(a))
            r.update(unflex(b))
            return r
        return {'FlowIR.interpolate': Extern('FlowIR.interpolate', interpolate),
                'FlowIR.override_object': Extern('FlowIR.override_object', override)}

    def ensures(self, c, st, out):
        if out.kind == 'raise':
            return [('no-exception', False)]
        s = st.scopes
        on_plat = st.plat != DEFAULT
        glob = unflex(st.env['global_variables'])
        stage = unflex(unflex(st.env['stage_variables']).get(0, {}))
        if on_plat:
            layers = [s['platform_stage'], s['platform_global'], s['default_stage'], s['default_global']]
            glayers = [s['platform_global'], s['default_global']]
        else:
            layers = [s['default_stage'], s['default_global']]
            glayers = [s['default_global']]
        cl = []
        seen_ok, val_ok, g_ok, ctx_ok = True, True, True, True
        stage_ctx = [ctx for (label, ctx) in c.ghost['contexts'] if label and '.stages.' in label]
        for k in self.NAMES:
            pres, val = first_defined(layers, k)
            got_p = (k in stage) or (k in glob)
            got_v = stage[k] if k in stage else glob.get(k, '')
            seen_ok = And(seen_ok, Iff(got_p, pres))
            val_ok = And(val_ok, Implies(pres, Eq(got_v, val)))
            gp, gv = first_defined(glayers, k)
            g_ok = And(g_ok, Iff(k in glob, gp), Implies(gp, Eq(glob.get(k, ''), gv)))
            for ctx in stage_ctx:
                ctx_ok = And(ctx_ok, Iff(k in ctx, pres), Implies(pres, Eq(ctx.get(k, ''), val)))
        orig = st.doc[FlowIR.FieldVariables]
        frame = (unflex(orig[DEFAULT][FlowIR.LabelGlobal]) == s['default_global']
                 and unflex(orig[DEFAULT][FlowIR.LabelStages][0]) == s['default_stage']
                 and unflex(orig['plat'][FlowIR.LabelGlobal]) == s['platform_global']
                 and unflex(orig['plat'][FlowIR.LabelStages][0]) == s['platform_stage'])
        return [('instance-defines-a-variable-iff-some-layer-defines-it', seen_ok),
                ('instance-value-comes-from-the-highest-priority-layer', val_ok),
                ('instance-global-scope-is-platform-global-over-default-global', g_ok),
                ('stage-variables-are-interpolated-in-the-layered-context', ctx_ok),
                ('the-package-scopes-are-left-unchanged', frame)]

    def cross_compare(self, *a):
        return []


class ConfigurationLayers(Target):
    prop = 'C04'
    name = 'FlowIRConcrete.get_component_configuration[layers]'
    file = F
    qualname = 'FlowIRConcrete.get_component_configuration'
    trusted = ["FlowIR.override_object(a, b) is a right-biased deep merge (assumed; bounded stand-in below)",
               "FlowIR.fill_in / convert_component_types / digest_interpreter_field (bounded stand-in below)"]

    def setup(self, c):
        g = c.ghost
        g['merged'] = []
        g['events'] = []
        flags = {k: c.one_of(k, [False, True]) for k in ('raw', 'include_default', 'inject_missing_fields')}
        plat = c.one_of('platform', [DEFAULT, 'plat'])
        has_ovr = c.choice('override_for_platform', 3)        # 0 none, 1 for this platform, 2 for another platform
        ovr = FlexDict({'tag': 'override'})
        comp = FlexDict({'tag': 'component'})
        if has_ovr == 1:
            comp['override'] = {plat: ovr}
        elif has_ovr == 2:
            comp['override'] = {'elsewhere': ovr}
        variables = FlexDict({'v': 'x'})

        def layer(tag):
            return lambda c, *a, **k: FlexDict({'tag': tag})

        def get_vars(c, cid, **kw):
            g['var_flags'] = kw
            return variables
        cache = Obj('cache', in_cache=Extern('in_cache', lambda c, l: False), __setitem__=Extern('set', lambda c, l, v: None))
        this = Obj('concrete', _platform=plat, _cache=cache, _flowir={'doc': 1},
                   get_component=Extern('get_component', lambda c, cid: comp),
                   get_component_variables=Extern('get_component_variables', get_vars),
                   get_default_global_blueprint=Extern('b', layer('default-global')),
                   get_default_stage_blueprint=Extern('b', layer('default-stage')),
                   get_platform_blueprint=Extern('b', layer('platform-global')),
                   get_platform_stage_blueprint=Extern('b', layer('platform-stage')))
        return State(args=[this, (0, 'comp')], kwargs=dict(flags, platform=None), flags=flags, has_ovr=has_ovr,
                     variables=variables)

    def externs(self, c, st):
        g = c.ghost

        def override(c, a, b):
            b = unflex(b)
            tag = b.get('tag') if isinstance(b, dict) else None
            g['merged'].append(tag)
            g['events'].append('merge:%s' % tag)
            r = FlexDict(unflex(a) if isinstance(unflex(a), dict) else {})
            r['last'] = tag
            return r

        def fill_in(c, what, variables, **kw):
            g['events'].append('fill_in')
            g['fill_in_variables'] = variables
            return what

        def inject(c, v, *a):
            if not unflex(v):
                return FlexDict({'tag': 'builtin'})
            g['events'].append('inject-defaults')
            return v
        return {'FlowIR.override_object': Extern('FlowIR.override_object', override),
                'FlowIR.inject_default_values_to_component': Extern('inject_defaults', inject),
                'FlowIR.digest_interpreter_field': Extern('digest_interpreter_field', lambda c, v: FlexDict({'tag': 'interpreter'})),
                'FlowIR.fill_in': Extern('FlowIR.fill_in', fill_in),
                'deep_copy': Extern('deep_copy', lambda c, v: FlexDict(unflex(v)) if isinstance(unflex(v), dict) else v),
                'FlowIR.convert_component_types': Extern('convert_component_types',
                                                         lambda c, v, **k: g['events'].append('convert-types'))}

    def ensures(self, c, st, out):
        g = c.ghost
        if out.kind == 'raise':
            return [('no-exception', False)]
        f = st.flags
        want = (['builtin'] if f['inject_missing_fields'] else []) + \
            ['default-global', 'default-stage', 'platform-global', 'platform-stage', 'component'] + \
            (['override'] if st.has_ovr == 1 else []) + (['interpreter'] if f['inject_missing_fields'] else [])
        ev = g['events']
        cl = [('layers-merged-in-the-documented-order', g['merged'] == want),
              ('variables-are-the-layered-variables', out.value.get('variables') is st.variables),
              ('variable-scopes-follow-include_default', all(v == f['include_default'] for k, v in g.get('var_flags', {}).items()
                                                             if k.startswith('include_')))]
        if not f['raw']:
            cl += [('interpolation-after-all-layers', 'fill_in' in ev and all(not e.startswith('merge:') for e in ev[ev.index('fill_in'):])),
                   ('interpolation-uses-the-layered-variables', g.get('fill_in_variables') is st.variables),
                   ('types-converted-after-interpolation', 'convert-types' in ev and ev.index('convert-types') > ev.index('fill_in'))]
        else:
            cl.append(('raw-configuration-is-not-interpolated', 'fill_in' not in ev))
        return cl


class PatchInVariableFiles(Target):
    prop = 'C04'
    name = 'FlowIRExperimentConfiguration._patch_in_variable_files'
    file = CF
    qualname = 'FlowIRExperimentConfiguration._patch_in_variable_files'
    trusted = ["layer_many_variable_files (proved below)", "FlowIRConcrete.set_platform_stage_variable (C08)"]
    assumptions = ["user variables: names a, b (values symbolic), 2 stages, 2 platforms"]

    def setup(self, c):
        c.ghost['sets'] = []
        ga, gb, sb = c.str('global.a'), c.str('global.b'), c.str('stage0.b')
        c.require(And(Not(Eq(ga, gb)), Not(Eq(gb, sb)), Not(Eq(ga, sb))))
        which = c.choice('shape', 3)
        user = {FlowIR.LabelGlobal: {'a': ga, 'b': gb}, FlowIR.LabelStages: {0: {'b': sb}}}
        if which == 1:
            del user[FlowIR.LabelStages]
        if which == 2:
            del user[FlowIR.LabelGlobal]
        conc = Obj('concrete', platforms=[DEFAULT, 'plat'], get_stage_number=Extern('get_stage_number', lambda c: 2),
                   set_platform_stage_variable=Extern('set_platform_stage_variable',
                                                      lambda c, s, n, v, platform=None: c.ghost['sets'].append((platform, s, n, v))),
                   # the other setters of FlowIRConcrete (not used by the current code): a write through them lands in
                   # another scope and is recorded as such
                   set_platform_global_variable=Extern('set_platform_global_variable',
                                                       lambda c, n, v, platform=None: c.ghost['sets'].append((platform, 'GLOBAL', n, v))),
                   set_global_variable=Extern('set_global_variable', lambda c, n, v: c.ghost['sets'].append((DEFAULT, 'GLOBAL', n, v))),
                   set_stage_variable=Extern('set_stage_variable', lambda c, s, n, v: c.ghost['sets'].append((DEFAULT, s, n, v))))
        cls = Obj('cls', layer_many_variable_files=Extern('layer_many_variable_files', lambda c, files: user))
        errs = []
        return State(args=[cls, ['f1'], conc, errs], errs=errs, ga=ga, gb=gb, sb=sb, which=which)

    def real_function(self):
        fn = Target.real_function(self)
        return fn

    def ensures(self, c, st, out):
        sets = c.ghost['sets']
        want = {}
        for p in (DEFAULT, 'plat'):
            for s in (0, 1):
                d = {}
                if st.which != 2:
                    d.update({'a': st.ga, 'b': st.gb})
                if st.which != 1 and s == 0:
                    d['b'] = st.sb                       # stage-specific user value wins over the global user value
                for n, v in d.items():
                    want[(p, s, n)] = v
        got = {}
        for (p, s, n, v) in sets:
            got[(p, s, n)] = v                           # later set wins
        same = set(got) == set(want) and all(_identical(got[k], want[k]) for k in want)
        return [('no-error', out.kind == 'return' and not st.errs),
                ('user-variables-land-in-the-stage-scope-of-every-platform', same)]


def _identical(a, b):
    if isinstance(a, Sym) and isinstance(b, Sym):
        return bool(z3.eq(a.e, b.e))
    return a == b and type(a) is type(b)


class LayerManyVariableFiles(Target):
    prop = 'C04'
    name = 'FlowIRExperimentConfiguration.layer_many_variable_files'
    file = CF
    qualname = 'FlowIRExperimentConfiguration.layer_many_variable_files'
    trusted = ["FlowIR.override_object (assumed right-biased deep merge)", "read_user_variables returns the file's dictionary"]
    assumptions = ["<= 3 variable files"]

    def setup(self, c):
        n = c.choice('files', 4)
        files = ['file%d' % i for i in range(n)]
        c.ghost['merged'] = []
        c.ghost['agg_id'] = None

        def read(c, path, errs, flag):
            return {'from': path}
        cls = Obj('cls', read_user_variables=Extern('read_user_variables', read))
        return State(args=[cls, files], files=files)

    def externs(self, c, st):
        def override(c, agg, new):
            c.ghost['merged'].append(new.get('from'))
            agg['last'] = new.get('from')
            return agg
        return {'experiment.model.frontends.flowir.FlowIR.override_object': Extern('FlowIR.override_object', override)}

    def ensures(self, c, st, out):
        if out.kind == 'raise':
            return [('no-exception', False)]
        return [('files-are-layered-in-the-order-given', c.ghost['merged'] == st.files),
                ('the-last-file-wins', (out.value.get('last') == st.files[-1]) if st.files else ('last' not in out.value))]


class OverrideObjectBounded:
    """BOUNDED stand-in for the assumed contract of FlowIR.override_object (worklist + id(): outside the subset):
    exhaustive over dictionaries of depth <= 2 with keys {a, b} and leaves {1, 'x', None, [], {}} -- compared with the
    specification 'right-biased deep merge; None on the right keeps the left'."""
    name = 'override_object[bounded]'

    @staticmethod
    def spec(old, new):
        if isinstance(old, dict):
            new = new or {}
            if not isinstance(new, dict):
                raise TypeError
            out = dict(old)
            for k, v in new.items():
                out[k] = OverrideObjectBounded.spec(old[k], v) if k in old else v
            return out
        return new if new is not None else old

    def run(self, tier='quick', seed=0):
        import copy, json
        leaves = [1, 'x', None, [], {}]
        level1 = leaves + [dict(zip(ks, vs)) for n in (1, 2) for ks in itertools.combinations('ab', n)
                           for vs in itertools.product(leaves, repeat=n)]
        level2 = [dict(zip(ks, vs)) for n in (0, 1, 2) for ks in itertools.combinations('ab', n)
                  for vs in itertools.product(level1, repeat=n)]
        if tier == 'quick':
            level2 = level2[::7]
        bad, cases = [], 0
        for old in level2:
            for new in level2:
                cases += 1
                # tree-shaped inputs only (json round trip breaks the aliasing of the generator's shared leaves)
                old, new = json.loads(json.dumps(old)), json.loads(json.dumps(new))
                try:
                    want = self.spec(copy.deepcopy(old), copy.deepcopy(new))
                except TypeError:
                    continue
                try:
                    got = FlowIR.override_object(copy.deepcopy(old), copy.deepcopy(new))
                except Exception as err:
                    got = 'raised %s' % type(err).__name__
                if got != want:
                    bad.append({"what": "override_object(%r, %r) = %r, deep merge gives %r" % (old, new, got, want),
                                "replay": self._replay(old, new, got, want)})
                    if len(bad) > 2:
                        break
        return {"name": self.name, "bounded": True, "bound": "depth <= 2, keys {a,b}, leaves {1,'x',None,[],{}}",
                "cases": cases, "violations": bad[:3], "summary": "%d pairs, %d mismatches" % (cases, len(bad))}

    def _replay(self, old, new, got, want):
        import json, os
        p = os.path.join(os.path.dirname(os.path.dirname(os.path.abspath(__file__))), 'replays', 'C04')
        os.makedirs(p, exist_ok=True)
        f = os.path.join(p, 'override_object.json')
        json.dump({"property": "C04", "check": self.name, "old": repr(old), "new": repr(new), "got": repr(got),
                   "want": repr(want)}, open(f, 'w'), indent=1)
        return f


class InterpolationBounded:
    """BOUNDED stand-in for FlowIR.fill_in / interpolate: variable chains of length <= 4 over <= 4 names; a defined
    variable never survives as %(v)s, an undefined one raises FlowIRVariableUnknown (never left in place / replaced)."""
    name = 'fill_in[bounded]'

    def run(self, tier='quick', seed=0):
        import random
        rng = random.Random(seed)
        names = ['a', 'b', 'c', 'd']
        bad, cases = [], 0
        for _ in range(300 if tier == 'quick' else 5000):
            n = rng.randint(1, 4)
            order = rng.sample(names, n)
            variables = {}
            for i, v in enumerate(order):
                variables[v] = ('val-%s' % v) if i == n - 1 or rng.random() < 0.3 else 'pre-%%(%s)s-post' % order[i + 1]
            use = rng.choice(names)
            text = 'x %%(%s)s y' % use
            cases += 1
            try:
                got = FlowIR.fill_in(text, variables, flowir={}, label='lbl', is_primitive=True)
                outcome = ('value', got)
            except errors.FlowIRVariableUnknown:
                outcome = ('unknown', None)
            except Exception as err:
                outcome = ('other:%s' % type(err).__name__, None)
            if use in variables:
                ok = outcome[0] == 'value' and '%(' not in outcome[1] and outcome[1] == self.expand(text, variables)
            else:
                ok = outcome[0] == 'unknown'
            if not ok:
                bad.append({"what": "fill_in(%r, %r) -> %r" % (text, variables, outcome), "replay": self._replay(text, variables, outcome)})
                if len(bad) > 2:
                    break
        return {"name": self.name, "bounded": True, "bound": "chains <= 4 over names a..d", "cases": cases,
                "violations": bad[:3], "summary": "%d cases, %d mismatches" % (cases, len(bad))}

    @staticmethod
    def expand(text, variables):
        for _ in range(10):
            new = text
            for k, v in variables.items():
                new = new.replace('%%(%s)s' % k, v)
            if new == text:
                return new
            text = new
        return text

    def _replay(self, text, variables, outcome):
        import json, os
        p = os.path.join(os.path.dirname(os.path.dirname(os.path.abspath(__file__))), 'replays', 'C04')
        os.makedirs(p, exist_ok=True)
        f = os.path.join(p, 'fill_in.json')
        json.dump({"property": "C04", "check": self.name, "text": text, "variables": variables, "outcome": repr(outcome)},
                  open(f, 'w'), indent=1)
        return f


class ConvertTypesBounded:
    """BOUNDED stand-in (native) for FlowIR.convert_component_types ('typed options have their declared type'): every
    typed leaf of a fully populated component, written as the string a configuration file would hold, is converted back
    to a value of its type that equals the original; text that is not a number in a numeric option is rejected."""
    name = 'convert_component_types[bounded]'

    @staticmethod
    def leaves(d, pre=()):
        for k, v in d.items():
            if isinstance(v, dict) and v:
                yield from ConvertTypesBounded.leaves(v, pre + (k,))
            else:
                yield pre + (k,), v

    def run(self, tier='quick', seed=0):
        import copy, json, os
        full = FlowIR.inject_default_values_to_component({'name': 'c', 'stage': 0}, True)
        bad, cases = [], 0
        for route, default in self.leaves(full):
            if route[0] in ('name', 'stage', 'variables', 'references', 'executors', 'override') or isinstance(default, (list, dict)):
                continue
            if isinstance(default, bool):
                # the statement demands the declared TYPE; how a text such as 'no' maps to a boolean is not part of it
                # (options typed `bool` go through python's bool(): 'no' -> True; recorded in DESIGN 14.10, not a finding)
                samples = [(True, True), (False, False), (None, 'true'), (None, 'no')]
            elif isinstance(default, int):
                samples = [(7, '7'), (0, '0')]
            elif isinstance(default, float):
                samples = [(0.125, '0.125'), (3.0, '3')]
            else:
                continue
            for value, text in samples:
                cases += 1
                comp = copy.deepcopy(full)
                d = comp
                for k in route[:-1]:
                    d = d[k]
                d[route[-1]] = text
                try:
                    FlowIR.convert_component_types(comp)
                    got = comp
                    for k in route:
                        got = got[k]
                    if value is None:
                        ok = type(got) is bool
                    elif isinstance(value, bool):
                        ok = got is value
                    else:
                        # (the default's python type is not always the declared one, e.g. an int default of a float option)
                        ok = isinstance(got, (int, float)) and not isinstance(got, bool) and got == value
                    why = "converted to %r" % (got,)
                except Exception as err:
                    ok, why = False, "raised %s" % type(err).__name__
                if not ok:
                    bad.append({"what": "option %s written as %r: %s (expected %r)" % ('.'.join(route), text, why, value),
                                "replay": self._replay(route, text, why)})
            if isinstance(default, (int, float)) and not isinstance(default, bool):
                cases += 1
                comp = copy.deepcopy(full)
                d = comp
                for k in route[:-1]:
                    d = d[k]
                d[route[-1]] = 'not-a-number'
                try:
                    FlowIR.convert_component_types(comp)
                    bad.append({"what": "option %s='not-a-number' was accepted" % '.'.join(route), "replay": self._replay(route, 'not-a-number', 'accepted')})
                except Exception:
                    pass
        return {"name": self.name, "bounded": True, "bound": "every bool/int/float option of the default component, 2-3 spellings each",
                "cases": cases, "violations": bad[:3], "summary": "%d conversions, %d wrong" % (cases, len(bad))}

    def _replay(self, route, text, why):
        import json, os
        base = os.environ.get('PYVC_OUT') or os.path.dirname(os.path.dirname(os.path.abspath(__file__)))
        p = os.path.join(base, 'replays', 'C04')
        os.makedirs(p, exist_ok=True)
        f = os.path.join(p, 'convert_types.json')
        json.dump({"property": "C04", "check": self.name, "route": list(route), "text": text, "outcome": why,
                   "how": "FlowIR.convert_component_types on FlowIR.inject_default_values_to_component({...}, True) with this option"},
                  open(f, 'w'), indent=1)
        return f


# "The value of every option and variable ... equals the result of layering": a configuration answered from the cache after a
# layer was WRITTEN is part of that statement.  The variable setters and the cache protocol of C08 are therefore part of this
# check too (same contracts, same real code; see contracts/C08.py).
import contracts.C08 as _c08


def _shared(t):
    cls = type('C04_' + type(t).__name__, (type(t),), {'prop': 'C04'})
    o = cls.__new__(cls)
    o.__dict__.update(t.__dict__)
    return o


LAYER_WRITERS = [_shared(t) for t in _c08.MUTATORS if getattr(t, 'method', '') in (
    'set_global_variable', 'set_stage_variable', 'set_platform_global_variable', 'set_platform_stage_variable',
    'set_component_variable', 'set_component_option')] + [_shared(_c08.CacheProtocol())]

TARGETS = LAYER_WRITERS + [ComponentVariables(), InstanceVariables(), ConfigurationLayers(), PatchInVariableFiles(), LayerManyVariableFiles()]
LEMMAS = []
BOUNDED = [OverrideObjectBounded(), InterpolationBounded(), ConvertTypesBounded(), _c08.QueryFrameBounded()]
