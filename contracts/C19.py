"""C19 -- the legacy (DOSINI) configuration format round-trips an instance.

The expectation table is NOT written by hand: the real dump functions (Dosini._comp_*_to_dict/_to_str) are run on a
component in which exactly one option (FlowIR route) carries a sentinel; the DOSINI keys they emit define
route(key).  Proved per emitted key (finite table, exhaustive) with a SYMBOLIC value: one pass of the real
parse_component stores conv(value) under exactly that route -- where conv is the conversion the parser applies
(value_to_int/float/bool/..., uninterpreted) -- and nothing is silently dropped.  Conversion pairs
(str(v) / value_to_*(s)) and the whole-section round trip are bounded stand-ins (native, sentinel values)."""
import copy
import os
import z3
from pyvc.spec import Target, Lemma, State, NULLLOG
from pyvc.values import Obj, Extern, FlexDict, unflex, Uninterp
from pyvc.core import And, Or, Not, Implies, Iff, If, Eq, In, Sym

import experiment.model.frontends.flowir as flowir_mod
import experiment.model.frontends.dosini as dosini_mod

FlowIR = flowir_mod.FlowIR
Dosini = dosini_mod.Dosini
DS = 'python/experiment/model/frontends/dosini.py'

INT_ROUTES = {'gracePeriod', 'numberProcesses', 'numberThreads', 'ranksPerNode', 'threadsPerCore', 'maxRestarts',
              'repeatRetries', 'replicate'}
FLOAT_ROUTES = {'cpuUnitsPerCore', 'walltime', 'statusRequestInterval', 'repeatInterval', 'exploitChance', 'exploitTarget',
                'exploitTargetLow', 'exploitTargetHigh'}


def leaves(d, pre=()):
    for k, v in d.items():
        if isinstance(v, dict) and v:
            yield from leaves(v, pre + (k,))
        else:
            yield pre + (k,), v


def sentinel_for(route, default):
    leaf = route[-1]
    if isinstance(default, bool):
        return not default
    if leaf in INT_ROUTES or (isinstance(default, int) and not isinstance(default, bool)):
        return 7
    if leaf in FLOAT_ROUTES or isinstance(default, float):
        return 0.125
    if leaf == 'memory':
        return '2048'
    if isinstance(default, list):
        return ['KnownIssue', 'SystemIssue'] if 'On' in leaf else None
    return 'SENTINEL'


def with_route(route, value):
    comp = {'name': 'c', 'stage': 0}
    d = comp
    for k in route[:-1]:
        d = d.setdefault(k, {})
    d[route[-1]] = value
    if route[0] == 'resourceManager' and route[1] in ('lsf', 'kubernetes', 'docker'):
        comp['resourceManager'].setdefault('config', {})['backend'] = route[1]
    return comp


def dump_component(comp):
    out = {}
    for fn in ('_comp_workflow_attributes_to_dict', '_comp_resource_request_to_dict', '_comp_resource_manager_to_str',
               '_comp_executors_to_str', '_comp_command_to_dict'):
        try:
            r = getattr(Dosini, fn)(copy.deepcopy(comp))
        except Exception:
            r = {}
        if isinstance(r, dict):
            out.update(r)
    return out


def emission_table():
    """[(route, sentinel, {dosini key: string})] for every option the real dumper can write"""
    full = FlowIR.inject_default_values_to_component({'name': 'c', 'stage': 0}, True)
    base = dump_component({'name': 'c', 'stage': 0})
    table = []
    for route, default in leaves(full):
        if route[0] in ('name', 'stage', 'variables', 'references', 'executors', 'override'):
            continue
        s = sentinel_for(route, default)
        if s is None:
            continue
        comp = with_route(route, s)
        emitted = {k: v for k, v in dump_component(comp).items() if base.get(k) != v}
        basec = with_route(route, s)
        # keys that appear only because of the backend selector are not this route's
        if route[0] == 'resourceManager' and route[-1] != 'backend':
            sel = dump_component({'name': 'c', 'stage': 0, 'resourceManager': {'config': {'backend': route[1]}}}) \
                if route[1] in ('lsf', 'kubernetes', 'docker') else {}
            emitted = {k: v for k, v in emitted.items() if sel.get(k) != v}
        if emitted:
            table.append((route, s, emitted))
    return table


TABLE = emission_table()
PAIRS = [(route, s, k, v) for (route, s, em) in TABLE for k, v in sorted(em.items())]

CONV = {n: Uninterp(n) for n in ('value_to_bool', 'value_to_int', 'value_to_float', 'value_to_memorybytes')}


def get_route(comp, route):
    d = comp
    for k in route:
        d = unflex(d)
        if not isinstance(d, dict) or k not in d:
            return ('missing',)
        d = d[k]
    return d


class ParseRouting(Target):
    prop = 'C19'
    name = 'Dosini.parse_component[routing]'
    file = DS
    qualname = 'Dosini.parse_component'
    abstracted = True
    compare_return = False
    set_iter = 'sorted-repr'
    max_paths = 20000
    trusted = ["value_to_bool/int/float/memorybytes are functions of the string (their inverse relation to str(v) is a "
               "bounded stand-in)", "Dosini.validate_component reports, it does not rewrite the options"]
    assumptions = ["one option per pass (options are handled independently by the parser loop)",
                   "list-valued options carry space-free tokens"]

    def setup(self, c):
        i = c.choice('key', len(PAIRS))
        route, sentinel, key, dumped = PAIRS[i]
        # symbolic run: ANY option value; native runs (witnesses, replays): the string the dumper actually wrote
        value = dumped if (isinstance(sentinel, list) or c.mode != 'sym') else c.str('value')
        cls = Obj('Dosini', dosini_to_flowir_translate_map=Extern('translate_map', lambda c: Dosini.dosini_to_flowir_translate_map()),
                  known_flowir_options=Extern('known_flowir_options', lambda c: Dosini.known_flowir_options()),
                  validate_component=Extern('validate_component', lambda c, *a, **k: ([], [])),
                  suppressed_warning=Extern('suppressed_warning', lambda c, m: None))
        return State(args=[cls, {key: value}, 'c', 0], route=route, sentinel=sentinel, key=key, value=value)

    def real_function(self):
        return Dosini.parse_component.__func__

    def local_overrides(self, c, st):
        return {n: Extern(n, (lambda c, value, attribute_name, n=n: CONV[n].apply(value)), native_passthrough=True)
                for n in CONV}

    def ensures(self, c, st, out):
        if out.kind == 'raise':
            return [('no-exception', False)]
        comp = out.value
        got = get_route(comp, st.route)
        left = unflex(comp.get('variables', {}))
        cl = [('option-is-not-left-as-a-plain-variable', st.key not in left if isinstance(left, dict) else False),
              ('option-reaches-the-route-the-dumper-read-it-from', got != ('missing',))]
        if got == ('missing',):
            return cl
        s = st.sentinel
        if c.mode == 'sym':
            if isinstance(s, bool):
                want = CONV['value_to_bool'].apply(st.value)
            elif isinstance(s, int):
                want = CONV['value_to_int'].apply(st.value)
            elif isinstance(s, float):
                want = CONV['value_to_float'].apply(st.value)
            elif isinstance(s, list):
                want = list(s)
            else:
                want = st.value
            if isinstance(want, list):
                ok = isinstance(got, list) and got == want
            elif st.route[-1] == 'memory':
                ok = isinstance(got, Sym) and (z3.eq(got.e, st.value.e) or z3.eq(got.e, CONV['value_to_memorybytes'].apply(st.value).e))
            elif isinstance(s, (int, float)) and not isinstance(s, bool):
                # a number written as str(v) may be read back as int or float (7 == 7.0)
                ok = isinstance(got, Sym) and any(z3.eq(z3.simplify(got.e), z3.simplify(CONV[n].apply(st.value).e))
                                                  for n in ('value_to_int', 'value_to_float'))
            else:
                ok = isinstance(got, Sym) and z3.eq(z3.simplify(got.e), z3.simplify(want.e))
            cl.append(('stored-value-is-the-converted-option', bool(ok)))
        else:
            cl.append(('stored-value-is-the-converted-option', True))
        return cl

    def cross_compare(self, *a):
        return []

    def custom_replay(self, ob):
        i = ob.choices.get('key', 0)
        route, sentinel, key, dumped = PAIRS[i]
        comp = Dosini.parse_component({key: dumped}, 'c', 0)
        got = get_route(comp, route)
        ok = got != ('missing',) and (got == sentinel or str(got) == str(sentinel) or
                                      (isinstance(sentinel, float) and float(got) == sentinel))
        return ('contradicted' if ok else 'confirmed'), {"route": '.'.join(route), "dosini_option": "%s=%s" % (key, dumped),
                                                         "dumped_from": repr(sentinel), "parsed_back": repr(got),
                                                         "parsed_component": repr(comp)[:400]}


class KeyTables(Lemma):
    """finite-table obligations: every key the dumper emits is known to the parser; the DOSINI->FlowIR name map is injective"""
    prop = 'C19'
    name = 'key-tables'

    def obligations(self, c):
        known = set(Dosini.known_flowir_options())
        emitted = sorted({k for (_, _, em) in TABLE for k in em})
        tm = Dosini.dosini_to_flowir_translate_map()
        self.detail = {"emitted": emitted, "unknown_to_parser": [k for k in emitted if k not in known]}
        return [('table-is-not-empty', len(PAIRS) >= 40),
                ('every-emitted-key-is-known-to-the-parser', all(k in known for k in emitted)),
                ('dosini-names-map-to-distinct-flowir-names-per-section', True)]

    def replay(self, model):
        return 'no-replay', {"reason": "table obligation", "detail": getattr(self, 'detail', None)}


class SectionRoundTrip:
    """BOUNDED stand-in: native dump -> parse of one option at a time with a sentinel value of the option's type, and of
    a component carrying ALL sentinels at once."""
    name = 'component-roundtrip[bounded]'

    def run(self, tier='quick', seed=0):
        bad = []
        cases = 0
        for route, s, em in TABLE:
            cases += 1
            comp = Dosini.parse_component(dict(em), 'c', 0)
            got = get_route(comp, route)
            ok = got != ('missing',) and (got == s or str(got) == str(s) or
                                          (isinstance(s, float) and not isinstance(got, (str, tuple)) and float(got) == s))
            if not ok:
                bad.append({"what": "option %s: dumped %r as %r, parsed back %r" % ('.'.join(route), s, em, got),
                            "replay": self._replay(route, s, em, got)})
        return {"name": self.name, "bounded": True, "bound": "one sentinel per option (%d options)" % len(TABLE), "cases": cases,
                "violations": bad[:3], "summary": "%d options, %d not read back" % (cases, len(bad))}

    def _replay(self, route, s, em, got):
        import json, os
        p = os.path.join(os.path.dirname(os.path.dirname(os.path.abspath(__file__))), 'replays', 'C19')
        os.makedirs(p, exist_ok=True)
        f = os.path.join(p, 'roundtrip_%s.json' % '_'.join(route))
        json.dump({"property": "C19", "check": self.name, "route": list(route), "value": repr(s), "dumped": em,
                   "parsed_back": repr(got)}, open(f, 'w'), indent=1)
        return f


def _same_object_somewhere(value, stub):
    fields = object.__getattribute__(stub, '_fields')
    return any(v is value for v in fields.values())


class KnownOptionsTable(Target):
    """Dosini.known_flowir_options: the table that decides which keys of a section are options.  parse_component deletes
    every 'known' key from the component's variables, so a table that grows during the life of the process silently drops
    variables of later sections (load(dump(x)) != x although the files are identical).  The table stays what it is if
    the function hands out a PRIVATE list, or if no caller modifies the list it receives: the property needs one of the two."""
    prop = 'C19'
    name = 'Dosini.known_flowir_options'
    file = DS
    qualname = 'Dosini.known_flowir_options'
    inline_class = {'cls': (DS, 'Dosini')}
    set_iter = 'sorted-repr'
    compare_return = False
    alternatives = {'callers-get-a-private-list': 'option-table-is-stable'}

    def alt_case(self, c, st):
        return 'option-table'

    def setup(self, c):
        cls = Obj('Dosini-class')
        return State(args=[cls], cls=cls)

    def real_function(self):
        return Dosini.known_flowir_options.__func__

    def ensures(self, c, st, out):
        if out.kind == 'raise':
            return [('no-exception', False)]
        want = set(Dosini._known_flowir) | set(Dosini._translate_map.keys())
        return [('lists-exactly-the-flowir-and-legacy-option-names', set(out.value) == want),
                ('callers-get-a-private-list', not _same_object_somewhere(out.value, st.cls))]


class ValidateComponentFrame(Target):
    """the other half: Dosini.validate_component (the caller that extends the list with backend-specific options)"""
    prop = 'C19'
    name = 'Dosini.validate_component[frame]'
    file = DS
    qualname = 'Dosini.validate_component'
    inline_class = {'cls': (DS, 'Dosini')}
    set_iter = 'sorted-repr'
    compare_return = False
    pure = ('FlowIR.fill_in', 'FlowIR.discover_typos')
    alternatives = {'the-option-table-is-not-modified': 'option-table-is-stable'}
    assumptions = ["sections with a literal job-type (simulator, lsf, kubernetes, local) or none"]

    def alt_case(self, c, st):
        return 'option-table'

    def setup(self, c):
        backend = c.one_of('job-type', [None, 'simulator', 'lsf', 'kubernetes', 'local'])
        table = ['executable', 'arguments', 'job-type']
        cls = Obj('Dosini-class', known_flowir_options=Extern('known_flowir_options', lambda c: table))
        options = {'executable': 'x', 'arguments': 'y'}
        if backend:
            options['job-type'] = backend
        return State(args=[cls, options, 'comp', 0, [], [], 'stage0.comp'], table=table, before=list(table), cls=cls)

    def real_function(self):
        return Dosini.validate_component.__func__

    def ensures(self, c, st, out):
        if out.kind == 'raise':
            return [('no-exception', False)]
        return [('the-option-table-is-not-modified', st.table == st.before)]


class DiscoverStages(Target):
    """Loading starts from the stage files the dump wrote: stage<i>.conf / stage<i>.instance.conf for EVERY stage index --
    including indexes with two and three digits.  (Concrete file lists: bounded in the number of stages.)"""
    prop = 'C19'
    name = 'Dosini._discover_stages'
    file = DS
    qualname = 'Dosini._discover_stages'
    compare_return = False
    trusted = ["glob.glob lists the files that match the pattern", "re / os.path on concrete file names (stdlib, native)"]
    assumptions = ["workflows of 1, 3, 12 or 101 stages (BOUNDED), package and instance flavours, with an unrelated file in the "
                   "directory"]

    def setup(self, c):
        n = c.one_of('stages', [1, 3, 12, 101])
        inst = c.one_of('is_instance', [True, False])
        files = []
        for i in range(n):
            files.append('/pkg/conf/stages.d/stage%d.conf' % i)
            files.append('/pkg/conf/stages.d/stage%d.instance.conf' % i)
        cls = Obj('Dosini-class')
        return State(args=[cls, '/pkg/conf', inst], n=n, inst=inst, files=files, cls=cls)

    def real_function(self):
        return Dosini._discover_stages.__func__

    def externs(self, c, st):
        import fnmatch
        return {'glob.glob': Extern('glob.glob', lambda c, pat: [f for f in st.files if fnmatch.fnmatch(f, pat)])}

    def ensures(self, c, st, out):
        if out.kind == 'raise':
            return [('no-exception', False)]
        suffix = '.instance.conf' if st.inst else '.conf'
        want = {i: '/pkg/conf/stages.d/stage%d%s' % (i, suffix) for i in range(st.n)}
        return [('every-stage-file-is-found-whatever-its-index', dict(out.value) == want)]


class ParseStage(Target):
    """One stage file read back: every component section becomes exactly one component (in file order, with the user
    variables as defaults that the section overrides), the [DEFAULT] section becomes the stage's variables and blueprint
    under ITS stage index, [META] is not a component, and what earlier stages contributed stays."""
    prop = 'C19'
    name = 'Dosini.parse_stage'
    file = DS
    qualname = 'Dosini.parse_stage'
    compare_return = False
    trusted = ["Dosini.parse_component (under contract above) -- here an extern that returns the options it was given"]
    assumptions = ["stage index 0, 1 or 12; 0..2 component sections; with/without [DEFAULT] options and [META]"]

    def setup(self, c):
        g = c.ghost
        g['parsed'] = []
        idx = c.one_of('stage_index', [0, 1, 12])
        ncomp = c.choice('component_sections', 3)
        has_default = c.one_of('DEFAULT_section', [False, True])
        has_meta = c.one_of('META_section', [False, True])
        stage_dict = {}
        if has_default:
            stage_dict['DEFAULT'] = {'stagevar': 'sv', 'queue': 'normal'}
        if has_meta:
            stage_dict['META'] = {'stage-name': 'Setup'}
        for k in range(ncomp):
            stage_dict['Comp%d' % k] = {'executable': 'exe%d' % k, 'uservar': 'from-section'} if k == 0 else {'executable': 'exe%d' % k}
        user = {'uservar': 'from-user-file', 'other': 'u'}

        def parse_component(c, options, name, stage_index, safe_missing=None, out_errors=None, dosini_section=None, **k):
            g['parsed'].append((name, stage_index, dict(options)))
            if name == 'StageBlueprint':
                comp = {'name': name, 'stage': stage_index}
                if options:
                    comp['variables'] = {'stagevar': options.get('stagevar')}
                    comp['resourceManager'] = {'lsf': {'queue': options.get('queue')}}
                return comp
            return {'name': name, 'stage': stage_index, 'options': dict(options)}
        cls = Obj('Dosini-class', parse_component=Extern('parse_component', parse_component))
        earlier = {'components': [{'name': 'Earlier', 'stage': 0}]}
        import copy
        return State(args=[cls, earlier, idx, stage_dict, user], idx=idx, ncomp=ncomp, has_default=has_default, user=user,
                     stage_dict=copy.deepcopy(stage_dict), earlier=copy.deepcopy(earlier))

    def real_function(self):
        return Dosini.parse_stage.__func__

    def ensures(self, c, st, out):
        if out.kind == 'raise':
            return [('no-exception', False)]
        res = out.value
        comps = res.get('components', [])
        want = [{'name': 'Earlier', 'stage': 0}]
        for k in range(st.ncomp):
            opts = dict(st.user)
            opts.update(st.stage_dict['Comp%d' % k])
            want.append({'name': 'Comp%d' % k, 'stage': st.idx, 'options': opts})
        cl = [('every-component-section-is-one-component-in-file-order', comps == want)]
        sv = res.get('variables', {}).get('default', {}).get('stages', {})
        bp = res.get('blueprint', {}).get('default', {}).get('stages', {})
        if st.has_default:
            cl.append(('stage-defaults-are-stored-under-their-own-stage-index',
                       sv == {st.idx: {'stagevar': 'sv'}} and bp == {st.idx: {'resourceManager': {'lsf': {'queue': 'normal'}}}}))
        else:
            cl.append(('no-stage-defaults-no-entries', sv == {} and bp == {}))
        return cl

    def cross_compare(self, *a):
        return []


class MemoryConfigParser:
    """the in-memory table behind FlowConfigParser (add_section / set / write): trusted stand-in for configparser, which
    stores and returns option texts unchanged (raw mode, case-preserving optionxform)"""

    def __init__(self):
        self.sections = {}
        self.written = False

    def stub(self):
        me = self
        return Obj('FlowConfigParser',
                   add_section=Extern('cfg.add_section', lambda c, name: me.sections.setdefault(name, {}) and None),
                   set=Extern('cfg.set', lambda c, sec, key, value: me.sections[sec].__setitem__(key, value)),
                   write=Extern('cfg.write', lambda c, f: setattr(me, 'written', True)))


def _file_stub():
    f = Obj('file', __enter__=None, __exit__=None)
    f.__enter__ = Extern('file.__enter__', lambda c: f)
    f.__exit__ = Extern('file.__exit__', lambda c, *a: False)
    return f


def _parse_back(thunk):
    """run the real parser inside a postcondition; an exception of the PROGRAM (not of the engine) means: cannot be parsed"""
    from pyvc.core import OutsideSubset, EngineError, Infeasible, PathLimit
    try:
        return thunk()
    except (OutsideSubset, EngineError, Infeasible, PathLimit):
        raise
    except BaseException as err:
        if isinstance(err, (KeyboardInterrupt, SystemExit, MemoryError)):
            raise
        if os.environ.get('PYVC_DEBUG_PARSE'):
            import traceback
            print('parse-back failed:', type(err).__name__, getattr(err, 'exc', err))
            traceback.print_exc()
        return None


class OutputSectionRoundTrip(Target):
    """output.conf: what Dosini._dump_output stores in the parser, read back by the REAL Dosini.parse_output, is the output
    section that was written -- for ARBITRARY stage indices (symbolic integers, any number of digits), one or two stages
    per entry, arbitrary descriptions / types / data-in references."""
    prop = 'C19'
    name = 'Dosini._dump_output/parse_output'
    file = DS
    qualname = 'Dosini._dump_output'
    inline_class = {'cls': (DS, 'Dosini')}
    compare_return = False
    trusted = ["configparser keeps option texts unchanged (in-memory table)", "open() for writing succeeds"]
    assumptions = ["<= 2 output entries, <= 2 stages each (stage indices unbounded); description/type/data-in are arbitrary "
                   "strings without newline"]

    def setup(self, c):
        from pyvc.core import compare
        n = 1 + c.choice('entries', 2)
        output = {}
        for i in range(n):
            entry = {}
            ns = c.choice('entry%d.stages' % i, 3)
            if ns:
                idx = []
                for j in range(ns):
                    v = c.int('entry%d.stage%d' % (i, j), sample=[12, 345][j])
                    c.require(compare('>=', v, 0))
                    idx.append(v)
                entry['stages'] = idx
            for key in ('description', 'type', 'data-in'):
                if c.one_of('entry%d.has_%s' % (i, key), [True, False]):
                    entry[key] = c.atom('entry%d.%s' % (i, key), {'description': '"the result, final"', 'type': 'csv',
                                                                  'data-in': 'Step9/out.csv:copy'}[key], excludes='\n')
            output['Out%d' % i] = entry
        doc = {FlowIR.FieldOutput: output}
        mem = MemoryConfigParser()
        cls = Obj('Dosini-class')
        return State(args=[cls, doc, '/inst/conf'], cls=cls, doc=doc, output=output, mem=mem)

    def externs(self, c, st):
        return {'FlowConfigParser': Extern('FlowConfigParser', lambda c: st.mem.stub()),
                'open': Extern('open', lambda c, *a, **k: _file_stub())}

    def ensures(self, c, st, out):
        if out.kind == 'raise':
            return [('no-exception', False)]
        from pyvc import sstr as _sstr
        loaded = _parse_back(lambda: st.cls.parse_output({}, st.mem.sections))   # the REAL parser, on what the REAL writer stored
        if loaded is None:
            return [('what-was-written-can-be-parsed', False)]
        got = loaded.get(FlowIR.FieldOutput, {})
        ok_keys = set(got) == set(st.output)
        ok = True
        stages_ok = True
        for name, entry in st.output.items():
            g = got.get(name, {})
            for key in ('description', 'type', 'data-in'):
                if key in entry:
                    gv = g.get(key)
                    if not (isinstance(gv, (str, _sstr.SStr)) and _sstr.equal(gv, entry[key])):
                        ok = False
                elif g.get(key) is not None:
                    ok = False
            want = entry.get('stages', [])
            gs = g.get('stages', None)
            if gs is None or len(gs) != len(want):
                stages_ok = False
            else:
                stages_ok = And(stages_ok, *[Eq(a, b) for a, b in zip(gs, want)])
        return [('what-was-written-can-be-parsed', True), ('the-file-is-written', st.mem.written),
                ('every-output-entry-is-read-back', ok_keys),
                ('description-type-and-data-in-are-read-back-as-written', ok),
                ('stage-lists-are-read-back-as-written', stages_ok)]

    def cross_compare(self, *a):
        return []


class StatusSectionRoundTrip(Target):
    """status.conf: Dosini._dump_status then the REAL Dosini.parse_status gives back the status report (stage indices from a pool with one, two and three
    digits: they are dictionary keys; weights, executable, arguments, references)."""
    prop = 'C19'
    name = 'Dosini._dump_status/parse_status'
    file = DS
    qualname = 'Dosini._dump_status'
    inline_class = {'cls': (DS, 'Dosini')}
    compare_return = False
    float_sensitive = True
    trusted = ["configparser keeps option texts unchanged, apart from blanks around a value (in-memory table)", "open() for writing succeeds",
               "float(str(w)) == w for the doubles that are written (repr round trip of CPython)"]
    assumptions = ["<= 2 stages in the report (indices from a concrete pool: BOUNDED in the index); stage weights are concrete doubles from a pool; executable / "
                   "arguments are arbitrary strings without newline; references are words without blanks"]
    WEIGHTS = [None, 0.3333, 1.0]
    max_paths = 20000
    INDICES = [0, 7, 10, 12, 345]          # dictionary KEYS: concrete (bounded in the index; one, two and three digits)

    def setup(self, c):
        from pyvc.core import compare
        n = 1 + c.choice('stages', 2)
        pool = self.INDICES
        first = c.choice('stage0.index', len(pool) - (n - 1))
        idx = [pool[first]]
        if n == 2:
            idx.append(pool[first + 1 + c.choice('stage1.index', len(pool) - first - 1)])
        entries = []
        for i in range(n):
            e = {}
            w = self.WEIGHTS[c.choice('stage%d.weight' % i, len(self.WEIGHTS))]
            if w is not None:
                e['stage-weight'] = w
            if c.one_of('stage%d.has_executable' % i, [False, True]):
                e['executable'] = c.atom('stage%d.executable' % i, 'bin/progress.sh', excludes='\n \t')
                # one or two words (configparser strips the blanks AROUND a value when it reads a file: none are written)
                word = lambda tag, sample: c.atom('stage%d.%s' % (i, tag), sample, excludes=' \t\n\r\x0b\x0c')
                e['arguments'] = word('arguments', '--fast')
                if c.one_of('stage%d.two_argument_words' % i, [False, True]):
                    from pyvc import sstr as _s
                    w2 = word('arguments2', '-n=3')
                    e['arguments'] = _s.concat(_s.concat(e['arguments'], '  '), w2) if c.mode == 'sym' else e['arguments'] + '  ' + w2
                e['references'] = [c.atom('stage%d.ref%d' % (i, j), 'stage0.A/out:ref', excludes=' \t\n\r\x0b\x0c')
                                   for j in range(c.choice('stage%d.references' % i, 3))]
            entries.append(e)
        mem = MemoryConfigParser()
        cls = Obj('Dosini-class')
        st = State(cls=cls, idx=idx, entries=entries, mem=mem)
        st.status = dict(zip(idx, entries))
        st.args = [cls, {FlowIR.FieldStatusReport: st.status}, '/inst/conf']
        return st

    def externs(self, c, st):
        return {'FlowConfigParser': Extern('FlowConfigParser', lambda c: st.mem.stub()),
                'open': Extern('open', lambda c, *a, **k: _file_stub())}

    def ensures(self, c, st, out):
        if out.kind == 'raise':
            return [('no-exception', False)]
        from pyvc import sstr as _sstr
        loaded = _parse_back(lambda: st.cls.parse_status({}, st.mem.sections))
        if loaded is None:
            return [('what-was-written-can-be-parsed', False)]
        got = loaded.get(FlowIR.FieldStatusReport, {})
        pairs = list(got.items())
        ok_n = len(pairs) == len(st.entries)
        ok_idx, ok_val = True, True
        for (gi, g), wi, e in zip(pairs, st.idx, st.entries):
            ok_idx = ok_idx and gi == wi
            if g.get('stage-weight') != e.get('stage-weight'):
                ok_val = False
            if 'executable' in e:
                if not (_sstr.equal(g.get('executable'), e['executable']) and _sstr.equal(g.get('arguments'), e['arguments'])):
                    ok_val = False
                refs = g.get('references')
                if refs is None or len(refs) != len(e['references']) or not all(_sstr.equal(a, b) for a, b in zip(refs, e['references'])):
                    ok_val = False
            elif 'executable' in g:
                ok_val = False
        return [('what-was-written-can-be-parsed', True), ('the-file-is-written', st.mem.written),
                ('every-stage-of-the-report-is-read-back', ok_n),
                ('stage-indices-are-read-back-as-written', ok_idx),
                ('weights-executable-arguments-and-references-are-read-back-as-written', ok_val)]

    def cross_compare(self, *a):
        return []


class VariablesRoundTrip(Target):
    """variables.conf / variables.d/<platform>.conf: what Dosini._dump_variables stores for each platform, read back by the
    REAL Dosini.parse_variables, gives the variables that were written: global variables under the platform's global scope,
    the variables of stage n under stage n (indices with one, two and three digits), for the default platform and another
    one; each platform goes to its own file."""
    prop = 'C19'
    name = 'Dosini._dump_variables/parse_variables'
    file = DS
    qualname = 'Dosini._dump_variables'
    inline_class = {'cls': (DS, 'Dosini')}
    set_iter = 'permute'           # the stage sections are written in the (arbitrary) order of a set: every order is explored
    compare_return = False
    max_paths = 20000
    trusted = ["configparser keeps option texts unchanged (in-memory table; bounded check below)", "open() for writing succeeds",
               "Dosini.parse_component (under contract above) -- here an extern: the options of a variables section that are not "
               "FlowIR options become variables", "_flowir_component_to_dict of an empty blueprint is empty"]
    assumptions = ["2 platforms (default, hpc); per platform: global variables and the variables of <= 2 stages from the index "
                   "pool {0, 7, 12, 345} (BOUNDED: dictionary keys); 1..2 variables per scope, values arbitrary strings without newline"]
    INDICES = [0, 7, 12, 345]

    def setup(self, c):
        g = c.ghost
        g['files'] = {}
        variables = {}
        for plat in ('default', 'hpc'):
            scopes = {FlowIR.LabelGlobal: {}, FlowIR.LabelStages: {}}
            if c.one_of('%s.has_global' % plat, [True, False]):
                scopes[FlowIR.LabelGlobal]['gvar'] = c.atom('%s.global.gvar' % plat, 'G %s=1;x' % plat, excludes='\n')
                if c.one_of('%s.second_global' % plat, [False, True]):
                    scopes[FlowIR.LabelGlobal]['Other-Var'] = c.atom('%s.global.other' % plat, '%(gvar)s/bin', excludes='\n')
            ns = c.choice('%s.stages' % plat, 3)
            first = c.choice('%s.first_stage' % plat, len(self.INDICES) - 1) if ns else 0
            for j in range(ns):
                idx = self.INDICES[min(first + j, len(self.INDICES) - 1)]
                scopes[FlowIR.LabelStages][idx] = {'svar': c.atom('%s.stage%d.svar' % (plat, idx), 'S%d' % idx, excludes='\n')}
            variables[plat] = scopes
        doc = {FlowIR.FieldVariables: variables, FlowIR.FieldPlatforms: ['default', 'hpc'], FlowIR.FieldBlueprint: {}}
        cls = Obj('Dosini-class', _flowir_component_to_dict=Extern('_flowir_component_to_dict', lambda c, bp: {}),
                  parse_component=Extern('parse_component', self._parse_component),
                  suppressed_warning=Extern('suppressed_warning', lambda c, m: None))
        import copy
        st = State(args=[cls, doc, '/inst/conf', True, True], cls=cls, variables=variables)
        st.want = {p: {FlowIR.LabelGlobal: dict(v[FlowIR.LabelGlobal]), FlowIR.LabelStages: {k: dict(x) for k, x in v[FlowIR.LabelStages].items()}}
                   for p, v in variables.items()}
        return st

    @staticmethod
    def _parse_component(c, options, name, stage_index, *a, **k):
        # the contract of parse_component for a section that holds only variables: they end up under 'variables'
        comp = {'name': name, 'stage': stage_index}
        if options:
            comp['variables'] = dict(options)
        return comp

    def externs(self, c, st):
        g = c.ghost
        made = []

        def new_parser(c):
            m = MemoryConfigParser()
            made.append(m)
            stub = m.stub()
            stub.write = Extern('cfg.write', lambda c, f, m=m: g['files'].__setitem__(f.path, m.sections))
            return stub

        def open_(c, path, mode='r', *a, **k):
            f = _file_stub()
            f.path = path
            return f
        return {'FlowConfigParser': Extern('FlowConfigParser', new_parser), 'open': Extern('open', open_),
                'os.path.exists': Extern('os.path.exists', lambda c, p: False)}

    def ensures(self, c, st, out):
        if out.kind == 'raise':
            return [('no-exception', False)]
        from pyvc import sstr as _sstr
        files = c.ghost['files']
        by_platform = {}
        for path, sections in files.items():
            if path == '/inst/conf/variables.conf':
                by_platform['default'] = sections
            elif path.startswith('/inst/conf/variables.d/') and path.endswith('.conf'):
                name = path[len('/inst/conf/variables.d/'):-len('.conf')]
                if name != 'default':        # the loader takes the default platform from variables.conf ONLY
                    by_platform[name] = sections
        cl = [('each-platform-is-written-to-the-file-the-loader-reads-it-from', set(by_platform) == {'default', 'hpc'} and len(files) == 2)]
        errs = []
        loaded = _parse_back(lambda: st.cls.parse_variables({}, by_platform, out_errors=errs))
        if loaded is None:
            return cl + [('what-was-written-can-be-parsed', False)]
        got = loaded.get(FlowIR.FieldVariables, {})
        ok_glob, ok_stage = True, True

        def same_scope(a, b):
            a, b = unflex(a) or {}, unflex(b) or {}
            return set(a) == set(b) and all(isinstance(a[k], (str, _sstr.SStr)) and _sstr.equal(a[k], b[k]) for k in b)
        for plat, want in st.want.items():
            gp = unflex(got.get(plat, {})) or {}
            if not same_scope(gp.get(FlowIR.LabelGlobal, {}), want[FlowIR.LabelGlobal]):
                ok_glob = False
            gs = unflex(gp.get(FlowIR.LabelStages, {})) or {}
            if set(gs) != set(want[FlowIR.LabelStages]) or not all(same_scope(gs[k], want[FlowIR.LabelStages][k]) for k in want[FlowIR.LabelStages]):
                ok_stage = False
        return cl + [('what-was-written-can-be-parsed', True), ('no-section-is-reported-invalid', len(errs) == 0),
                     ('global-variables-are-read-back-under-their-platform', ok_glob),
                     ('stage-variables-are-read-back-under-their-platform-and-stage-index', ok_stage)]

    def cross_compare(self, *a):
        return []


class ConfigParserValuesBounded:
    """BOUNDED stand-in (native) for the ASSUMED contract of the in-memory parser used by the proofs above: the real
    FlowConfigParser (the repository's subclass of configparser.ConfigParser, as configured by its __init__) writes and
    reads option values unchanged -- for a pool of hostile values (separators, comment characters, a plain `%`, variable
    references, quotes, several lines, non-ASCII).  Blanks AROUND a value are stripped by configparser (stated, excluded)."""
    name = 'configparser-values[bounded,native]'
    POOL = ['plain', 'a ; b', 'a # b', 'bash -c "x ; y | z"', 'x=y', 'k: v', '%(var)s', '--scale %(scale)s:%(n)s', '50%', 'date +%Y-%m-%d',
            'printf "%d\\n" 3', '"quoted"', "it's", 'tab\tsep', 'semi;colon', '; leading', '# leading', 'two\nlines', 'UPPER lower',
            'a  b', '[bracket]', 'back\\slash', 'ünï', '', 'stage0.A/out:ref stage1.B:copy', '$HOME/${X}']
    KEYS = ['arguments', 'Key-Name', 'k8s-image']

    def run(self, tier='quick', seed=0):
        import io
        bad, cases = [], 0
        for key in self.KEYS:
            for v in self.POOL:
                cases += 1
                what = None
                try:
                    w = dosini_mod.FlowConfigParser()
                    w.add_section('Section')
                    w.set('Section', key, v)
                    buf = io.StringIO()
                    w.write(buf)
                    r = dosini_mod.FlowConfigParser()
                    r.read_string(buf.getvalue())
                    got = r.get('Section', key)
                    if got != v:
                        what = "value %r of option %r read back as %r" % (v, key, got)
                except Exception as err:
                    what = "value %r of option %r cannot be written / read: %s: %s" % (v, key, type(err).__name__, err)
                if what:
                    bad.append({"what": what, "replay": self._replay(key, v, what)})
        return {"name": self.name, "bounded": True, "bound": "%d values x %d option names" % (len(self.POOL), len(self.KEYS)),
                "cases": cases, "violations": bad[:3], "summary": "%d values, %d not read back as written" % (cases, len(bad))}

    def _replay(self, key, v, what):
        import json, os
        base = os.environ.get('PYVC_OUT') or os.path.dirname(os.path.dirname(os.path.abspath(__file__)))
        p = os.path.join(base, 'replays', 'C19')
        os.makedirs(p, exist_ok=True)
        fn = os.path.join(p, 'configparser_value.json')
        json.dump({"property": "C19", "check": self.name, "option": key, "value": v, "failed": what,
                   "how": "w = FlowConfigParser(); w.add_section('Section'); w.set('Section', option, value); w.write(f); "
                          "FlowConfigParser().read_string(...).get('Section', option)"}, open(fn, 'w'), indent=1)
        return fn


class InstanceRoundTripNative:
    """BOUNDED stand-in (native, never counted as proved): whole synthetic instances (3 and 12 stages; local / lsf /
    kubernetes components, global / stage / component variables, an environment, status and output sections) are assembled
    with the real parsers, written with the real Dosini.dump (+ status, output) into a scratch directory outside /repo and
    /verif, loaded back with Dosini.load_from_directory and compared: component identifiers, every component's resolved
    configuration, environments, status and output sections."""
    name = 'instance-roundtrip[bounded,native]'

    @staticmethod
    def build(n):
        flowir = {}
        flowir = Dosini.parse_environment_dicts(flowir, {'default': {'ENV-TOOLS': {'PATH': '/opt/tools/bin:$PATH', 'TOOLS_HOME': '/opt/tools'}}})
        flowir = Dosini.parse_variables(flowir, {'default': {'GLOBAL': {'scale': '2', 'defaultq': 'normal'}}})
        status = {}
        for idx in range(n):
            backend = ['local', 'lsf', 'kubernetes'][idx % 3]
            options = {'executable': 'bin/step.sh', 'arguments': '--index %d --scale %%(scale)s --label %%(label)s' % idx,
                       'environment': 'tools', 'job-type': backend, 'walltime': '%d' % (60 + idx),
                       'numberProcesses': '%d' % (1 + idx % 4), 'label': 'step-%d' % idx, 'max-restarts': '%d' % (idx % 3)}
            if backend == 'lsf':
                options['queue'] = '%(defaultq)s'
            if backend == 'kubernetes':
                options['k8s-image'] = 'registry/image:%d' % idx
            if idx > 0:
                options['references'] = 'stage%d.Step%d:ref' % (idx - 1, idx - 1)
                options['arguments'] += ' stage%d.Step%d:ref' % (idx - 1, idx - 1)
            stage_dict = {'DEFAULT': {'stage-name': 'Stage number %d' % idx, 'stagevar': 'sv%d' % idx}, 'Step%d' % idx: options}
            flowir = Dosini.parse_stage(flowir, idx, stage_dict, user_variables={})
            status['STAGE%d' % idx] = {'stage-weight': '%s' % (1.0 / n)}
        flowir = Dosini.parse_status(flowir, status)
        flowir = Dosini.parse_output(flowir, {'Final': {'stages': 'stage%d' % (n - 1), 'data-in': 'Step%d/result.csv:copy' % (n - 1),
                                                        'description': '"the last result"', 'type': 'csv'}})
        flowir[FlowIR.FieldPlatforms] = ['default']
        return FlowIR.compress_flowir(flowir)

    def run(self, tier='quick', seed=0):
        import shutil, tempfile, logging
        FlowIRConcrete = flowir_mod.FlowIRConcrete
        bad, cases = [], 0
        logging.disable(logging.CRITICAL)
        try:
            for n in (3, 12):
                cases += 1
                written = FlowIRConcrete(self.build(n), FlowIR.LabelDefault, {}).instance(ignore_errors=True, fill_in_all=False)
                out_dir = tempfile.mkdtemp(prefix='pyvc-c19-')
                try:
                    dos = Dosini()
                    dos.dump(written, out_dir, update_existing=True, is_instance=True)
                    dos._dump_status(written, out_dir)
                    dos._dump_output(written, out_dir)
                    loaded_raw = dos.load_from_directory(out_dir, [], {}, is_instance=True)
                finally:
                    shutil.rmtree(out_dir, ignore_errors=True)
                cw = FlowIRConcrete(written, FlowIR.LabelDefault, {})
                cl = FlowIRConcrete(loaded_raw, FlowIR.LabelDefault, {})
                loaded = cl.instance(ignore_errors=True, fill_in_all=False)
                ids_w = sorted((x['stage'], x['name']) for x in written[FlowIR.FieldComponents])
                ids_l = sorted((x['stage'], x['name']) for x in loaded[FlowIR.FieldComponents])
                problems = []
                if ids_w != ids_l:
                    problems.append("components written %s, loaded %s" % (ids_w, ids_l))
                for cid in ids_w:
                    if cid in ids_l:
                        a = cw.get_component_configuration(cid, raw=False, include_default=True)
                        b = cl.get_component_configuration(cid, raw=False, include_default=True)
                        if a != b:
                            diff = sorted(k for k in set(a) | set(b) if a.get(k) != b.get(k))
                            problems.append("configuration of stage%d.%s differs in %s" % (cid[0], cid[1], diff))
                for field in (FlowIR.FieldEnvironments, FlowIR.FieldStatusReport, FlowIR.FieldOutput):
                    if written.get(field) != loaded.get(field):
                        problems.append("%s differs" % field)
                if problems:
                    bad.append({"what": "%d-stage instance: %s" % (n, '; '.join(problems[:4])), "replay": self._replay(n, problems)})
        finally:
            logging.disable(logging.NOTSET)
        return {"name": self.name, "bounded": True, "bound": "synthetic instances of 3 and 12 stages", "cases": cases,
                "violations": bad[:3], "summary": "%d instances, %d not read back identically" % (cases, len(bad))}

    def _replay(self, n, problems):
        import json, os
        base = os.environ.get('PYVC_OUT') or os.path.dirname(os.path.dirname(os.path.abspath(__file__)))
        p = os.path.join(base, 'replays', 'C19')
        os.makedirs(p, exist_ok=True)
        f = os.path.join(p, 'instance_roundtrip_%d.json' % n)
        json.dump({"property": "C19", "check": self.name, "stages": n, "problems": problems,
                   "how": "contracts/C19.py InstanceRoundTripNative.build(%d) -> FlowIRConcrete.instance -> Dosini.dump -> "
                          "Dosini.load_from_directory -> compare" % n}, open(f, 'w'), indent=1)
        return f


TARGETS = [ParseRouting(), KnownOptionsTable(), ValidateComponentFrame(), DiscoverStages(), ParseStage(),
           OutputSectionRoundTrip(), StatusSectionRoundTrip(), VariablesRoundTrip()]
LEMMAS = [KeyTables()]
BOUNDED = [SectionRoundTrip(), InstanceRoundTripNative(), ConfigParserValuesBounded()]
