"""C13 -- a repeating observer sees its producers' final output and then stops.

Step contract of the closure RepeatingEngine.run.EngineTaskController (real source; time is symbolic, the
producers-finished flag is VOLATILE: another thread may set it between any two reads), the pacing closure
schedule_next_instance, notify_all_producers_finished; lemma: from the first step that sees the producers finished,
the observer kills itself after at most repeatRetries+1 further steps (induction over the step contract).
Wall-clock bounds and the Monitor thread loop are trusted."""
import datetime
import threading
import z3
from pyvc.spec import Target, Lemma, State, NULLLOG
from pyvc.values import Obj, Extern, Volatile, ModelValue, FlexDict
from pyvc.core import And, Or, Not, Implies, Iff, If, Eq, In, Sym, compare, binop, wrap, to_z3

import experiment.model.errors
import experiment.model.codes as codes

EN = 'python/experiment/runtime/engine.py'
T0 = datetime.datetime(2026, 1, 1)


class TimeVal(ModelValue):
    """a datetime, as symbolic seconds since T0"""

    def __init__(self, secs):
        self.secs = secs

    def _binop(self, op, other):
        if op == '-' and isinstance(other, TimeVal):
            return Delta(binop('-', self.secs, other.secs))
        raise NotImplementedError(op)


class Delta(ModelValue):
    def __init__(self, secs):
        self.secs = secs

    def call_method(self, it, name, args, kwargs):
        if name == 'total_seconds':
            return self.secs
        raise NotImplementedError(name)


def mk_time(c, secs):
    if c.mode == 'sym':
        return TimeVal(secs)
    return T0 + datetime.timedelta(seconds=float(secs))


class Clock:
    """datetime.datetime.now(): a monotone symbolic clock"""

    def __init__(self, c, start):
        self.c, self.last, self.n = c, start, 0
        self.times = []

    def now(self, c):
        t = c.real('t%d' % self.n)
        self.n += 1
        c.require(compare('>=', t, self.last))
        self.last = t
        self.times.append(t)
        c.event('now')
        return mk_time(c, t)


class TaskController(Target):
    prop = 'C13'
    name = 'RepeatingEngine.run.EngineTaskController'
    file = EN
    qualname = 'RepeatingEngine.run.EngineTaskController'
    max_paths = 100000
    float_sensitive = True
    trusted = ["threading / reactivex timers", "Job.producersHaveOutputSinceDate is exact", "the clock is monotone",
               "taskGenerator returns a task whose wait() returns after it exited"]
    assumptions = ["repeatRetries >= 0 (the schema accepts any int; a negative value never reaches 0)"]

    def setup(self, c):
        g = c.ghost
        g['kills'] = 0
        g['launches'] = 0
        g['pd_reads'] = []
        g['order'] = []
        g['new_output'] = []
        last_launched = c.real('lastLaunched')
        c.require(compare('>=', last_launched, 0))
        clock = Clock(c, last_launched)
        retries = c.int('repeatRetries')
        c.require(compare('>=', retries, 0))
        pd_state = {'v': c.bool('producers_finished@entry')}

        def read_pd():
            # volatile, monotone: once True stays True
            cur = pd_state['v']
            nxt = c.bool('producers_finished@read%d' % len(g['pd_reads']))
            c.require(Implies(cur, nxt))
            pd_state['v'] = nxt
            g.setdefault('first_pd', nxt)
            g['pd_reads'].append(nxt)
            g['order'].append('read-pd')
            return nxt
        consume0 = c.bool('consume@entry')
        has_producers = c.one_of('has_producers', [True, False])
        suicide = c.one_of('_suicide', [False, True])
        rc = c.int('returncode')

        def can_consume(c):
            v = c.bool('canConsume()')
            if c.choice('canConsume.raises', 2) == 1:
                c.raise_(experiment.model.errors.FilesystemInconsistencyError, 'fs', IOError('stale'))
            this._consume = Or(consume0, v)
            this.consume = this._consume
            return v

        def task_generator(c, job, outputFile=None, errorFile=None):
            g['launches'] += 1
            g['order'].append('launch')
            if c.choice('taskGenerator.raises', 2) == 1:
                c.raise_(RuntimeError, 'launch failed')
            return Obj('task', wait=Extern('Task.wait', lambda c: None), returncode=rc)

        def kill(c):
            g['kills'] += 1
        def new_output(c, since):
            v = c.bool('newOutput')
            g['new_output'].append(v)
            return v
        job = Obj('job', producersHaveOutputSinceDate=Extern('producersHaveOutputSinceDate', new_output),
                  producerInstances=['p'] if has_producers else [], executable='x', arguments='y',
                  workingDirectory=Obj('wd', directory='/inst/stages/stage0/c'))
        sd = {'repeatRetries': retries, 'numberTaskLaunches': 0}
        # the task of the PREVIOUS round is still referenced by the engine when this round starts
        prev = c.one_of('task_of_the_previous_round', ['none', 'succeeded', 'failed'])
        previous = None if prev == 'none' else Obj('previous-task', wait=Extern('Task.wait', lambda c: None),
                                                   returncode=0 if prev == 'succeeded' else 1)
        this = Obj('repeating-engine', log=NULLLOG, job=job, _suicide=suicide, kernelCompleted=False,
                   producer_recently_finished_successfully=True, _producers_are_finished=Volatile(read_pd),
                   lastLaunched=mk_time(c, last_launched), _stateDict=sd, _consume=consume0, consume=consume0,
                   canConsume=Extern('canConsume', can_consume), taskGenerator=Extern('taskGenerator', task_generator),
                   process=previous, emit_now=Extern('emit_now', lambda c: None), kill=Extern('kill', kill),
                   _perfData_initialize=Extern('pd1', lambda c, *a: 'perf'), _perfData_before_launch=Extern('pd2', lambda c, *a: 'perf'),
                   _perfData_launch_failed=Extern('pd3', lambda c, *a: 'perf'), _perfData_launch_succeeded=Extern('pd4', lambda c, *a: 'perf'),
                   _perfData_register=Extern('pd5', lambda c, *a: None))
        last_action = c.one_of('lastAction', [False, True])
        check = c.one_of('checkProducerOutput', [True, False])
        return State(args=[last_action], free={'self': this, 'checkProducerOutput': check}, this=this, sd=sd, retries=retries,
                     last_action=last_action, suicide=suicide, rc=rc, clock=clock, has_producers=has_producers, check=check,
                     last_launched=last_launched)

    def externs(self, c, st):
        return {'datetime.datetime': Obj('datetime-class', now=Extern('datetime.now', st.clock.now)),
                'archive_stream': Extern('archive_stream', lambda c, *a: None),
                'traceback.format_exc': Extern('format_exc', lambda c: 'tb')}

    def ensures(self, c, st, out):
        g = c.ghost
        if out.kind == 'raise':
            return [('no-exception', False)]
        this = st.this
        if st.last_action or st.suicide:
            return [('last-action-does-not-execute', g['launches'] == 0),
                    ('last-action-completes-the-kernel', this.kernelCompleted is st.last_action or this.kernelCompleted == st.last_action)]
        executed = g['launches'] == 1
        killed = g['kills'] >= 1
        r0, r1 = st.retries, st.sd['repeatRetries']
        # pd: the value of the flag read just BEFORE the launch time was taken (the last read of this step)
        reads = g['pd_reads']
        pd = reads[-1] if reads else False
        order = g['order']
        launched_after_last_read = ('launch' not in order) or (order.index('launch') > max(i for i, e in enumerate(order) if e == 'read-pd'))
        consume = this._consume
        cl = [
            ('at-most-one-execution-per-step', g['launches'] <= 1),
            # never executes before there is producer output it can consume
            ('executes-only-when-it-can-consume', Implies(executed, consume) if executed else True),
            ('producers-finished-is-sampled-before-the-launch', launched_after_last_read),
            ('stops-only-after-the-producers-finished', Implies(killed, pd) if killed else True),
            ('kills-itself-at-most-once', g['kills'] <= 1),
        ]
        # is there something new to look at?  the producers wrote since the last launch, or there are no producers, or the
        # producers are finished and the observer has already waited more than 20 s for their output to appear
        asked = g['new_output']
        if not st.check or not st.has_producers:
            is_new = True
        elif asked:
            is_new = asked[-1]
        else:
            waited = binop('-', st.clock.times[0], st.last_launched) if st.clock.times else 0
            is_new = And(g['first_pd'], compare('>', waited, 20)) if 'first_pd' in g else False
        cl += [('executes-only-when-there-is-new-output', Implies(executed, is_new) if executed else True),
               ('new-output-is-consumed', Implies(And(consume, is_new), executed))]
        if st.check and st.has_producers and st.clock.times and 'first_pd' in g:
            # lastLaunched is primed before the first execution, so "output since lastLaunched" may be false although the
            # final output was never looked at: once the producers are finished, 20 s of waiting force an execution
            waited0 = binop('-', st.clock.times[0], st.last_launched)
            cl.append(('runs-after-waiting-20s-for-finished-producers',
                       Implies(And(consume, g['first_pd'], compare('>', waited0, 20)), executed)))
        # "output since lastLaunched" is the question every poll asks: a poll that launches nothing must leave that date
        # alone, otherwise output written between this poll's look and its time stamp is never seen (seed C13r8)
        ll = this.lastLaunched
        if not executed:
            unchanged = Eq(ll.secs, st.last_launched) if isinstance(ll, TimeVal) else (ll == mk_time(c, st.last_launched))
            cl.append(('a-poll-that-launches-nothing-keeps-the-date-of-the-last-launch', unchanged))
        succeeded = And(executed, Eq(st.rc, 0)) if executed else False
        launch_ok = executed and 'taskGenerator.raises' in c.choices and c.choices['taskGenerator.raises'] == 0
        if launch_ok:
            cl.append(('stops-after-a-successful-execution-once-producers-finished', Implies(And(pd, Eq(st.rc, 0)), killed)))
        cl += [
            ('retries-untouched-while-producers-run', Implies(Not(pd), And(Eq(r1, r0), not killed))),
            ('a-failed-or-skipped-step-uses-one-retry',
             Implies(And(pd, not killed), And(Eq(r1, binop('-', r0, 1)), compare('>', r0, 0)))),
            ('stops-when-retries-are-used-up', Implies(And(pd, Eq(r0, 0)), killed)),
            ('retries-never-negative', compare('>=', r1, 0)),
            # ... not before: it stops only after a successful execution or when the configured retries are used up
            ('stops-only-after-success-or-when-retries-are-used-up',
             Implies(killed, Or(succeeded if launch_ok else False, Eq(r0, 0))) if killed else True),
        ]
        return cl

    def cross_compare(self, *a):
        return []


class MonitorIteration(Target):
    """One pass of the `while continueAction:` loop of monitor.CreateMonitor.Monitor (the statements of its try-block,
    extracted as a slice).  Once the cancel event is seen set, the action runs at most ONE more time -- with the
    argument True, and only when a last action was asked for -- and continueAction becomes False, so the loop ends; while
    the event is not set the action runs with the argument False.  (The engine's kill() sets this event; the last call
    is what marks the repeating kernel as completed.)"""
    prop = 'C13'
    name = 'monitor.CreateMonitor.Monitor[iteration]'
    file = 'python/experiment/runtime/monitor.py'
    qualname = 'CreateMonitor.Monitor'
    slice = ('if cancelEvent is not None and cancelEvent.is_set():', None, False)
    trusted = ["threading.Event.is_set / wait, time.sleep", "the polling interval function answers 'execute now' after finitely "
               "many polls (<= 2 explored)"]
    assumptions = ["the statements of the loop's try-block; exceptions leaving them are caught and logged by the enclosing "
                   "handler, which does not touch continueAction (read from the source, not verified)"]

    def setup(self, c):
        g = c.ghost
        g['actions'] = []
        g['polls'] = 0
        has_event = c.one_of('has_cancel_event', [True, False])
        set_at = c.one_of('cancel_set', ['at-entry', 'while-waiting', 'never']) if has_event else 'never'
        last_action = c.one_of('lastAction', [True, False])
        fails = c.one_of('action', ['ok', 'filesystem-error', 'other-error'])
        polls_needed = c.choice('polls_until_interval_elapsed', 3)
        dynamic = c.one_of('interval_is_a_function', [True, False])
        state = {'waiting': False}

        def is_set(c):
            return set_at == 'at-entry' or (set_at == 'while-waiting' and state['waiting'] and g['polls'] >= 1)

        def action(c, last):
            g['actions'].append(last)
            if fails == 'filesystem-error':
                c.raise_(experiment.model.errors.FilesystemInconsistencyError, 'fs', IOError('stale'))
            if fails == 'other-error':
                c.raise_(RuntimeError, 'boom')
        action_ext = Extern('action', action)
        action_ext.__name__ = 'EngineTaskController'

        def interval_fn(c, seconds):
            state['waiting'] = True
            g['polls'] += 1
            return g['polls'] > polls_needed
        event = Obj('event', is_set=Extern('Event.is_set', is_set), wait=Extern('Event.wait', lambda c, t: None)) if has_event else None
        env = {'cancelEvent': event, 'lastAction': last_action, 'action': action_ext, 'name': 'Monitor (x)',
               'interval': Extern('interval', interval_fn) if dynamic else 5.0, 'polling_time': 1.0,
               'continueAction': True, 'executeAction': True, 'errors_with_filesystem': c.one_of('fs_error_budget', [5, 0])}
        return State(kwargs=env, set_at=set_at, last_action=last_action, fails=fails, has_event=has_event, dynamic=dynamic)

    def externs(self, c, st):
        import datetime as _dt
        return {'time.sleep': Extern('time.sleep', lambda c, t: None),
                'datetime.datetime': Obj('datetime-class', now=Extern('now', lambda c: T0)),
                'traceback.format_exc': Extern('format_exc', lambda c: 'tb'),
                'sys.exc_info': Extern('sys.exc_info', lambda c: (None, None, None))}

    def ensures(self, c, st, out):
        acts = c.ghost['actions']
        env = st.env if hasattr(st, 'env') else {}
        cl = [('the-action-runs-at-most-once-per-pass', len(acts) <= 1)]
        if st.set_at == 'at-entry':
            cl += [('after-cancel-the-action-runs-only-as-last-action', acts == ([True] if st.last_action else [])),
                   ('after-cancel-the-loop-ends', env.get('continueAction') is False or out.kind == 'raise' and st.fails != 'ok')]
            if out.kind != 'raise':
                cl.append(('after-cancel-the-monitor-does-not-wait', c.ghost['polls'] == 0))
        else:
            cl += [('before-cancel-the-action-runs-as-a-regular-action', acts == [False]),
                   ('before-cancel-the-loop-continues', env.get('continueAction') is True or out.kind != 'return')]
        if out.kind == 'raise':
            cl.append(('only-a-failing-action-raises', st.fails != 'ok'))
        return cl

    def cross_compare(self, *a):
        return []


class ObserverWiring(Target):
    """'once ALL producers have finished': ComponentState.stageIn tells the repeating engine that its producers are done
    only when none of them is alive; otherwise it subscribes to the finished-notification of EVERY producer that is still
    alive -- also when two producers in different stages carry the same name."""
    prop = 'C13'
    name = 'ComponentState.stageIn[observer]'
    file = 'python/experiment/runtime/workflow.py'
    qualname = 'ComponentState.stageIn'
    inline_class = {'this': ('python/experiment/runtime/workflow.py', 'ComponentState')}
    compare_return = False
    trusted = ["reactivex.merge(*sources).pipe(...).subscribe(on_completed=f) calls f once every source has completed",
               "report_exceptions returns a wrapper of the callback"]
    assumptions = ["<= 2 producers (alive or not; possibly with the SAME name in different stages; possibly listed twice)"]

    def setup(self, c):
        import experiment.runtime.engine as engine_mod
        g = c.ghost
        g['merged'] = None
        g['notified'] = 0
        n = c.choice('producers', 3)
        same_name = c.one_of('same_name_in_two_stages', [False, True]) if n == 2 else False
        listed_twice = c.one_of('first_producer_listed_twice', [False, True]) if n >= 1 else False
        prods = []
        for i in range(n):
            alive = c.one_of('p%d.alive' % i, [True, False])
            name = 'foo' if same_name else 'prod%d' % i
            p = Obj('producer%d' % i, name=name, isAlive=Extern('isAlive', lambda c, alive=alive: alive),
                    notifyFinished='finished-of-stage%d.%s' % (i, name),
                    specification=Obj('spec', reference='stage%d.%s' % (i, name)))
            p._alive = alive
            prods.append(p)
        listing = list(prods) + ([prods[0]] if listed_twice else [])
        eng = Obj('engine', _cls=engine_mod.RepeatingEngine,
                  notify_all_producers_finished=Extern('notify_all_producers_finished', lambda c: g.__setitem__('notified', g['notified'] + 1)))
        this = Obj('ComponentState', engine=eng, producers=listing, _finishedCalled=False, log=NULLLOG,
                   specification=Obj('spec', reference='stage1.observer', workflowAttributes={'isRepeat': True}))
        return State(args=[this], kwargs={'stageData': False}, this=this, prods=prods)

    def externs(self, c, st):
        g = c.ghost
        chain = Obj('observable')
        g['ops'] = []

        def pipe(c, *ops):
            g['ops'].extend(ops)
            return chain
        chain.pipe = Extern('pipe', pipe)
        chain.subscribe = Extern('subscribe', lambda c, **k: 'disposable')

        def merge(c, *sources):
            g['merged'] = list(sources)
            return chain
        return {'reactivex.merge': Extern('reactivex.merge', merge),
                'op.observe_on': Extern('op.observe_on', lambda c, *a: ('observe_on',)), 'op.filter': Extern('op.filter', lambda c, *a: ('filter',)),
                # operators that END the merged stream early: the completion callback is what tells the engine
                'op.take': Extern('op.take', lambda c, n: ('take', n)), 'op.first': Extern('op.first', lambda c, *a: ('take', 1)),
                'op.take_while': Extern('op.take_while', lambda c, *a: ('take', 0)),
                'experiment.runtime.utilities.rx.report_exceptions': Extern('report_exceptions', lambda c, f, *a, **k: f),
                'ComponentState.componentScheduler': 'scheduler'}

    def ensures(self, c, st, out):
        if out.kind == 'raise':
            return [('no-exception', False)]
        g = c.ghost
        alive = [p.notifyFinished for p in st.prods if p._alive]
        merged = g['merged'] or []
        cl = [('told-at-once-only-when-no-producer-is-alive', (g['notified'] == 1) == (not alive)),
              ('waits-for-every-producer-that-is-still-alive', set(merged) == set(alive))]
        # the merged stream completes when every source has; an operator that completes it after k items (take) must not be
        # able to fire while a producer is still alive: every producer emits one item per time it was merged
        takes = [op[1] for op in g.get('ops', []) if isinstance(op, tuple) and op and op[0] == 'take']
        if takes and alive:
            import itertools
            k = min(takes)
            mult = {a: merged.count(a) for a in set(alive)}
            early = any(sum(mult[a] for a in sub) >= k for r in range(0, len(mult)) for sub in itertools.combinations(sorted(mult), r))
            cl.append(('the-stream-cannot-complete-while-a-producer-is-alive', not early))
        return cl

    def cross_compare(self, *a):
        return []


class ProducersProperty(Target):
    """ComponentState.producers, the list stageIn subscribes to: every instantiated component a reference of the observer
    resolves to -- AS THE GRAPH IS NOW.  The observer's own ComponentState may be created before its subject's (the order of
    Stage.jobs() is not defined): a second look after the subject has been instantiated must find it (no answer survives from
    an earlier look)."""
    prop = 'C13'
    name = 'ComponentState.producers'
    file = 'python/experiment/runtime/workflow.py'
    qualname = 'ComponentState.producers'
    inline_class = {'this': ('python/experiment/runtime/workflow.py', 'ComponentState')}
    compare_return = False
    trusted = ["DataReference.true_reference_to_component_id (graph lookup)", "weakref to a live ComponentState"]
    assumptions = ["2 references (subject of the same stage, producer of an earlier stage); each producer instantiated now, later, "
                   "or never (restart from a later stage)"]

    def setup(self, c):
        when = {n: c.one_of('%s.instantiated' % n, ['already', 'later', 'never']) for n in ('stage1.subject', 'stage0.early')}
        comps = {n: Obj('ComponentState:' + n) for n in when}
        nodes = {}
        for n in when:
            nodes[n] = {'component': Extern('weakref()', lambda c, n=n: comps[n])} if when[n] == 'already' else {}
        graph = Obj('nx', nodes=nodes)
        refs = [Obj('dataref', true_reference_to_component_id=Extern('true_reference_to_component_id', lambda c, g, cid=cid: [cid]))
                for cid in ((1, 'subject'), (0, 'early'))]
        this = Obj('observer', log=NULLLOG, graph=graph, workflowGraph='wg',
                   specification=Obj('spec', reference='stage1.observer', componentDataReferences=refs))
        return State(args=[this], this=this, when=when, comps=comps, nodes=nodes)

    def real_function(self):
        import experiment.runtime.workflow as wf
        return wf.ComponentState.producers.fget

    def externs(self, c, st):
        return {'traceback.print_exc': Extern('print_exc', lambda c: 'tb')}

    def ensures(self, c, st, out):
        if out.kind == 'raise':
            return [('no-exception', False)]
        first = list(out.value)
        want_now = [st.comps[n] for n in ('stage1.subject', 'stage0.early') if st.when[n] == 'already']
        cl = [('the-instantiated-producers-are-listed', len(first) == len(want_now) and all(a is b for a, b in zip(first, want_now)))]
        # the producers that are created after the observer ...
        for n in st.when:
            if st.when[n] == 'later':
                st.nodes[n]['component'] = Extern('weakref()', lambda c, n=n: st.comps[n])
        again = list(st.this.producers)             # ... the REAL property once more, on the same object
        want_later = [st.comps[n] for n in ('stage1.subject', 'stage0.early') if st.when[n] in ('already', 'later')]
        cl.append(('a-producer-instantiated-later-is-found-by-the-next-look',
                   len(again) == len(want_later) and all(a is b for a, b in zip(again, want_later))))
        return cl

    def cross_compare(self, *a):
        return []


class KillDelayExpires(Target):
    """'... or the configured kill delay expires': when the kill-after-producers-done timer fires (the closure `suicide`),
    the engine stops -- it is killed at once when no task is running, or the running task is killed (the controller step
    that launched it then kills the engine: the `elif self._suicide` arm of EngineTaskController, under contract above)."""
    prop = 'C13'
    name = 'RepeatingEngine.notify_all_producers_finished.suicide'
    file = EN
    qualname = 'RepeatingEngine.notify_all_producers_finished.suicide'
    trusted = ["Task.isAlive is True exactly while the task runs; Task.kill on a finished task has no effect"]
    assumptions = ["no task yet / a task that already finished (between two executions) / a running task"]

    def setup(self, c):
        g = c.ghost
        g['engine_killed'] = 0
        g['task_killed'] = 0
        task = c.one_of('task', ['none', 'finished', 'running'])
        proc = None if task == 'none' else Obj('task', isAlive=Extern('Task.isAlive', lambda c: task == 'running'),
                                                kill=Extern('Task.kill', lambda c: g.__setitem__('task_killed', g['task_killed'] + 1)),
                                                returncode=0 if task == 'finished' else None)
        this = Obj('repeating-engine', log=NULLLOG, process=proc, _suicide=False, kernelCompleted=False,
                   kill=Extern('kill', lambda c: g.__setitem__('engine_killed', g['engine_killed'] + 1)))
        return State(args=[], free={'self': this}, this=this, task=task)

    def ensures(self, c, st, out):
        if out.kind == 'raise':
            return [('no-exception', False)]
        g = c.ghost
        if st.task == 'running':
            return [('a-running-task-is-killed-and-the-engine-marked', g['task_killed'] == 1 and st.this._suicide is True)]
        return [('with-no-task-running-the-engine-is-stopped-at-once', g['engine_killed'] == 1 and st.this.kernelCompleted is True)]


class ExitReasonAndKill(Target):
    """'it then stops': kill() sets the monitor's cancel event (once); the engine counts as stopped (exitReason not None,
    isAlive False) exactly when the event is set and the kernel either never launched a task or completed its last call
    -- and never before kill() was called."""
    prop = 'C13'
    name = 'RepeatingEngine.kill/exitReason/isAlive'
    file = EN
    qualname = 'RepeatingEngine.kill'
    inline_class = {'this': (EN, 'RepeatingEngine')}
    compare_return = False
    trusted = ["threading.Event set/is_set"]
    assumptions = ["every combination of: cancel event already set, a task was launched, kernel completed, last task exhausted "
                   "its resources, a final restart in progress (lastExecution)"]

    def setup(self, c):
        g = c.ghost
        was_set = c.one_of('cancel_event_already_set', [False, True])
        ev = {'set': was_set, 'sets': 0}

        def set_(c):
            ev['set'] = True
            ev['sets'] += 1
        launched = c.one_of('a_task_was_launched', [False, True])
        completed = c.one_of('kernelCompleted', [False, True])
        exhausted = c.one_of('last_task_ResourceExhausted', [False, True]) if launched else False
        last_exec = c.one_of('lastExecution', [False, True])
        proc = Obj('task', exitReason=codes.exitReasons['ResourceExhausted'] if exhausted else codes.exitReasons['Success']) \
            if launched else None
        this = Obj('repeating-engine', log=NULLLOG, process=proc, kernelCompleted=completed, lastExecution=last_exec,
                   cancelMonitorEvent=Obj('event', is_set=Extern('Event.is_set', lambda c: ev['set']), set=Extern('Event.set', set_)))
        return State(args=[this], this=this, ev=ev, was_set=was_set, launched=launched, completed=completed, exhausted=exhausted,
                     last_exec=last_exec)

    def ensures(self, c, st, out):
        if out.kind == 'raise':
            return [('no-exception', False)]
        this = st.this
        reason = this.exitReason()             # the other REAL methods, on the state kill() left behind
        alive = this.isAlive()
        stopped_expected = (not st.last_exec) and st.ev['set'] and ((not st.launched) or st.completed)
        cl = [('kill-requests-the-monitor-to-stop', st.ev['set'] is True or st.last_exec),
              ('the-cancel-event-is-set-at-most-once', st.ev['sets'] <= (0 if st.was_set else 1)),
              ('stopped-exactly-when-cancelled-and-the-kernel-is-done', (reason is not None) == stopped_expected),
              ('alive-iff-no-exit-reason', alive == (reason is None))]
        if reason is not None:
            cl.append(('exit-reason-is-success-or-resource-exhausted',
                       reason == (codes.exitReasons['ResourceExhausted'] if st.exhausted else codes.exitReasons['Success'])))
        return cl

    def cross_compare(self, *a):
        return []


class ScheduleNextInstance(Target):
    prop = 'C13'
    name = 'RepeatingEngine.run.schedule_next_instance'
    file = EN
    qualname = 'RepeatingEngine.run.schedule_next_instance'
    float_sensitive = True

    def setup(self, c):
        waiting = c.real('seconds_waiting')
        c.require(compare('>=', waiting, 0))
        interval = c.real('repeatInterval')
        c.require(compare('>', interval, 0))
        fin = c.one_of('lastTaskFinishedDate', ['absent', None, lambda: c.real('finished_at')])
        nowv = c.real('now')
        sd = {}
        if fin != 'absent':
            sd['lastTaskFinishedDate'] = fin if fin is None else mk_time(c, fin)
            if fin is not None:
                c.require(compare('>=', nowv, fin))
        cancelled = c.one_of('cancelled', [False, True])
        pd = c.one_of('producers_finished', [False, True])
        this = Obj('repeating-engine', log=NULLLOG, nextRepeatInterval=Extern('nextRepeatInterval', lambda c: interval),
                   _stateDict=sd, cancelMonitorEvent=Obj('event', is_set=Extern('Event.is_set', lambda c: cancelled)),
                   _producers_are_finished=pd)
        return State(args=[waiting], free={'self': this}, waiting=waiting, fin=fin, nowv=nowv, interval=interval,
                     cancelled=cancelled, pd=pd)

    def externs(self, c, st):
        return {'datetime.datetime': Obj('datetime-class', now=Extern('datetime.now', lambda c: mk_time(c, st.nowv)))}

    def ensures(self, c, st, out):
        if out.kind == 'raise':
            return [('no-exception', False)]
        eff = st.waiting
        if st.fin not in ('absent', None):
            since = binop('-', st.nowv, st.fin)
            eff = If(compare('<', since, eff), since, eff)
        go = out.value
        return [('never-sooner-than-five-seconds-after-the-last-task', Implies(go, compare('>=', eff, 5)) if not isinstance(go, bool) or go else True),
                ('runs-at-once-when-cancelled-or-producers-finished',
                 Implies(And(compare('>=', eff, 5), st.cancelled or st.pd), go))]

    def cross_compare(self, *a):
        return []


class NotifyProducersFinished(Target):
    prop = 'C13'
    name = 'RepeatingEngine.notify_all_producers_finished'
    file = EN
    qualname = 'RepeatingEngine.notify_all_producers_finished'
    trusted = ["reactivex.timer fires its completion once after the delay"]

    def setup(self, c):
        c.ghost['timers'] = []
        die_after = c.one_of('_dieAfter', [None, 30])
        alive = c.one_of('isAlive', [True, False])
        this = Obj('repeating-engine', log=NULLLOG, _dieAfter=die_after, isAlive=Extern('isAlive', lambda c: alive),
                   _producers_are_finished=False, process=None, kill=Extern('kill', lambda c: None), kernelCompleted=False,
                   _suicide=False)
        return State(args=[this], this=this, die_after=die_after, alive=alive)

    def externs(self, c, st):
        def timer(c, delay):
            c.ghost['timers'].append(delay)
            return Obj('observable', subscribe=Extern('subscribe', lambda c, **k: None))
        return {'reactivex.timer': Extern('reactivex.timer', timer),
                'experiment.runtime.utilities.rx.report_exceptions': Extern('report_exceptions', lambda c, f, *a, **k: f),
                'CheckState': Extern('CheckState', lambda c, *a: None)}

    def ensures(self, c, st, out):
        if out.kind == 'raise':
            return [('no-exception', False)]
        timers = c.ghost['timers']
        return [('flag-is-set', st.this._producers_are_finished is True),
                ('kill-delay-is-armed-only-when-configured-and-alive',
                 (timers == [30]) if (st.die_after is not None and st.alive) else (timers == []))]


class BoundedStop(Lemma):
    """induction over the step contract (parametric in repeatRetries): once a step has seen the producers finished, every
    later non-final step either kills or uses one retry, and a step with no retries left kills: at most r+1 steps."""
    prop = 'C13'
    name = 'bounded-stop'
    assumptions = ["steps are the non-last, non-suicide calls of EngineTaskController; the flag is monotone"]

    def obligations(self, c):
        r0, r1, budget0, budget1 = c.int('retries'), c.int("retries'"), c.int('steps_left'), c.int("steps_left'")
        pd, killed = c.bool('pd'), c.bool('killed')
        step = And(Implies(And(pd, Not(killed)), And(r1 == r0 - 1, r0 > 0)), Implies(And(pd, r0 == 0), killed), r1 >= 0, r0 >= 0)
        # variant: steps_left = retries + 1 decreases on every pd step that does not kill
        return [('variant-decreases', Implies(And(step, pd, Not(killed), budget0 == r0 + 1, budget1 == r1 + 1),
                                              And(budget1 == budget0 - 1, budget1 >= 1))),
                ('no-retries-left-means-kill', Implies(And(step, pd, budget0 == r0 + 1, budget0 == 1), killed))]


TARGETS = [TaskController(), ScheduleNextInstance(), NotifyProducersFinished(), MonitorIteration(), ObserverWiring(), ProducersProperty(),
           KillDelayExpires(), ExitReasonAndKill()]
LEMMAS = [BoundedStop()]
