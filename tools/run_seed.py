#!/usr/bin/env python3
"""Run a property's quick check against a seeded change (seeded/<name>/patch.diff, or /tmp/wt-out/<name>/patch.diff while it
is being confirmed), on a scratch copy of /repo/python; records the outcome in seeded/<name>/check_result.json.
usage: run_seed.py Cxx [name]"""
import json, os, sys
sys.path.insert(0, os.path.dirname(os.path.dirname(os.path.abspath(__file__))))
from pyvc import mutants
prop = sys.argv[1]
name = sys.argv[2] if len(sys.argv) > 2 else prop
for base in ('/verif/seeded/%s' % name, '/tmp/wt-out/%s' % name):
    if os.path.exists(base + '/patch.diff'):
        break
r = mutants.run_one(prop, {"id": name, "patch": base + '/patch.diff', "why": "seeded change %s" % name}, keep_output=True)
print(json.dumps({k: v for k, v in r.items() if k != 'stdout_tail'}, indent=1))
print(r.get('stdout_tail', '')[-1200:])
if os.path.isdir('/verif/seeded/%s' % name):
    json.dump({k: v for k, v in r.items() if k != 'stdout_tail'}, open('/verif/seeded/%s/check_result.json' % name, 'w'), indent=1)
