#!/usr/bin/env python3
"""Apply a textual mutation to a file in /repo, run one property's check, restore the file.
usage: try_mutant.py PROP FILE 'old text' 'new text' [--only T]     (never leaves /repo modified)"""
import subprocess, sys, os
prop, rel, old, new = sys.argv[1:5]
extra = sys.argv[5:]
path = os.path.join('/repo', rel)
src = open(path).read()
if src.count(old) != 1:
    print("pattern occurs %d times" % src.count(old)); sys.exit(9)
try:
    open(path, 'w').write(src.replace(old, new))
    r = subprocess.run(['/verif/.venv/bin/python', '-m', 'pyvc.check', prop] + extra, cwd='/verif',
                       capture_output=True, text=True)
    lines = [l for l in r.stdout.split('\n') if l.startswith(('VIOLATION', 'CHECKER', 'UNDECIDED', '  failed', 'KNOWN', prop))]
    print('\n'.join(lines[:12])); print('exit', r.returncode)
    if r.returncode not in (0, 1): print(r.stderr[-1500:])
finally:
    open(path, 'w').write(src)
    subprocess.run(['git', '-C', '/repo', 'diff', '--stat'])
