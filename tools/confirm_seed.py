#!/usr/bin/env python3
"""Confirm a seeded change produced by a sub-agent, in a scratch worktree of /repo's HEAD:
   (1) patch applies, (2) demo FAILS with it, (3) demo PASSES without it, (4) the pinned baseline tests
   still pass with it (pytest -n 6).  Writes /verif/seeded/<id>/{patch.diff,demo.py,meta.json}.
usage: confirm_seed.py Cxx [name] [--no-tests]"""
import json, os, shutil, subprocess, sys, time
pid = sys.argv[1]
name = sys.argv[2] if len(sys.argv) > 2 and not sys.argv[2].startswith('--') else pid
src = '/tmp/wt-out/%s' % name
wt = '/tmp/confirm-%s' % name
run_tests = '--no-tests' not in sys.argv
def sh(cmd, **kw):
    return subprocess.run(cmd, shell=True, capture_output=True, text=True, **kw)
sh('git -C /repo worktree remove --force %s' % wt)
r = sh('git -C /repo worktree add -q --detach %s HEAD' % wt); assert r.returncode == 0, r.stderr
meta = {"property": pid, "name": name, "repo_head": sh('git -C /repo rev-parse --short HEAD').stdout.strip(), "ran": []}
try:
    env = dict(os.environ, PYTHONPATH=wt + '/python')
    demo = '/venv/bin/python %s/demo.py' % src
    r0 = sh(demo, env=env, cwd=wt); meta['demo_without_patch_exit'] = r0.returncode
    meta['ran'].append("PYTHONPATH=<scratch>/python " + demo + "   (without patch) -> exit %d" % r0.returncode)
    r = sh('git -C %s apply %s/patch.diff' % (wt, src)); meta['patch_applies'] = (r.returncode == 0)
    if r.returncode != 0:
        meta['apply_error'] = r.stderr[-500:]
    r1 = sh(demo, env=env, cwd=wt); meta['demo_with_patch_exit'] = r1.returncode
    meta['demo_with_patch_tail'] = (r1.stdout + r1.stderr)[-600:]
    meta['ran'].append("git apply patch.diff; " + demo + " -> exit %d" % r1.returncode)
    if run_tests and meta['patch_applies']:
        t = time.time()
        rt = sh('/venv/bin/python -m pytest -q -p no:cacheprovider --timeout=900 --continue-on-collection-errors -n 6 2>&1 | tail -n 12', env=env, cwd=wt)
        meta['tests_tail'] = rt.stdout[-900:]
        meta['tests_seconds'] = round(time.time() - t)
        meta['ran'].append("cd <scratch> && PYTHONPATH=<scratch>/python /venv/bin/python -m pytest -q -p no:cacheprovider --timeout=900 --continue-on-collection-errors -n 6")
    ok = meta['patch_applies'] and r0.returncode == 0 and r1.returncode != 0
    if run_tests:
        ok = ok and ' 294 passed' in meta.get('tests_tail', '')
    meta['confirmed'] = bool(ok)
    if os.path.exists(src + '/notes.md'):
        meta['needs_to_manifest'] = open(src + '/notes.md').read()[:1500]
    out = '/verif/seeded/%s' % name
    os.makedirs(out, exist_ok=True)
    shutil.copy(src + '/patch.diff', out + '/patch.diff'); shutil.copy(src + '/demo.py', out + '/demo.py')
    json.dump(meta, open(out + '/meta.json', 'w'), indent=1)
    print(json.dumps({k: meta[k] for k in meta if k not in ('needs_to_manifest',)}, indent=1)[:2500])
finally:
    sh('git -C /repo worktree remove --force %s' % wt)
