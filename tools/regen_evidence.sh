#!/bin/sh
# re-run every claimed check (quick tier) on /repo as it is, so that the committed evidence matches the committed tree
cd "$(dirname "$0")/.."
git -C /repo status --short | grep -q . && { echo "refusing: /repo has uncommitted changes"; exit 1; }
for p in $(python3 -c "import json; print(' '.join(c['property_id'] for c in json.load(open('MANIFEST.json'))['checks']))"); do
  VERIF_SEED=${VERIF_SEED:-1} .venv/bin/python -m pyvc.check $p --tier quick > /tmp/regen_$p.log 2>&1; echo "$p exit=$? $(tail -n 1 /tmp/regen_$p.log)"
done
