"""Discharging obligations: z3 (python API) first, /usr/bin/cvc5 and z3-new on the SMT-LIB dump for
anything z3 leaves unknown.  A timeout is `unknown`, never a verdict."""
import os
import shutil
import subprocess
import tempfile
import time
import z3

Z3_TIMEOUT_MS = int(os.environ.get('PYVC_Z3_TIMEOUT_MS', '20000'))
CLI_TIMEOUT_S = int(os.environ.get('PYVC_CLI_TIMEOUT_S', '10'))


def model_value(model, e):
    v = model.eval(e, model_completion=True)
    return z3_to_python(v)


def z3_to_python(v):
    if z3.is_true(v):
        return True
    if z3.is_false(v):
        return False
    if z3.is_int_value(v):
        return v.as_long()
    if z3.is_rational_value(v):
        return v.numerator_as_long() / v.denominator_as_long() if v.denominator_as_long() != 1 \
            else float(v.numerator_as_long())
    if z3.is_algebraic_value(v):
        return float(v.approx(20).as_fraction())
    if z3.is_string_value(v):
        return v.as_string()
    return str(v)


def smt2_of(pc, goal):
    s = z3.Solver()
    for p in pc:
        s.add(p)
    s.add(z3.Not(goal))
    return s.to_smt2()


_PRIMED = None


def _quote_primed(text):
    """z3 prints symbols such as  retries'  unquoted; cvc5 1.0 wants |retries'| (string literals untouched)"""
    global _PRIMED
    import re
    if "'" not in text:
        return text
    if _PRIMED is None:
        _PRIMED = re.compile(r"(?<![|\w.!$#'])([A-Za-z_][\w.!$#]*'+)(?![|\w'])")
    parts = text.split('"')
    for i in range(0, len(parts), 2):
        parts[i] = _PRIMED.sub(r'|\1|', parts[i])
    return '"'.join(parts)


def _run_cli(cmd, text, timeout):
    if cmd and 'cvc5' in cmd[0]:
        text = _quote_primed(text)
    with tempfile.NamedTemporaryFile('w', suffix='.smt2', delete=False, dir=os.environ.get('PYVC_TMP')) as f:
        f.write(text)
        path = f.name
    try:
        t = time.time()
        try:
            p = subprocess.run(cmd + [path], capture_output=True, text=True, timeout=timeout)
            out = (p.stdout or '').strip().split('\n')[0].strip()
        except subprocess.TimeoutExpired:
            out = 'timeout'
        return out, time.time() - t
    finally:
        os.unlink(path)


def check_valid(pc, goal, want_model=True, timeout_ms=None, use_cli=True):
    """Is  And(pc) => goal  valid?  returns (status, backend, seconds, model|None, solver_out)"""
    t0 = time.time()
    s = z3.Solver()
    s.set('timeout', timeout_ms or Z3_TIMEOUT_MS)
    for p in pc:
        s.add(p)
    s.add(z3.Not(goal))
    r = s.check()
    dt = time.time() - t0
    if r == z3.unsat:
        return 'discharged', 'z3-%s' % z3.get_version_string(), dt, None, 'unsat'
    if r == z3.sat:
        return 'refuted', 'z3-%s' % z3.get_version_string(), dt, s.model(), 'sat'
    reason = s.reason_unknown()
    if not use_cli:
        return 'unknown', 'z3', dt, None, 'unknown: %s' % reason
    text = s.to_smt2()
    outs = ['z3: unknown (%s)' % reason]
    if shutil.which('cvc5'):
        logic_free = text
        out, sec = _run_cli(['cvc5', '--strings-exp', '--tlimit=%d' % (CLI_TIMEOUT_S * 1000)], logic_free,
                            CLI_TIMEOUT_S + 5)
        outs.append('cvc5: %s' % out)
        if out == 'unsat':
            return 'discharged', 'cvc5', time.time() - t0, None, '; '.join(outs)
        if out == 'sat':
            return 'refuted', 'cvc5', time.time() - t0, None, '; '.join(outs)
    return 'unknown', 'z3+cvc5', time.time() - t0, None, '; '.join(outs)


SECOND_SPENT = 0.0                                            # seconds this process spent on second opinions
SECOND_BUDGET_S = float(os.environ.get('PYVC_SECOND_BUDGET_S', '90'))      # per worker process


def second_opinion(pc, goal):
    """thorough tier: re-check a discharged obligation with cvc5 on the SMT-LIB dump"""
    if not shutil.which('cvc5'):
        return 'skipped'
    global SECOND_SPENT
    if SECOND_SPENT > SECOND_BUDGET_S:
        return 'skipped-budget'
    text = smt2_of(pc, goal)
    limit = min(CLI_TIMEOUT_S, 4)
    out, dt = _run_cli(['cvc5', '--strings-exp', '--tlimit=%d' % (limit * 1000)], text, limit + 5)
    SECOND_SPENT += dt
    if out == '' or 'interrupted' in out:
        out = 'timeout'
    if out in ('sat', 'unsat'):
        return '%s (cvc5)' % out
    if out not in ('unknown', 'timeout'):
        if os.environ.get('PYVC_DEBUG_SECOND'):
            with open(os.path.join(os.environ['PYVC_DEBUG_SECOND'], 'fail%d.smt2' % (hash(text) % 100000)), 'w') as f:
                f.write(out + '\n' + text)
        out = 'cvc5-error'
    # cvc5 1.0 gives up on some string orderings that z3 decides: ask the OTHER z3 build (Debian 4.8.12, not the 5.1 wheel)
    if os.path.exists('/usr/bin/z3'):
        out2, dt = _run_cli(['/usr/bin/z3', '-T:%d' % limit], text, limit + 5)
        SECOND_SPENT += dt
        if out2 in ('sat', 'unsat'):
            return '%s (z3-4.8.12 after cvc5 %s)' % (out2, out)
    return 'no second opinion (cvc5 %s)' % out
