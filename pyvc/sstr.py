"""Structured strings (DESIGN 2.4): a symbolic string is a sequence of segments

    Lit(text)                      a literal
    Num(n)                         the canonical decimal numeral of a non-negative (symbolic) integer
    Atom(name, excludes, ...)      an arbitrary NON-EMPTY string over the complement of `excludes` (a set of characters),
                                   different from every literal in `distinct_from`, optionally with further declared
                                   facts (`first_not_digit`)

The string operations that the reference kernels use are evaluated structurally, with NO solver call: every rule below
is a theorem about all strings denoted by the segments (quantification over atoms/integers = no length bound).  Anything
a rule cannot decide raises OutsideSubset.  The rules are cross-checked against CPython on random concretisations
(tools: pyvc.sstr.selftest), and every explored path is replayed natively on a concretisation."""
import random
import re
import z3
from .core import Sym, OutsideSubset, PyRaise, ExcVal, py_raise, compare, wrap
from .values import ModelValue, Native

DIGITS = set('0123456789')


class Lit:
    __slots__ = ('text',)

    def __init__(self, text):
        self.text = text

    def __repr__(self):
        return 'Lit(%r)' % self.text


class Num:
    __slots__ = ('n',)

    def __init__(self, n):
        self.n = n            # python int or Sym int, >= 0

    def __repr__(self):
        return 'Num(%r)' % (self.n,)


class Atom:
    def __init__(self, name, excludes='', distinct_from=(), first_not_digit=False, sample=None):
        self.name = name
        self.excludes = set(excludes)
        self.distinct_from = set(distinct_from)
        self.first_not_digit = first_not_digit
        self.sample = sample          # concrete value used for native runs (set by the contract / model)
        self.resolved = None          # refinement decided on this path: the segments this atom stands for
        self.not_prefixes = set()     # refinement: literals this atom is known NOT to start with

    def refine_prefix(self, prefix):
        """case split  (does not start with prefix | is exactly prefix | prefix + non-empty rest), as a fork of the
        path; the refinement is recorded on the atom, which is shared by every string that contains it"""
        from .values import current_ctx
        from .core import Infeasible
        if prefix in self.not_prefixes:
            return False
        c = current_ctx()
        k = c.choice('refine:%s:startswith:%s' % (self.name, prefix), 3)
        if k == 0:
            self.not_prefixes.add(prefix)
            return False
        if any(ch in self.excludes for ch in prefix) or (self.first_not_digit and prefix[0] in DIGITS) or \
                any(prefix.startswith(p) for p in self.not_prefixes):
            raise Infeasible()
        if k == 1:
            if prefix in self.distinct_from:
                raise Infeasible()
            self.resolved = [Lit(prefix)]
            self.sample = prefix
            return True
        rest = Atom(self.name + "'", self.excludes, (), False, '2')
        if getattr(self, 'not_stage_prefixed', False) and prefix == 'stage':
            rest.first_not_digit = True
            rest.sample = 'x'
        self.resolved = [Lit(prefix), rest]
        self.sample = prefix + rest.sample
        return True

    def __repr__(self):
        return 'Atom(%s)' % self.name


def _same_num(a, b):
    if isinstance(a, int) and isinstance(b, int):
        return a == b
    if isinstance(a, Sym) and isinstance(b, Sym) and z3.eq(z3.simplify(a.e), z3.simplify(b.e)):
        return True
    # equality entailed by the path condition (e.g. decided earlier by a fork)
    from .values import _CURRENT
    from .core import to_z3
    c = _CURRENT[0]
    if c is not None and getattr(c, 'mode', None) == 'sym':
        try:
            if not c.feasible(to_z3(a) != to_z3(b)):
                return True
        except Exception:
            pass
    return None


class SStr(ModelValue):
    def __init__(self, segs):
        raw = []
        for s in segs:
            if isinstance(s, str):
                s = Lit(s)
            if isinstance(s, SStr):
                raw.extend(s._raw)
                continue
            raw.append(s)
        self._raw = raw

    @property
    def segs(self):
        """segments with refined atoms expanded and adjacent literals merged"""
        out = []

        def emit(x):
            if isinstance(x, Atom) and x.resolved is not None:
                for y in x.resolved:
                    emit(y)
            else:
                self._push(out, x)
        for s in self._raw:
            emit(s)
        return out

    @staticmethod
    def _push(out, s):
        if isinstance(s, Lit):
            if s.text == '':
                return
            if out and isinstance(out[-1], Lit):
                out[-1] = Lit(out[-1].text + s.text)
                return
        out.append(s)

    def __repr__(self):
        return 'SStr(%s)' % ' + '.join(map(repr, self.segs))

    # ---------------------------------------------------------------- basic facts
    def is_literal(self):
        return all(isinstance(s, Lit) for s in self.segs)

    def literal(self):
        return ''.join(s.text for s in self.segs)

    def nonempty(self):
        return len(self.segs) > 0          # every segment denotes a non-empty string

    def may_contain(self, ch, seg):
        if isinstance(seg, Lit):
            return ch in seg.text
        if isinstance(seg, Num):
            return ch in DIGITS
        return ch not in seg.excludes

    def must_contain(self, ch, seg):
        return isinstance(seg, Lit) and ch in seg.text

    # ---------------------------------------------------------------- ModelValue protocol
    def _binop(self, op, other):
        if op == '+':
            return concat(self, other)
        if op == '%':
            raise OutsideSubset("structured string used as a format")
        raise OutsideSubset("operator %s on a structured string" % op)

    def _rbinop(self, op, other):
        if op == '+':
            return concat(other, self)
        if op == '%' and isinstance(other, str):
            return percent_format(other, self)
        raise OutsideSubset("operator %s on a structured string" % op)

    def _compare(self, op, other):
        if op in ('==', '!='):
            r = equal(self, other)
            return r if op == '==' else (not r)
        raise OutsideSubset("ordering of structured strings")

    def _rcompare(self, op, other):
        return self._compare(op, other)

    def call_method(self, it, name, args, kwargs):
        m = getattr(self, 'm_' + name, None)
        if m is None:
            raise OutsideSubset("str.%s on a structured string" % name)
        return m(it, *args, **kwargs)

    # ---------------------------------------------------------------- methods
    def m_startswith(self, it, prefix):
        if isinstance(prefix, tuple):
            return any(self.m_startswith(it, p) for p in prefix)
        if not isinstance(prefix, str):
            raise OutsideSubset("startswith(non-literal)")
        if prefix == '':
            return True
        if not self.segs:
            return False
        first = self.segs[0]
        if isinstance(first, Lit):
            if len(first.text) >= len(prefix):
                return first.text.startswith(prefix)
            if not prefix.startswith(first.text):
                return False
            rest = SStr(self.segs[1:])
            return rest.m_startswith(it, prefix[len(first.text):])
        if isinstance(first, Num):
            if prefix[0] not in DIGITS:
                return False
            raise OutsideSubset("startswith(%r) on a numeral" % prefix)
        if prefix[0] in first.excludes:
            return False
        if first.first_not_digit and prefix[0] in DIGITS:
            return False
        if any(ch in first.excludes for ch in prefix):
            return False
        return first.refine_prefix(prefix)

    def m_find(self, it, ch):
        """only the -1 / not -1 distinction is modelled: returns -1 or a symbolic non-negative position token"""
        if isinstance(ch, SStr) or (isinstance(ch, str) and len(ch) != 1):
            from .replace import occurs
            return FoundIndex() if occurs(it, self, ch) else -1
        if any(self.must_contain(ch, s) for s in self.segs):
            return FoundIndex()
        if not any(self.may_contain(ch, s) for s in self.segs):
            return -1
        raise OutsideSubset("find(%r) is not determined on %r" % (ch, self))

    def m_split(self, it, sep=None, maxsplit=-1):
        if sep is None and maxsplit == -1:
            # split on runs of whitespace: decided when no arbitrary part can hold whitespace
            WSP = ' \t\n\r\x0b\x0c'
            words, cur = [], []
            for s in self.segs:
                if isinstance(s, Lit):
                    buf = ''
                    for ch in s.text:
                        if ch in WSP:
                            if buf:
                                cur.append(Lit(buf))
                                buf = ''
                            if cur:
                                words.append(SStr(cur))
                                cur = []
                        else:
                            buf += ch
                    if buf:
                        cur.append(Lit(buf))
                elif isinstance(s, Num):
                    cur.append(s)
                else:
                    if any(self.may_contain(ch, s) for ch in WSP):
                        raise OutsideSubset("split(): %r may contain whitespace" % s)
                    cur.append(s)
            if cur:
                words.append(SStr(cur))
            return [simplify(w) for w in words]
        if not (isinstance(sep, str) and len(sep) == 1):
            raise OutsideSubset("split with this separator")
        parts, cur, done = [], [], 0
        for idx, s in enumerate(self.segs):
            finished = maxsplit != -1 and done >= maxsplit
            if isinstance(s, Lit):
                text = s.text
                while True:
                    if maxsplit != -1 and done >= maxsplit:
                        cur.append(Lit(text))
                        break
                    i = text.find(sep)
                    if i < 0:
                        cur.append(Lit(text))
                        break
                    cur.append(Lit(text[:i]))
                    parts.append(SStr(cur))
                    cur = []
                    done += 1
                    text = text[i + 1:]
            else:
                if not finished and self.may_contain(sep, s):
                    raise OutsideSubset("split(%r): %r may contain the separator" % (sep, s))
                cur.append(s)
        parts.append(SStr(cur))
        return [simplify(p) for p in parts]

    def m_rsplit(self, it, sep=None, maxsplit=-1):
        if maxsplit == -1:
            return self.m_split(it, sep)
        parts = self.m_split(it, sep)
        if len(parts) <= maxsplit + 1:
            return parts
        head = parts[:len(parts) - maxsplit]
        joined = []
        for i, p in enumerate(head):
            if i:
                joined.append(Lit(sep))
            joined.append(p if isinstance(p, SStr) else Lit(p))
        return [simplify(SStr(joined))] + parts[len(parts) - maxsplit:]

    def m_lower(self, it):
        if any(isinstance(x, Atom) for x in self.segs):
            raise OutsideSubset("lower() of a structured string with an arbitrary part")
        return simplify(SStr([Lit(x.text.lower()) if isinstance(x, Lit) else x for x in self.segs]))

    def getitem(self, k):
        """s[n:] when the first n characters are literal text"""
        if isinstance(k, slice) and isinstance(k.start, int) and k.start >= 0 and k.stop is None and k.step is None:
            segs = self.segs
            if k.start == 0:
                return self
            if segs and isinstance(segs[0], Lit) and len(segs[0].text) >= k.start:
                return simplify(SStr([Lit(segs[0].text[k.start:])] + segs[1:]))
        raise OutsideSubset("subscript %r of a structured string" % (k,))

    def m___contains__(self, it, sub):
        return contains_char(self, sub)

    def m_rstrip(self, it, chars=None):
        # decided when the string ends with an atom / numeral that cannot hold any of the characters, or with a literal
        # that does not end with one of them; anything else is outside the subset
        if chars is None:
            chars = ' \t\n\r\x0b\x0c'
        if not isinstance(chars, str):
            raise OutsideSubset("rstrip with structured characters")
        segs = self.segs
        if not segs:
            return self
        last = segs[-1]
        if isinstance(last, Lit):
            if last.text[-1] not in chars:
                return self
            stripped = last.text.rstrip(chars)
            if stripped:
                return simplify(SStr(segs[:-1] + [Lit(stripped)]))
            return simplify(SStr(segs[:-1])).m_rstrip(it, chars) if len(segs) > 1 else ''
        if isinstance(last, Num):
            if not (set(chars) & set(DIGITS)):
                return self
        elif not any(self.may_contain(ch, last) for ch in chars):
            return self
        raise OutsideSubset("rstrip(%r) of %r is not determined" % (chars, self))

    def m_lstrip(self, it, chars=None):
        # mirror image of rstrip: decided when the string starts with an atom / numeral that cannot hold any of the
        # characters, or with a literal that does not start with one of them
        if chars is None:
            chars = ' \t\n\r\x0b\x0c'
        if not isinstance(chars, str):
            raise OutsideSubset("lstrip with structured characters")
        segs = self.segs
        if not segs:
            return self
        first = segs[0]
        if isinstance(first, Lit):
            if first.text[0] not in chars:
                return self
            stripped = first.text.lstrip(chars)
            if stripped:
                return simplify(SStr([Lit(stripped)] + segs[1:]))
            return simplify(SStr(segs[1:])).m_lstrip(it, chars) if len(segs) > 1 else ''
        if isinstance(first, Num):
            if not (set(chars) & set(DIGITS)):
                return self
        elif not any(self.may_contain(ch, first) for ch in chars):
            return self
        raise OutsideSubset("lstrip(%r) of %r is not determined" % (chars, self))

    def m_strip(self, it, chars=None):
        r = self.m_rstrip(it, chars)
        if isinstance(r, str):
            return r.lstrip(chars)
        return r.m_lstrip(it, chars)

    def m_replace(self, it, old, new, *count):
        from .replace import replace_all
        return replace_all(it, self, old, new, *count)


class FoundIndex(ModelValue):
    """result of find() when the character certainly occurs: only comparisons with -1 are meaningful"""

    def _compare(self, op, other):
        if other == -1:
            return {'==': False, '!=': True, '>': True, '>=': True, '<': False, '<=': False}[op]
        raise OutsideSubset("position of a character in a structured string")

    _rcompare = _compare


def simplify(s):
    """a structured string that is a pure literal becomes a python str"""
    if isinstance(s, SStr) and s.is_literal():
        return s.literal()
    return s


def lift(v):
    if isinstance(v, SStr):
        return v
    if isinstance(v, str):
        return SStr([Lit(v)])
    if isinstance(v, bool):
        return SStr([Lit(str(v))])
    if isinstance(v, int):
        return SStr([Lit(str(v))])
    if isinstance(v, Sym) and v.kind == 'int':
        return SStr([Num(v)])
    if v is None:
        return SStr([Lit('None')])
    raise OutsideSubset("cannot make a structured string of %r" % (v,))


def concat(a, b):
    return simplify(SStr(lift(a).segs + lift(b).segs))


_FMT = re.compile(r'%(?:\((\w+)\))?([sdi%])')


def percent_format(fmt, args):
    if not isinstance(args, tuple):
        args = (args,)
    segs, pos, ai = [], 0, 0
    for m in _FMT.finditer(fmt):
        if '%' in fmt[pos:m.start()]:
            raise OutsideSubset("format %r" % fmt)
        segs.append(Lit(fmt[pos:m.start()]))
        pos = m.end()
        if m.group(2) == '%':
            segs.append(Lit('%'))
            continue
        if m.group(1) is not None:
            raise OutsideSubset("mapping format with structured strings")
        if ai >= len(args):
            py_raise(TypeError, "not enough arguments for format string")
        v = args[ai]
        ai += 1
        if m.group(2) in 'di':
            if isinstance(v, (SStr, str)):
                py_raise(TypeError, "%d format: a real number is required, not str")
            if v is None:
                py_raise(TypeError, "%d format: a real number is required, not NoneType")
        segs.extend(lift(v).segs)
    if '%' in fmt[pos:]:
        raise OutsideSubset("format %r" % fmt)
    segs.append(Lit(fmt[pos:]))
    if ai != len(args):
        py_raise(TypeError, "not all arguments converted during string formatting")
    return simplify(SStr(segs))


def has_sstr(v, depth=0):
    if isinstance(v, SStr):
        return True
    if depth < 3 and isinstance(v, (tuple, list)):
        return any(has_sstr(x, depth + 1) for x in v)
    return False


def equal(a, b):
    """structural equality; raises OutsideSubset when the segments do not determine it"""
    if not isinstance(a, (SStr, str)) or not isinstance(b, (SStr, str)):
        return False
    A, B = lift(a), lift(b)
    sa, sb = A.segs, B.segs
    # identical structure
    if len(sa) == len(sb):
        same = True
        for x, y in zip(sa, sb):
            if isinstance(x, Lit) and isinstance(y, Lit):
                if x.text != y.text:
                    same = None
                    break
            elif isinstance(x, Atom) and isinstance(y, Atom):
                if x is not y:
                    same = None
                    break
            elif isinstance(x, Num) and isinstance(y, Num):
                r = _same_num(x.n, y.n)
                if r is not True:
                    same = None
                    break
            else:
                same = None
                break
        if same:
            return True
    # decidable differences
    if A.is_literal() and B.is_literal():
        return A.literal() == B.literal()
    if not sa or not sb:
        return len(sa) == len(sb)
    # a single atom against a literal it is declared distinct from / that uses an excluded character
    for P, Q in ((A, B), (B, A)):
        if len(P.segs) == 1 and isinstance(P.segs[0], Atom) and Q.is_literal():
            lit = Q.literal()
            at = P.segs[0]
            if lit in at.distinct_from or any(ch in at.excludes for ch in lit) or lit == '':
                return False
            if at.first_not_digit and lit[0] in DIGITS:
                return False
            raise OutsideSubset("equality of %r with %r is not determined (declare distinct_from)" % (at, lit))
    # first segments: differing literal prefixes
    x, y = sa[0], sb[0]
    if isinstance(x, Lit) and isinstance(y, Lit):
        n = min(len(x.text), len(y.text))
        if x.text[:n] != y.text[:n]:
            return False
    # a character that must occur on one side and cannot occur on the other
    for P, Q in ((A, B), (B, A)):
        for s in P.segs:
            if isinstance(s, Lit):
                for ch in set(s.text):
                    if not any(Q.may_contain(ch, t) for t in Q.segs):
                        return False
    # a character that only literals can hold: the number of its occurrences must agree
    chars = set()
    for P in (A, B):
        for t in P.segs:
            if isinstance(t, Lit):
                chars |= set(t.text)
    for ch in chars:
        if all(isinstance(t, Lit) or not P.may_contain(ch, t) for P in (A, B) for t in P.segs):
            na = sum(t.text.count(ch) for t in sa if isinstance(t, Lit))
            nb = sum(t.text.count(ch) for t in sb if isinstance(t, Lit))
            if na != nb:
                return False
    # last segments: differing literal suffixes
    x, y = sa[-1], sb[-1]
    if isinstance(x, Lit) and isinstance(y, Lit):
        n = min(len(x.text), len(y.text))
        if x.text[-n:] != y.text[-n:]:
            return False
    r = _cancel_compare(A, B)
    if r is not None:
        return r
    raise OutsideSubset("equality of %r and %r is not determined structurally" % (A, B))


def _items(S):
    out = []
    for seg in S.segs:
        if isinstance(seg, Lit):
            out.extend(('c', ch) for ch in seg.text)
        elif isinstance(seg, Num):
            out.append(('n', seg))
        else:
            out.append(('a', seg))
    return out


def _heads_differ(x, y):
    """True if the strings denoted by items x and y certainly start with different characters"""
    for p, q in ((x, y), (y, x)):
        if p[0] == 'c':
            if q[0] == 'c':
                return p[1] != q[1]
            if q[0] == 'n':
                return p[1] not in DIGITS
            return p[1] in q[1].excludes or (q[1].first_not_digit and p[1] in DIGITS)
        if p[0] == 'n' and q[0] == 'a':
            return q[1].first_not_digit or DIGITS <= q[1].excludes
    return False


def _same_item(x, y):
    if x[0] != y[0]:
        return False
    if x[0] == 'c':
        return x[1] == y[1]
    if x[0] == 'a':
        return x[1] is y[1]
    return _same_num(x[1].n, y[1].n) is True


def _cancel_compare(A, B):
    return _cmp_items(_items(A), _items(B), A, B)


def _starts_without_digit(item):
    if item is None:
        return True
    if item[0] == 'c':
        return item[1] not in DIGITS
    if item[0] == 'a':
        return item[1].first_not_digit or DIGITS <= item[1].excludes
    return False


def _cmp_items(a, b, A, B):
    while a and b and _same_item(a[0], b[0]):
        a, b = a[1:], b[1:]
    while a and b and _same_item(a[-1], b[-1]):
        a, b = a[:-1], b[:-1]
    if not a and not b:
        return True
    if not a or not b:
        return False           # every item denotes a non-empty string
    if _heads_differ(a[0], b[0]):
        return False
    # two atoms declared different, starting at the same position and followed by the same delimiter (or the end)
    x, y = a[0], b[0]
    if x[0] == 'a' and y[0] == 'a' and (y[1].name in getattr(x[1], 'differs_from', ()) or
                                        x[1].name in getattr(y[1], 'differs_from', ())):
        nx = a[1] if len(a) > 1 else None
        ny = b[1] if len(b) > 1 else None
        if (nx is None and ny is None) or (nx and ny and nx[0] == 'c' and ny[0] == 'c' and nx[1] == ny[1]
                                           and nx[1] in x[1].excludes and nx[1] in y[1].excludes):
            return False
    for p, q in ((a, b), (b, a)):
        if p[0][0] == 'c' and p[0][1] in DIGITS and q[0][0] == 'n':
            # a literal digit run against a canonical numeral, neither followed by a digit: equal iff the run is the
            # canonical spelling of the numeral's value (a fork on the path) and the remainders are equal
            j = 0
            while j < len(p) and p[j][0] == 'c' and p[j][1] in DIGITS:
                j += 1
            run = ''.join(ch for _, ch in p[:j])
            if _starts_without_digit(p[j] if j < len(p) else None) and _starts_without_digit(q[1] if len(q) > 1 else None):
                if len(run) > 1 and run[0] == '0':
                    return False            # a canonical numeral has no leading zero
                from .values import _CURRENT
                from .core import compare as _compare
                ctx = _CURRENT[0]
                if ctx is not None and getattr(ctx, 'mode', None) == 'sym':
                    if not ctx.branch(_compare('==', q[0][1].n, int(run))):
                        return False
                    ra, rb = (p[j:], q[1:])
                    if not ra and not rb:
                        return True
                    if not ra or not rb:
                        return False
                    return _cmp_items(ra, rb, A, B)
    if x[0] == 'n' and y[0] == 'n':
        # two canonical numerals start at the same position and neither is followed by a digit: the strings are equal iff
        # the integers are equal (decided by a fork on the path) and the remainders are
        def no_digit_follows(items):
            if len(items) < 2:
                return True
            nxt = items[1]
            if nxt[0] == 'c':
                return nxt[1] not in DIGITS
            if nxt[0] == 'a':
                return nxt[1].first_not_digit or DIGITS <= nxt[1].excludes
            return False
        if no_digit_follows(a) and no_digit_follows(b):
            from .values import _CURRENT
            from .core import compare as _compare
            ctx = _CURRENT[0]
            if ctx is not None and getattr(ctx, 'mode', None) == 'sym':
                if not ctx.branch(_compare('==', x[1].n, y[1].n)):
                    return False
                return equal(A, B)          # _same_num now sees the equality on the path
    if x[0] == 'a' and y[0] == 'a' and x[1] is not y[1]:
        # two different atoms start at the same position and end at the same delimiter (a character neither can hold) or
        # at the end of both strings: the strings are equal iff the atoms are equal and the remainders are -- the atoms'
        # relation is decided by FORKING (recorded on the path, symmetric), never assumed
        nx = a[1] if len(a) > 1 else None
        ny = b[1] if len(b) > 1 else None
        if (nx is None and ny is None) or (nx and ny and nx[0] == 'c' and ny[0] == 'c' and nx[1] == ny[1]
                                           and nx[1] in x[1].excludes and nx[1] in y[1].excludes):
            from .values import _CURRENT
            ctx = _CURRENT[0]
            if ctx is not None and getattr(ctx, 'mode', None) == 'sym':
                from . import replace as _replace

                class _It:
                    pass
                shim = _It()
                shim.ctx = ctx
                if _replace.refine_equal(shim, x[1], y[1]) == 0:
                    return False
                return equal(A, B)          # the atoms are unified now: compare again
    return None


def path_split(s):
    """os.path.split: (head, tail) around the LAST '/'"""
    S = lift(s)
    segs = S.segs
    for i in range(len(segs) - 1, -1, -1):
        t = segs[i]
        if isinstance(t, Lit) and '/' in t.text:
            j = t.text.rfind('/')
            head = SStr(segs[:i] + [Lit(t.text[:j])])
            tail = SStr([Lit(t.text[j + 1:])] + segs[i + 1:])
            if not head.segs or all(isinstance(x, Lit) and set(x.text) <= {'/'} for x in head.segs):
                head = SStr(segs[:i] + [Lit(t.text[:j + 1])])      # root: keep the slash(es)
            elif isinstance(head.segs[-1], Lit) and head.segs[-1].text.endswith('/'):
                raise OutsideSubset("os.path.split with repeated separators")
            return simplify(head), simplify(tail)
        if not isinstance(t, Lit) and S.may_contain('/', t):
            raise OutsideSubset("os.path.split: %r may contain '/'" % t)
    return '', simplify(S)


def contains_char(s, ch):
    if not isinstance(ch, str):
        raise OutsideSubset("`in` with a structured needle")
    if len(ch) != 1:
        if s.is_literal():
            return ch in s.literal()
        if any(isinstance(x, Lit) and ch in x.text for x in s.segs):
            return True
        if any(not any(s.may_contain(c, x) for x in s.segs) for c in ch):
            return False
        raise OutsideSubset("substring test %r in %r" % (ch, s))
    if any(s.must_contain(ch, x) for x in s.segs):
        return True
    if not any(s.may_contain(ch, x) for x in s.segs):
        return False
    raise OutsideSubset("%r in %r is not determined" % (ch, s))


# ---------------------------------------------------------------------------------------------------------------
# regular expressions that occur in the kernels, as class-based rules

class MatchObj(Native):
    def __init__(self, groups):
        self._groups = groups

    def group(self, i=0):
        return self._groups[i]


def stage_regex(s, full):
    """re.compile(r'stage([0-9]+)').match(s)  (prefix match) or .fullmatch(s): MatchObj or None"""
    S = lift(s)
    if S.is_literal():
        m = re.compile(r'stage([0-9]+)')
        r = (m.fullmatch if full else m.match)(S.literal())
        return MatchObj([r.group(0), r.group(1)]) if r else None
    segs = S.segs
    if not segs:
        return None
    first = segs[0]
    if isinstance(first, Lit):
        t = first.text
        if not (t.startswith('stage') or 'stage'.startswith(t)):
            return None
        if len(t) < 5:
            raise OutsideSubset("stage regex on %r" % S)
        digits = t[5:]
        if digits and not set(digits) <= DIGITS:
            k = 0
            while k < len(digits) and digits[k] in DIGITS:
                k += 1
            if k == 0:
                return None
            if full:
                return None
            return MatchObj([t[:5 + k], digits[:k]])
        rest = segs[1:]
        if not digits:
            # 'stage' followed by the next segment
            if not rest:
                return None
            nxt = rest[0]
            if isinstance(nxt, Num):
                after = rest[1:]
                if _next_may_start_with_digit(after):
                    raise OutsideSubset("stage regex: digits may continue after the numeral in %r" % S)
                if full and after:
                    return None
                return MatchObj([SStr([Lit('stage'), nxt]), SStr([nxt])])
            if isinstance(nxt, Atom):
                if nxt.first_not_digit or DIGITS <= nxt.excludes:
                    return None
                raise OutsideSubset("stage regex on 'stage' + %r" % nxt)
        else:
            if _next_may_start_with_digit(rest):
                raise OutsideSubset("stage regex: digits may continue in %r" % S)
            if full and rest:
                return None
            return MatchObj([t, digits])
    if isinstance(first, Atom):
        if 's' in first.excludes or 'stage' in first.distinct_from and getattr(first, 'not_stage_prefixed', False):
            return None
        if getattr(first, 'not_stage_prefixed', False):
            return None
        raise OutsideSubset("stage regex on %r (declare not_stage_prefixed)" % first)
    if isinstance(first, Num):
        return None
    raise OutsideSubset("stage regex on %r" % S)


def _next_may_start_with_digit(rest):
    if not rest:
        return False
    n = rest[0]
    if isinstance(n, Lit):
        return n.text[0] in DIGITS
    if isinstance(n, Num):
        return True
    return not (n.first_not_digit or DIGITS <= n.excludes)


def variable_pattern_search(s, pat=None):
    """re.compile(FlowIR.VariablePattern).search(s): a %(name)s reference needs '%'"""
    S = lift(s)
    if S.is_literal():
        return None        # caller runs the real regex on literals
    if pat is not None:
        import re as _re
        for seg in S.segs:
            if isinstance(seg, Lit):
                m = _re.search(pat, seg.text)
                if m is not None:
                    # a whole match inside one literal segment: found whatever the symbolic parts are
                    return MatchObj([m.group(0)] + list(m.groups()))
    if not any(S.may_contain('%', x) for x in S.segs):
        return None
    raise OutsideSubset("variable pattern on %r" % S)


def atom_len(c, a):
    """z3 Int for the length of an atom (>= 1), consistent along the path"""
    if getattr(a, 'len_var', None) is None:
        a.len_var = z3.Int('len:%s' % a.name)
        c.assume(a.len_var >= 1)
    return a.len_var


def length(c, s):
    """len(s) as a symbolic integer: literal lengths + atom lengths (>=1) + number of digits of numerals (>=1)"""
    S = lift(s)
    total = 0
    terms = []
    for seg in S._raw:
        if isinstance(seg, Lit):
            total += len(seg.text)
        elif isinstance(seg, Atom):
            terms.append(atom_len(c, seg))
        else:
            n = seg.n
            if isinstance(n, int):
                total += len(str(n))
            else:
                d = z3.Function('ndigits', z3.IntSort(), z3.IntSort())(n.e)
                c.assume(d >= 1)
                terms.append(d)
    if not terms:
        return total
    return wrap(z3.Sum([z3.IntVal(total)] + terms))


def needs_char_search(s, ch):
    """pattern.search(s) for a pattern every match of which contains the character ch"""
    S = lift(s)
    if not any(S.may_contain(ch, x) for x in S.segs):
        return None
    raise OutsideSubset("regular expression needing %r on %r" % (ch, S))


# ---------------------------------------------------------------------------------------------------------------
# concretisation (native runs) and self test

def concretise(v, values):
    """replace atoms by strings and symbolic numerals by ints: values maps atom name / z3 const name -> value"""
    if isinstance(v, SStr):
        out = ''
        for s in v.segs:
            if isinstance(s, Lit):
                out += s.text
            elif isinstance(s, Num):
                n = s.n
                out += str(n if isinstance(n, int) else values[str(n.e)])
            else:
                out += values[s.name]
        return out
    if isinstance(v, (list, tuple)):
        return type(v)(concretise(x, values) for x in v)
    if isinstance(v, dict):
        return {concretise(k, values): concretise(x, values) for k, x in v.items()}
    return v
