"""AST interpreter over mixed concrete/symbolic values (DESIGN 2.2).  Anything not modelled
raises OutsideSubset -- never a silent havoc."""
import ast
import builtins
import importlib
import re
import z3

from .core import (Sym, OutsideSubset, EngineError, Infeasible, PyRaise, ExcVal, py_raise, binop, unop, compare,
                   wrap, to_z3, And, Or, Not, Eq, If)
from .values import (Obj, Extern, GuardedList, SymSet, SymMap, MapBox, SymArr, ModelValue, Uninterp, FlexDict, unflex, IdSet, Native)
from . import strings

LOG_CALL = re.compile(r'(^|\.)(log|logger|flowirLogger|graphLogger|moduleLogger|rootLogger|dsl_log|logging)'
                      r'\.(debug|info|warning|warn|error|critical|log|exception|getLogger)$')
LOCK_NAME = re.compile(r'(^|\.)(\w*[lL]ock\w*|mtx\w*|\w*_mtx|\w*mutex\w*)$')

MAX_LOOP = 200


class ReturnSig(Exception):
    def __init__(self, value):
        self.value = value


class BreakSig(Exception):
    pass


class ContinueSig(Exception):
    pass


class Env:
    def __init__(self, parent=None, globs=None):
        self.vars = {}
        self.parent = parent
        self.globs = globs if globs is not None else (parent.globs if parent else {})
        self.global_names = set()
        self.nonlocal_names = set()

    def lookup(self, name):
        e = self
        while e is not None:
            if name in e.vars:
                return e.vars[name]
            e = e.parent
        if name in self.globs:
            return self.globs[name]
        if hasattr(builtins, name):
            return getattr(builtins, name)
        py_raise(NameError, "name %r is not defined" % name)

    def assign(self, name, value):
        if name in self.global_names:
            raise OutsideSubset("assignment to global %s" % name)
        if name in self.nonlocal_names:
            e = self.parent
            while e is not None:
                if name in e.vars:
                    e.vars[name] = value
                    return
                e = e.parent
            raise OutsideSubset("nonlocal %s not found" % name)
        self.vars[name] = value

    def delete(self, name):
        if name in self.vars:
            del self.vars[name]
        else:
            py_raise(NameError, name)


class Closure:
    def __init__(self, node, env, interp, qualname):
        self.node, self.env, self.interp, self.qualname = node, env, interp, qualname

    def __call__(self, *args, **kwargs):
        return self.interp.call_closure(self, list(args), dict(kwargs))

    def __repr__(self):
        return "<closure %s>" % self.qualname


class BoundClosure:
    """a real method interpreted from its source with `self` bound to a stub"""

    def __init__(self, clo, this):
        self.clo, self.this = clo, this

    def __call__(self, *args, **kwargs):
        return self.clo.interp.call_closure(self.clo, [self.this] + list(args), dict(kwargs))


class Method:
    """bound method of a modelled value"""

    def __init__(self, obj, name):
        self.obj, self.name = obj, name


def dotted(node):
    """source-like dotted name of a Name/Attribute chain (None otherwise)"""
    parts = []
    while isinstance(node, ast.Attribute):
        parts.append(node.attr)
        node = node.value
    if isinstance(node, ast.Name):
        parts.append(node.id)
        return '.'.join(reversed(parts))
    if isinstance(node, ast.Call):
        d = dotted(node.func)
        if d is not None:
            parts.append(d + '()')
            return '.'.join(reversed(parts))
    return None


def deep_concrete(v, depth=0):
    if depth > 6:
        return False
    if isinstance(v, (Sym, ModelValue, Obj, Extern, Closure, BoundClosure, MapBox, ExcVal, Method)):
        return False
    if isinstance(v, (list, tuple, set, frozenset)):
        return all(deep_concrete(x, depth + 1) for x in v)
    if isinstance(v, dict):
        return all(deep_concrete(k, depth + 1) and deep_concrete(x, depth + 1) for k, x in v.items())
    return True


PURE_NATIVE = {
    'os.path.join', 'os.path.split', 'os.path.basename', 'os.path.dirname', 'os.path.normpath',
    'os.path.splitext', 'os.path.isabs', 'os.path.commonprefix', 'os.path.relpath', 'os.path.abspath',
    'copy.deepcopy', 'copy.copy', 're.compile', 're.match', 're.search', 're.sub', 're.escape',
    'pprint.pformat', 'json.dumps', 'yaml.dump',
}


NATIVE_LIBRARIES = {'networkx'}        # concrete objects of these libraries are used natively (trusted, listed per target)


class Interp:
    def __init__(self, ctx, globs, externs=None, pure=None, loop_specs=None, drop=None, set_iter='error',
                 qualname='<target>'):
        self.ctx = ctx
        self.globs = globs
        self.externs = dict(externs or {})     # dotted name -> Extern / callable(c,...)
        self.pure = set(PURE_NATIVE) | set(pure or ())
        self.loop_specs = dict(loop_specs or {})
        self.drop = drop                        # extra predicate on dotted names of calls to drop
        self.set_iter = set_iter
        self.qualname = qualname
        self.site_ids = {}
        self.exc_stack = []
        self.loop_counter = {}
        self.lock_scopes = []
        self.dropped_calls = 0
        self.native_calls = {}
        self.local_overrides = {}

    # ------------------------------------------------------------------ helpers
    def site(self, node):
        return (getattr(node, '_pyvc_site', None) or (node.lineno, node.col_offset))

    def truth(self, v):
        """python truthiness as python bool or Sym(bool)"""
        if isinstance(v, bool):
            return v
        if v is None:
            return False
        if isinstance(v, Sym):
            k = v.kind
            if k == 'bool':
                return v
            if k in ('int', 'real'):
                return wrap(v.e != 0)
            if k == 'str':
                return wrap(z3.Length(v.e) > 0)
            if k == 'ref':
                return True
            raise OutsideSubset("truth of symbolic %s" % k)
        if type(v).__name__ == 'SStr':
            return v.nonempty()
        if isinstance(v, IdSet):
            return len(v.items) > 0
        if isinstance(v, GuardedList):
            return Or(*[Sym(g) if isinstance(g, z3.ExprRef) else g for g, _ in v.items]) if v.items else False
        if isinstance(v, SymArr):
            return compare('>', v.length, 0)
        if isinstance(v, (Obj, Extern, Closure, BoundClosure, Method, ExcVal)):
            return True
        if isinstance(v, ModelValue) or isinstance(v, MapBox):
            raise OutsideSubset("truth of %s" % type(v).__name__)
        try:
            return bool(v)
        except OutsideSubset:
            raise
        except Exception as err:
            raise OutsideSubset("truth of %r: %s" % (type(v), err))

    def decide(self, v, node=None):
        return self.ctx.branch(self.truth(v), site=self.site(node) if node is not None else None)

    # ------------------------------------------------------------------ function calls
    def run_function(self, node, args, kwargs=None, env=None, qualname=None):
        clo = Closure(node, env or Env(globs=self.globs), self, qualname or self.qualname)
        return self.call_closure(clo, list(args), dict(kwargs or {}))

    def call_closure(self, clo, args, kwargs):
        node = clo.node
        env = Env(parent=clo.env, globs=clo.env.globs)
        a = node.args
        params = [p.arg for p in a.posonlyargs + a.args]
        defaults = a.defaults
        # defaults are evaluated at definition time in python; the kernels only use constants
        ndef = len(defaults)
        bound = {}
        if len(args) > len(params):
            if a.vararg is None:
                py_raise(TypeError, "too many positional arguments")
            bound[a.vararg.arg] = tuple(args[len(params):])
            args = args[:len(params)]
        elif a.vararg is not None:
            bound[a.vararg.arg] = ()
        for p, v in zip(params, args):
            bound[p] = v
        kwonly = [p.arg for p in a.kwonlyargs]
        extra = {}
        for k, v in kwargs.items():
            if k in bound:
                py_raise(TypeError, "multiple values for argument %r" % k)
            if k in params or k in kwonly:
                bound[k] = v
            else:
                extra[k] = v
        if extra:
            if a.kwarg is None:
                py_raise(TypeError, "unexpected keyword argument %r" % list(extra)[0])
        if a.kwarg is not None:
            bound[a.kwarg.arg] = extra
        for i, p in enumerate(params):
            if p not in bound:
                di = i - (len(params) - ndef)
                if di < 0:
                    py_raise(TypeError, "missing argument %r" % p)
                bound[p] = self.eval(defaults[di], clo.env)
        for p, d in zip(a.kwonlyargs, a.kw_defaults):
            if p.arg not in bound:
                if d is None:
                    py_raise(TypeError, "missing keyword-only argument %r" % p.arg)
                bound[p.arg] = self.eval(d, clo.env)
        env.vars.update(bound)
        if isinstance(node, ast.Lambda):
            return self.eval(node.body, env)
        try:
            self.exec_block(node.body, env)
        except ReturnSig as r:
            return r.value
        return None

    def call_value(self, f, args, kwargs, name=None):
        c = self.ctx
        if isinstance(f, (Extern, Uninterp)):
            return f(*args, **kwargs)
        if isinstance(f, Closure):
            return self.call_closure(f, list(args), dict(kwargs))
        if isinstance(f, BoundClosure):
            return f(*args, **kwargs)
        if isinstance(f, Method):
            return self.call_method(f.obj, f.name, args, kwargs)
        if isinstance(f, Obj) and f.has_field('__call__'):
            return self.call_value(f.field('__call__') if hasattr(f, 'field') else getattr(f, '__call__'), args, kwargs, name)
        if isinstance(f, type) and issubclass(f, BaseException):
            return ExcVal(f, args)
        if isinstance(f, Native) or isinstance(getattr(f, '__self__', None), Native):
            return f(*args, **kwargs)
        import re as _re
        from . import sstr as _sstr
        if f in (_re.search, _re.match, _re.fullmatch) and len(args) == 2 and not kwargs and isinstance(args[0], str) and \
                (_sstr.has_sstr(args[1:]) or (isinstance(args[1], Sym) and args[1].kind == 'str')):
            # re.search(pattern, s) is re.compile(pattern).search(s)
            f = getattr(_re.compile(args[0]), f.__name__)
            args = args[1:]
        if isinstance(getattr(f, '__self__', None), _re.Pattern) and len(args) == 1 and not kwargs and \
                isinstance(args[0], Sym) and args[0].kind == 'str' and f.__name__ in ('match', 'fullmatch', 'search') and \
                f.__self__.flags in (0, 32):
            from . import reggen as _reggen
            return _reggen.decide(self, f.__self__.pattern, f.__name__, args[0])      # a symbolic flat string
        if isinstance(getattr(f, '__self__', None), _re.Pattern) and _sstr.has_sstr(args):
            pat, meth = f.__self__.pattern, f.__name__
            if pat == r'stage([0-9]+)' and meth in ('match', 'fullmatch'):
                return _sstr.stage_regex(args[0], full=(meth == 'fullmatch'))
            if meth == 'search' and '%' in pat:
                try:
                    return _sstr.variable_pattern_search(args[0], pat)
                except OutsideSubset:
                    pass           # no class-based answer: the solver decides below
            if meth == 'search' and pat == r'\[(\d+)\]':
                return _sstr.needs_char_search(args[0], '[')
            if meth in ('match', 'fullmatch', 'search') and len(args) == 1 and not kwargs and f.__self__.flags in (0, 32):
                from . import reggen as _reggen
                return _reggen.decide(self, pat, meth, args[0])      # no structural rule: the solver decides (fork)
            raise OutsideSubset("regular expression %r on a structured string" % pat)
        from . import models
        m = models.BUILTINS.get(f) if _hashable(f) else None
        if m is None and models._is_repo_deep_copy(f):
            m = models.b_deepcopy        # experiment...deep_copy(value) is copy.deepcopy(value)
        if m is not None:
            return m(self, *args, **kwargs)
        if callable(f) and all(deep_concrete(a) for a in args) and all(deep_concrete(v) for v in kwargs.values()):
            qn = name or getattr(f, '__qualname__', repr(f))
            if name in self.pure or qn in self.pure or models.is_pure_callable(f):
                self.native_calls[qn] = self.native_calls.get(qn, 0) + 1
                try:
                    return f(*args, **kwargs)
                except OutsideSubset:
                    raise
                except Exception as err:
                    raise PyRaise(ExcVal(type(err), err.args))
            raise OutsideSubset("call to %s is neither under contract, extern, inlined nor whitelisted pure" % qn)
        if not callable(f) and not isinstance(f, (Sym, Obj)):
            py_raise(TypeError, "'%s' object is not callable" % type(f).__name__)
        raise OutsideSubset("call to %s with symbolic arguments has no model" % (name or f,))

    def call_method(self, obj, name, args, kwargs):
        from . import models
        return models.call_method(self, obj, name, args, kwargs)

    # ------------------------------------------------------------------ statements
    def exec_block(self, stmts, env):
        for s in stmts:
            self.exec_stmt(s, env)

    def exec_stmt(self, s, env):
        m = getattr(self, 'st_' + type(s).__name__, None)
        if m is None:
            raise OutsideSubset("statement %s at line %d" % (type(s).__name__, s.lineno))
        return m(s, env)

    def st_Expr(self, s, env):
        v = s.value
        if isinstance(v, ast.Constant):
            return
        if isinstance(v, ast.Call):
            d = dotted(v.func)
            if d is not None and d not in self.externs and (LOG_CALL.search(d) or (self.drop and self.drop(d))):
                self.dropped_calls += 1
                self._dropped_call_arguments(v, env)
                return
        self.eval(v, env)

    def _dropped_call_arguments(self, call, env):
        """A logger call is dropped from the verified text, but python evaluates its ARGUMENTS first: an argument that
        contains a call may have an effect the program depends on (e.g. list(iterator) exhausts a one-shot iterator).
        Such arguments are evaluated for their effects; their value, and anything that goes wrong while the engine
        evaluates them (unsupported formatting, a fork), is ignored -- the message text itself is not modelled."""
        c = self.ctx
        for a in list(call.args) + [k.value for k in call.keywords]:
            if not any(isinstance(n, ast.Call) for n in ast.walk(a)):
                continue
            c.no_fork += 1
            try:
                self.eval(a, env)
            except Infeasible:
                raise
            except BaseException as err:
                if isinstance(err, (KeyboardInterrupt, SystemExit, MemoryError)):
                    raise
            finally:
                c.no_fork -= 1

    def st_Pass(self, s, env):
        return

    def st_Assign(self, s, env):
        v = self.eval(s.value, env)
        for t in s.targets:
            self.store(t, v, env)

    def st_AnnAssign(self, s, env):
        if s.value is not None:
            self.store(s.target, self.eval(s.value, env), env)

    def st_AugAssign(self, s, env):
        t = s.target
        opname = _BINOPS[type(s.op)]
        if isinstance(t, ast.Name):
            cur = env.lookup(t.id)
            new = self.aug(opname, cur, self.eval(s.value, env))
            env.assign(t.id, new)
        elif isinstance(t, ast.Attribute):
            o = self.eval(t.value, env)
            cur = self.getattr(o, t.attr)
            new = self.aug(opname, cur, self.eval(s.value, env))
            self.setattr(o, t.attr, new)
        elif isinstance(t, ast.Subscript):
            o = self.eval(t.value, env)
            k = self.eval_slice(t.slice, env)
            cur = self.getitem(o, k)
            new = self.aug(opname, cur, self.eval(s.value, env))
            self.setitem(o, k, new)
        else:
            raise OutsideSubset("augmented assignment target")

    def aug(self, opname, cur, rhs):
        if opname == '+' and isinstance(cur, list):
            cur.extend(self.iterate(rhs))
            return cur
        return self.binop(opname, cur, rhs)

    def st_Return(self, s, env):
        raise ReturnSig(self.eval(s.value, env) if s.value is not None else None)

    def st_If(self, s, env):
        if self.decide(self.eval(s.test, env), s):
            self.exec_block(s.body, env)
        else:
            self.exec_block(s.orelse, env)

    def st_Assert(self, s, env):
        if not self.decide(self.eval(s.test, env), s):
            py_raise(AssertionError)

    def st_Raise(self, s, env):
        if s.exc is None:
            if not self.exc_stack:
                py_raise(RuntimeError, "No active exception to reraise")
            raise PyRaise(self.exc_stack[-1])
        v = self.eval(s.exc, env)
        if isinstance(v, type) and issubclass(v, BaseException):
            v = ExcVal(v, ())
        if isinstance(v, BaseException):
            v = ExcVal(type(v), v.args)           # a real exception instance created by an extern
        if not isinstance(v, ExcVal):
            raise OutsideSubset("raise of %r" % (v,))
        raise PyRaise(v)

    def st_Break(self, s, env):
        raise BreakSig()

    def st_Continue(self, s, env):
        raise ContinueSig()

    def st_Global(self, s, env):
        env.global_names.update(s.names)

    def st_Nonlocal(self, s, env):
        env.nonlocal_names.update(s.names)

    def st_Delete(self, s, env):
        for t in s.targets:
            if isinstance(t, ast.Name):
                env.delete(t.id)
            elif isinstance(t, ast.Subscript):
                o = self.eval(t.value, env)
                k = self.eval_slice(t.slice, env)
                self.delitem(o, k)
            else:
                raise OutsideSubset("del target")

    def st_Import(self, s, env):
        for a in s.names:
            mod = importlib.import_module(a.name)
            if a.asname:
                env.assign(a.asname, mod)
            else:
                env.assign(a.name.split('.')[0], importlib.import_module(a.name.split('.')[0]))

    def st_ImportFrom(self, s, env):
        mod = importlib.import_module(s.module)
        for a in s.names:
            env.assign(a.asname or a.name, getattr(mod, a.name))

    def st_FunctionDef(self, s, env):
        if s.name in self.local_overrides:
            env.assign(s.name, self.local_overrides[s.name])       # contract replaces a nested helper
            return
        env.assign(s.name, Closure(s, env, self, self.qualname + '.' + s.name))

    def st_With(self, s, env):
        entered = []
        for item in s.items:
            d = dotted(item.context_expr)
            if d is not None and LOCK_NAME.search(d) and d not in self.externs:
                self.lock_scopes.append((d, s.lineno))
                lock = None
                try:
                    lock = self.eval(item.context_expr, env)
                except (PyRaise, AttributeError, OutsideSubset):
                    lock = None
                if isinstance(lock, Obj) and lock.has_field('__enter__') and item.optional_vars is None:
                    # a lock the contract models (rely/guarantee harness): its acquire / release are observed
                    self.call_value(lock.field('__enter__'), [], {})
                    entered.append(lock)
                    continue
                entered.append(None)
                if item.optional_vars is not None:
                    raise OutsideSubset("with lock as x")
                continue
            m = self.eval(item.context_expr, env)
            if isinstance(m, Obj) and m.has_field('_transparent'):
                entered.append(None)
                if item.optional_vars is not None:
                    self.store(item.optional_vars, m, env)
                continue
            if isinstance(m, Obj) and m.has_field('__enter__'):
                v = self.call_value(m.field('__enter__'), [], {})
                if item.optional_vars is not None:
                    self.store(item.optional_vars, v, env)
                entered.append(m)
                continue
            raise OutsideSubset("with-statement on %r" % (d or m,))
        try:
            self.exec_block(s.body, env)
        except PyRaise as pr:
            suppressed = False
            for m in reversed(entered):
                if m is not None:
                    r = self.call_value(m.field('__exit__'), [pr.exc.cls, pr.exc, None], {})
                    if r is True:
                        suppressed = True
            if not suppressed:
                raise
        except (ReturnSig, BreakSig, ContinueSig):
            for m in reversed(entered):
                if m is not None:
                    self.call_value(m.field('__exit__'), [None, None, None], {})
            raise
        else:
            for m in reversed(entered):
                if m is not None:
                    self.call_value(m.field('__exit__'), [None, None, None], {})

    def st_Try(self, s, env):
        try:
            try:
                self.exec_block(s.body, env)
            except PyRaise as pr:
                handled = False
                for h in s.handlers:
                    if self.handler_matches(h, pr.exc, env):
                        handled = True
                        if h.name:
                            env.assign(h.name, pr.exc)
                        self.exc_stack.append(pr.exc)
                        try:
                            self.exec_block(h.body, env)
                        finally:
                            self.exc_stack.pop()
                            if h.name and h.name in env.vars:
                                del env.vars[h.name]
                        break
                if not handled:
                    raise
            else:
                self.exec_block(s.orelse, env)
        finally:
            # python semantics: finally runs on every exit; a control-flow signal raised inside the
            # finally block replaces the pending one.  Engine-level exceptions must not run it.
            import sys
            et = sys.exc_info()[0]
            if et is None or issubclass(et, (PyRaise, ReturnSig, BreakSig, ContinueSig)):
                self.exec_block(s.finalbody, env)

    def handler_matches(self, h, exc, env):
        if h.type is None:
            return True
        t = self.eval(h.type, env)
        ts = t if isinstance(t, tuple) else (t,)
        for x in ts:
            if not isinstance(x, type):
                raise OutsideSubset("except clause with non-class")
        return issubclass(exc.cls, ts)

    def st_While(self, s, env):
        key = ('while', s.lineno)
        spec = self.loop_specs.get(self._loop_ordinal(s))
        if spec is not None:
            return self.loop_with_invariant(s, env, spec)
        n = 0
        broke = False
        while self.decide(self.eval(s.test, env), s):
            n += 1
            if n > MAX_LOOP:
                raise OutsideSubset("while loop at line %d needs an invariant (more than %d iterations)" %
                                    (s.lineno, MAX_LOOP))
            try:
                self.exec_block(s.body, env)
            except BreakSig:
                broke = True
                break
            except ContinueSig:
                continue
        if not broke:
            self.exec_block(s.orelse, env)

    def _loop_ordinal(self, s):
        return getattr(s, '_pyvc_loop', None)

    def st_For(self, s, env):
        spec = self.loop_specs.get(self._loop_ordinal(s))
        it = self.eval(s.iter, env)
        if spec is not None:
            return self.for_with_invariant(s, env, it, spec)
        items = self.iterate(it)
        broke = False
        for x in items:
            self.store(s.target, x, env)
            try:
                self.exec_block(s.body, env)
            except BreakSig:
                broke = True
                break
            except ContinueSig:
                continue
        if not broke:
            self.exec_block(s.orelse, env)

    # loops cut by invariants ---------------------------------------------------------------
    def for_with_invariant(self, s, env, it, spec):
        """for TARGET in <symbolic range / SymArr>: body     with spec = LoopSpec"""
        c = self.ctx
        if isinstance(it, SymRange):
            lo, hi = it.lo, it.hi
            elem = lambda k: k
        elif isinstance(it, SymArr):
            lo, hi = 0, it.length
            elem = lambda k: it.at(k)
        else:
            raise OutsideSubset("invariant given for a loop over %r" % (type(it).__name__,))
        if s.orelse:
            raise OutsideSubset("for/else with invariant")
        label = spec.label
        # 1. invariant holds on entry (k = lo)
        st0 = spec.state(self, env)
        c.oblige('%s:init' % label, spec.invariant(c, st0, lo), kind='inv-init')
        # 2. arbitrary iteration: havoc, assume invariant at k, lo <= k < hi
        k = c.int('%s.k' % label)
        spec.havoc(self, env, c)
        st = spec.state(self, env)
        which = c.choice('%s.phase' % label, 2)
        if which == 0:
            c.assume(And(compare('<=', lo, k), compare('<', k, hi)))
            c.assume_checked(spec.invariant(c, st, k))
            self.store(s.target, elem(k), env)
            try:
                self.exec_block(s.body, env)
            except ContinueSig:
                pass
            except BreakSig:
                raise OutsideSubset("break inside a loop with invariant")
            st2 = spec.state(self, env)
            c.oblige('%s:keep' % label, spec.invariant(c, st2, binop('+', k, 1)), kind='inv-keep')
            c.path_end_reason = 'loop-body-end:%s' % label
            raise LoopBodyEnd()
        # 3. after the loop: invariant at k = max(lo,hi)
        final_k = If(compare('<=', lo, hi), hi, lo)
        c.assume_checked(spec.invariant(c, st, final_k))

    def loop_with_invariant(self, s, env, spec):
        raise OutsideSubset("while with invariant not implemented")

    # ------------------------------------------------------------------ iteration
    def iterate(self, v):
        c = self.ctx
        if isinstance(v, (list, tuple)):
            return list(v)
        if isinstance(v, dict):
            return list(v.keys())
        if isinstance(v, (range, str)):
            return list(v)
        if isinstance(v, (type({}.keys()), type({}.values()), type({}.items()))):
            return list(v)
        if isinstance(v, (set, frozenset)):
            if self.set_iter == 'sorted-repr':
                return sorted(v, key=repr)
            if self.set_iter == 'permute':
                return c.permute(list(v))
            raise OutsideSubset("iteration over a set (order is arbitrary): needs the UNORDERED rule")
        if isinstance(v, IdSet):
            return list(v.items)
        if isinstance(v, GuardedList):
            out = []
            for g, x in v.items:
                if c.branch(g if not isinstance(g, z3.ExprRef) else Sym(g)):
                    out.append(x)
            return out
        if isinstance(v, SymRange):
            lo, hi = v.lo, v.hi
            if isinstance(lo, int) and isinstance(hi, int):
                return list(range(lo, hi))
            # unroll while feasible (bounded by MAX_LOOP): complete only if the bound is not hit
            out = []
            i = lo
            n = 0
            while c.branch(compare('<', i, hi)):
                out.append(i)
                i = binop('+', i, 1)
                n += 1
                if n > MAX_LOOP:
                    raise OutsideSubset("loop over a symbolic range needs an invariant")
            return out
        if isinstance(v, (map, filter, zip, enumerate, reversed)) or hasattr(v, '__next__') or \
                (type(v).__module__ or '').split('.')[0] in NATIVE_LIBRARIES:
            # generators and concrete objects of a trusted library (e.g. a networkx graph built by the harness) are
            # iterated natively; an exception raised while iterating is the program's exception
            try:
                return list(v)
            except (OutsideSubset, Infeasible):
                raise
            except Exception as err:
                raise PyRaise(ExcVal(type(err), err.args))
        raise OutsideSubset("iteration over %s" % type(v).__name__)

    # ------------------------------------------------------------------ stores
    def store(self, t, v, env):
        if isinstance(t, ast.Name):
            env.assign(t.id, v)
        elif isinstance(t, ast.Attribute):
            self.setattr(self.eval(t.value, env), t.attr, v)
        elif isinstance(t, ast.Subscript):
            self.setitem(self.eval(t.value, env), self.eval_slice(t.slice, env), v)
        elif isinstance(t, (ast.Tuple, ast.List)):
            items = self.iterate(v)
            if any(isinstance(e, ast.Starred) for e in t.elts):
                raise OutsideSubset("starred assignment")
            if len(items) != len(t.elts):
                py_raise(ValueError, "unpack: expected %d values, got %d" % (len(t.elts), len(items)))
            for e, x in zip(t.elts, items):
                self.store(e, x, env)
        else:
            raise OutsideSubset("assignment target %s" % type(t).__name__)

    def setattr(self, o, name, v):
        if isinstance(o, Obj):
            setattr(o, name, v)
            return
        raise OutsideSubset("attribute store on %r" % (type(o).__name__,))

    def getattr(self, o, name):
        if isinstance(o, Obj):
            try:
                return getattr(o, name)
            except AttributeError as err:
                raise OutsideSubset(str(err))
        if o is None:
            py_raise(AttributeError, "'NoneType' object has no attribute %r" % name)
        if isinstance(o, ExcVal):
            if name == 'args':
                return o.args
            if name == 'message' and o.args:
                return o.args[0]
            raise OutsideSubset("attribute %s of an exception value" % name)
        if isinstance(o, (Sym, ModelValue, MapBox, list, dict, str, tuple, set, frozenset, bytes, int, float)):
            return Method(o, name)
        if isinstance(o, Extern) and name in o.__dict__ and name not in ('fn', 'name', 'doc', 'calls', 'native_passthrough'):
            return o.__dict__[name]
        if isinstance(o, (Closure, Extern, Method)):
            raise OutsideSubset("attribute %s of a function" % name)
        # modules, classes and other real read-only objects
        try:
            return getattr(o, name)
        except AttributeError as err:
            raise PyRaise(ExcVal(AttributeError, err.args))

    def getitem(self, o, k):
        from . import models
        return models.getitem(self, o, k)

    def setitem(self, o, k, v):
        from . import models
        return models.setitem(self, o, k, v)

    def delitem(self, o, k):
        from . import models
        return models.delitem(self, o, k)

    def binop(self, opname, a, b):
        c = self.ctx
        if opname in ('/', '//', '%') and isinstance(b, Sym) and not isinstance(a, str):
            if c.branch(compare('==', b, 0)):
                py_raise(ZeroDivisionError, "division by zero")
        if opname == '*' and isinstance(a, list) and isinstance(b, int):
            return a * b
        if opname == '+' and isinstance(a, list) and isinstance(b, list):
            return a + b
        if opname == '+' and isinstance(a, tuple) and isinstance(b, tuple):
            return a + b
        return binop(opname, a, b)

    # ------------------------------------------------------------------ expressions
    def eval(self, e, env):
        m = getattr(self, 'ex_' + type(e).__name__, None)
        if m is None:
            raise OutsideSubset("expression %s at line %d" % (type(e).__name__, getattr(e, 'lineno', -1)))
        return m(e, env)

    def eval_slice(self, sl, env):
        if isinstance(sl, ast.Slice):
            lo = self.eval(sl.lower, env) if sl.lower is not None else None
            hi = self.eval(sl.upper, env) if sl.upper is not None else None
            st = self.eval(sl.step, env) if sl.step is not None else None
            return slice(lo, hi, st)
        return self.eval(sl, env)

    def ex_Constant(self, e, env):
        return e.value

    def ex_Name(self, e, env):
        if e.id in self.externs:
            # an extern bound to a bare global name shadows the real global
            e2 = env
            while e2 is not None:
                if e.id in e2.vars:
                    return e2.vars[e.id]
                e2 = e2.parent
            return self.externs[e.id]
        return env.lookup(e.id)

    def ex_Attribute(self, e, env):
        d = dotted(e)
        if d is not None and d in self.externs:
            root = d.split('.')[0]
            if not _is_local(env, root):
                return self.externs[d]
        return self.getattr(self.eval(e.value, env), e.attr)

    def ex_Subscript(self, e, env):
        return self.getitem(self.eval(e.value, env), self.eval_slice(e.slice, env))

    def ex_Tuple(self, e, env):
        return tuple(self.eval_elts(e.elts, env))

    def ex_List(self, e, env):
        return self.eval_elts(e.elts, env)

    def ex_Set(self, e, env):
        vals = self.eval_elts(e.elts, env)
        if not all(deep_concrete(v) for v in vals):
            raise OutsideSubset("set literal with symbolic members")
        return set(vals)

    def eval_elts(self, elts, env):
        out = []
        for x in elts:
            if isinstance(x, ast.Starred):
                out.extend(self.iterate(self.eval(x.value, env)))
            else:
                out.append(self.eval(x, env))
        return out

    def ex_Dict(self, e, env):
        d = FlexDict()
        for k, v in zip(e.keys, e.values):
            if k is None:
                other = self.eval(v, env)
                if not isinstance(other, dict):
                    raise OutsideSubset("** of non-dict in dict literal")
                d.update(other)
                continue
            kk = self.eval(k, env)
            if isinstance(kk, Sym):
                if d or len(e.keys) != 1:
                    raise OutsideSubset("dict literal mixing symbolic and concrete keys")
                vv = self.eval(v, env)
                m = SymMap.empty(kk.e.sort(), to_z3(vv).sort())
                return MapBox(m.store(kk, vv))
            d[kk] = self.eval(v, env)
        return d

    def ex_BoolOp(self, e, env):
        isand = isinstance(e.op, ast.And)
        v = None
        for i, x in enumerate(e.values):
            v = self.eval(x, env)
            if i == len(e.values) - 1:
                return v
            if isinstance(v, MapBox) and not isand and i == len(e.values) - 2 and \
                    isinstance(e.values[-1], ast.Dict) and not e.values[-1].keys:
                return v        # `m or {}` with a symbolic map: an empty m is itself an empty dict
            t = self.decide(v, x)
            if isand and not t:
                return v
            if (not isand) and t:
                return v
        return v

    def ex_UnaryOp(self, e, env):
        v = self.eval(e.operand, env)
        if isinstance(e.op, ast.Not):
            t = self.truth(v)
            return (not t) if isinstance(t, bool) else Not(t)
        if isinstance(e.op, ast.USub):
            return unop('-', v)
        if isinstance(e.op, ast.UAdd):
            return unop('+', v)
        raise OutsideSubset("unary operator")

    def ex_BinOp(self, e, env):
        a = self.eval(e.left, env)
        b = self.eval(e.right, env)
        return self.binop(_BINOPS[type(e.op)], a, b)

    def ex_IfExp(self, e, env):
        if self.decide(self.eval(e.test, env), e):
            return self.eval(e.body, env)
        return self.eval(e.orelse, env)

    def ex_Compare(self, e, env):
        left = self.eval(e.left, env)
        result = True
        for op, rn in zip(e.ops, e.comparators):
            right = self.eval(rn, env)
            r = self.cmp(op, left, right)
            if len(e.ops) == 1:
                return r
            result = And(result, r) if not (isinstance(result, bool) and isinstance(r, bool)) else (result and r)
            left = right
        return result

    def cmp(self, op, a, b):
        from . import models
        if isinstance(op, ast.In):
            return models.contains(self, b, a)
        if isinstance(op, ast.NotIn):
            r = models.contains(self, b, a)
            return (not r) if isinstance(r, bool) else Not(r)
        if isinstance(op, (ast.Is, ast.IsNot)):
            r = self.identical(a, b)
            if isinstance(op, ast.IsNot):
                r = (not r) if isinstance(r, bool) else Not(r)
            return r
        name = {ast.Eq: '==', ast.NotEq: '!=', ast.Lt: '<', ast.LtE: '<=', ast.Gt: '>', ast.GtE: '>='}[type(op)]
        return models.compare_values(self, name, a, b)

    def identical(self, a, b):
        for x, y in ((a, b), (b, a)):
            if y is None or isinstance(y, bool):
                if isinstance(x, Sym):
                    if isinstance(y, bool) and x.kind == 'bool':
                        return x if y else Not(x)
                    return False
                return x is y
        if isinstance(a, Sym) or isinstance(b, Sym):
            if isinstance(a, Sym) and isinstance(b, Sym) and a.kind == 'ref' and b.kind == 'ref':
                return compare('==', a, b)
            raise OutsideSubset("`is` on symbolic values")
        return a is b

    def ex_Call(self, e, env):
        d = dotted(e.func)
        if d is not None and d not in self.externs and (LOG_CALL.search(d) or (self.drop and self.drop(d))):
            self.dropped_calls += 1
            self._dropped_call_arguments(e, env)
            return None
        if d in ('cast', 'typing.cast') and len(e.args) == 2 and d not in self.externs:
            return self.eval(e.args[1], env)            # cast(T, x) == x  (DESIGN 3)
        f = self.eval(e.func, env)
        args = []
        for a in e.args:
            if isinstance(a, ast.Starred):
                args.extend(self.iterate(self.eval(a.value, env)))
            else:
                args.append(self.eval(a, env))
        kwargs = {}
        for k in e.keywords:
            if k.arg is None:
                other = self.eval(k.value, env)
                if not isinstance(other, dict):
                    raise OutsideSubset("** of non-dict")
                kwargs.update(other)
            else:
                kwargs[k.arg] = self.eval(k.value, env)
        return self.call_value(f, args, kwargs, name=d)

    def ex_Lambda(self, e, env):
        return Closure(e, env, self, self.qualname + '.<lambda>')

    def ex_JoinedStr(self, e, env):
        parts = []
        for v in e.values:
            if isinstance(v, ast.Constant):
                parts.append(v.value)
            else:
                if v.format_spec is not None or v.conversion not in (-1, 115):
                    raise OutsideSubset("f-string conversion/format spec")
                parts.append(self.eval(v.value, env))
        if all(not isinstance(p, (Sym, ModelValue, Obj)) for p in parts):
            return ''.join(str(p) for p in parts)
        out = [strings.to_str(p) for p in parts]
        return wrap(z3.Concat(*out) if len(out) > 1 else out[0])

    def _comp(self, e, env, emit):
        def rec(gi, cenv):
            if gi == len(e.generators):
                emit(cenv)
                return
            g = e.generators[gi]
            if g.is_async:
                raise OutsideSubset("async comprehension")
            for x in self.iterate(self.eval(g.iter, cenv)):
                self.store(g.target, x, cenv)
                if all(self.decide(self.eval(c, cenv), c) for c in g.ifs):
                    rec(gi + 1, cenv)
        rec(0, Env(parent=env, globs=env.globs))

    def ex_ListComp(self, e, env):
        from . import models
        r = models.symbolic_comprehension(self, e, env)
        if r is not None:
            return r
        out = []
        self._comp(e, env, lambda cenv: out.append(self.eval(e.elt, cenv)))
        return out

    def ex_GeneratorExp(self, e, env):
        return self.ex_ListComp(e, env)

    def ex_SetComp(self, e, env):
        out = []
        self._comp(e, env, lambda cenv: out.append(self.eval(e.elt, cenv)))
        if not all(deep_concrete(v) for v in out):
            raise OutsideSubset("set comprehension with symbolic members")
        return set(out)

    def ex_DictComp(self, e, env):
        if len(e.generators) == 1 and isinstance(e.generators[0].target, ast.Name):
            src = unflex(self.eval(e.generators[0].iter, env))
            if isinstance(src, MapBox):
                return self.map_comprehension(e, env, src)
            pre = src
        else:
            pre = None
        out = FlexDict()

        def emit(cenv):
            k = self.eval(e.key, cenv)
            if isinstance(k, Sym):
                raise OutsideSubset("dict comprehension with symbolic key")
            out[k] = self.eval(e.value, cenv)
        self._comp(e, env, emit)
        return out

    def map_comprehension(self, e, env, src):
        """{K(k): V(k) for k in <symbolic map> if C(k)}  with K the identity (up to str()):
        evaluated once for a fresh key under the assumption k in dom; no forks allowed."""
        c = self.ctx
        g = e.generators[0]
        m = src.m
        k = z3.FreshConst(m.ksort, 'key')
        cenv = Env(parent=env, globs=env.globs)
        cenv.vars[g.target.id] = Sym(k)
        c.push_scope(z3.Select(m.dom, k))
        try:
            cond = True
            for test in g.ifs:
                t = self.truth(self.eval(test, cenv))
                cond = And(cond, t) if not (isinstance(cond, bool) and isinstance(t, bool)) else (cond and t)
            kk = self.eval(e.key, cenv)
            if not (isinstance(kk, Sym) and z3.eq(z3.simplify(kk.e), k)):
                raise OutsideSubset("map comprehension whose key expression is not the iteration key")
            vv = self.eval(e.value, cenv)
        finally:
            c.pop_scope()
        ve = to_z3(vv)
        dom = z3.Lambda([k], z3.And(z3.Select(m.dom, k), to_z3(cond)))
        val = z3.Lambda([k], ve)
        return MapBox(SymMap(dom, val, m.ksort, ve.sort()))

    def ex_Starred(self, e, env):
        raise OutsideSubset("starred expression")


class LoopBodyEnd(Exception):
    """End of the 'arbitrary iteration' path of a loop cut by an invariant."""


class SymRange(ModelValue):
    def __init__(self, lo, hi):
        self.lo, self.hi = lo, hi


def _is_local(env, name):
    e = env
    while e is not None:
        if name in e.vars:
            return True
        e = e.parent
    return False


def _hashable(f):
    try:
        hash(f)
        return True
    except Exception:
        return False


_BINOPS = {ast.Add: '+', ast.Sub: '-', ast.Mult: '*', ast.Div: '/', ast.FloorDiv: '//', ast.Mod: '%',
           ast.Pow: '**', ast.BitOr: '|', ast.BitAnd: '&', ast.BitXor: '^'}
