"""Sidecar contract classes.  A Target puts ONE real function (or closure / statement slice) of
/repo under contract; a Lemma is a pure obligation over contracts (no code)."""
import contextlib
import importlib
import types
from unittest import mock

from . import extract
from .core import OutsideSubset, EngineError
from .values import Native,  Obj, Extern


class State:
    """Whatever setup() builds: positional args, kwargs and named handles for the clauses."""

    def __init__(self, args=(), kwargs=None, **named):
        self.args = list(args)
        self.kwargs = dict(kwargs or {})
        self.__dict__.update(named)

    def set(self, name, value):
        setattr(self, name, value)
        return value


class Outcome:
    def __init__(self, kind, value=None, exc=None):
        self.kind = kind          # 'return' | 'raise'
        self.value = value
        self.exc = exc            # ExcVal (interpreted) or real exception (native)

    def raised(self, cls):
        if self.kind != 'raise':
            return False
        c = getattr(self.exc, 'cls', None) or type(self.exc)
        return issubclass(c, cls)

    def __repr__(self):
        return "Outcome(%s, %r)" % (self.kind, self.value if self.kind == 'return' else self.exc)


class NullLog(Native):
    """stands for self.log in native runs (logger calls are dropped from the verified text)"""

    def __getattr__(self, name):
        return lambda *a, **k: None

    def isEnabledFor(self, level):
        # the logging level is configuration (elaunch -l): a guard on it is explored both ways (one choice per path)
        from .values import _CURRENT
        c = _CURRENT[0]
        if c is None:
            return False
        return c.one_of('logging-enabled-for-level-%s' % level, [False, True])

    def getEffectiveLevel(self):
        return 20


NULLLOG = NullLog()


class Target:
    prop = None
    name = None              # short id used in obligation ids
    file = None
    qualname = None
    slice = None             # (start_pat, end_pat, include_end) for statement slices
    params = None            # parameter names for slices
    pure = ()
    inline = {}              # global name -> (file, qualname): interpreted from its real source
    inline_class = {}        # State handle -> (file, class): methods missing on the stub come from the real class
    inline_methods = {}      # State handle -> (file, class, [method names]) bound to that stub, from real source
    set_iter = 'error'
    max_paths = 4000
    trusted = ()             # human-readable assumed contracts (externs) -> evidence.trusted_base
    assumptions = ()         # preconditions that narrow the property's quantifier
    carve_outs = {}          # name -> fn(c, st) formula, used only for open known findings
    alternatives = {}        # clause label -> group name: the PROPERTY needs this clause from at least one of the targets
                             # of the group (per case, see alt_case); a refutation in one mechanism alone is reported as
                             # a note, a case refuted in every mechanism of the group is the violation
    native_replay = True     # False: environment cannot be built natively

    def oid(self, kind, label):
        return "%s/%s::%s/%s:%s" % (self.prop, self.file.split('/')[-1], self.name or self.qualname, kind, label)

    # -- to override ---------------------------------------------------------------------
    def setup(self, c):
        raise NotImplementedError

    def requires(self, c, st):
        return True

    def externs(self, c, st):
        """module-level externs: dotted name (as written in the source) -> Extern"""
        return {}

    def loop_specs(self, c, st):
        return {}

    def local_overrides(self, c, st):
        """nested helper functions (defined inside the target) replaced by externs in the SYMBOLIC run only"""
        return {}

    def ensures(self, c, st, out):
        """list of (label, formula)"""
        return []

    def drop(self, dotted_name):
        return False

    float_sensitive = False
    def alt_case(self, c, st):
        """the case (e.g. graph shape) an alternative clause is about; compared across the targets of a group"""
        return None

    compare_return = True    # False: the return value legitimately depends on set iteration order etc.
    abstracted = False       # True: some externs are uninterpreted functions (counter-models may be spurious)

    def native_label(self, label):
        """clause label under which a symbolic obligation is evaluated in native replays"""
        return label

    def witness_constraints(self, ctx, st):
        """extra constraints for witnesses / counter-models that are run natively.  For targets that
        treat floats as reals: every real input is a multiple of 1/1024 with small magnitude, so all the
        arithmetic of the run is exact in IEEE doubles and CPython must agree with the real-number model."""
        if not self.float_sensitive:
            return []
        import z3 as _z3
        out = []
        for name, cst in ctx.inputs.items():
            if isinstance(cst, _z3.ExprRef) and cst.sort().kind() == _z3.Z3_REAL_SORT:
                out.append(_z3.IsInt(cst * 1024))
                out.append(cst <= 4096)
                out.append(cst >= -4096)
        return out

    def frame(self, c, st, out):
        """extra (label, goal) clauses evaluated after ensures() in both modes: what the call must leave unchanged"""
        return []

    def cross_compare(self, sctx, sst, nctx, nst, model, concretize):
        """extra symbolic-vs-native comparisons for the per-path witness (list of problems)"""
        return []

    # -- machinery -------------------------------------------------------------------------
    def run_symbolic(self, ctx, st, it, ex, globs):
        if self.slice is not None:
            from .interp import Env, ReturnSig
            env = Env(globs=globs)
            env.vars.update(st.kwargs)
            try:
                it.exec_block(ex.node.body, env)
                v = None
            except ReturnSig as r:
                v = r.value
            st.env = env.vars
            return Outcome('return', v)
        free = getattr(st, 'free', None)
        if free:
            # a nested closure: its captured variables are supplied by the contract
            from .interp import Env
            env = Env(globs=globs)
            env.vars.update(free)
            return Outcome('return', it.run_function(ex.node, st.args, st.kwargs, env=env))
        return Outcome('return', it.run_function(ex.node, st.args, st.kwargs))

    def run_native(self, ctx, st):
        """call the REAL code natively (slices are compiled from the extracted statements)"""
        try:
            if self.slice is not None:
                import ast as _ast
                ex = self.extracted()
                _, globs = self.module()
                # the statements become the body of a function (they may contain `return`); its locals are the result
                names = list(st.kwargs)
                # the final values of the slice's variables are recorded on EVERY way out (fall-through, return, exception)
                inner = list(ex.node.body) + [_ast.parse("return ('__env__', None)").body[0]]
                keep = _ast.parse("__holder__.update(locals())").body[0]
                body = [_ast.Try(body=inner, handlers=[], orelse=[], finalbody=[keep])]
                fn = _ast.FunctionDef(name='__slice__', args=_ast.arguments(
                    posonlyargs=[], args=[_ast.arg(arg=n) for n in names + ['__holder__']], vararg=None, kwonlyargs=[],
                    kw_defaults=[], kwarg=None, defaults=[]), body=body, decorator_list=[], returns=None, type_comment=None,
                    type_params=[])
                code = compile(_ast.fix_missing_locations(_ast.Module(body=[fn], type_ignores=[])),
                               '<slice of %s>' % self.qualname, 'exec')
                ns = {}
                exec(code, globs, ns)
                holder = {}
                st.env = holder
                try:
                    r = ns['__slice__'](__holder__=holder, **st.kwargs)
                finally:
                    holder.pop('__holder__', None)
                if isinstance(r, tuple) and len(r) == 2 and r[0] == '__env__':
                    return Outcome('return', None)
                return Outcome('return', r)
            free = getattr(st, 'free', None)
            if free:
                import ast as _ast
                ex = self.extracted()
                _, globs = self.module()
                code = compile(_ast.fix_missing_locations(_ast.Module(body=[ex.node], type_ignores=[])),
                               '<closure %s>' % self.qualname, 'exec')
                ns = dict(globs)
                ns.update(free)
                exec(code, ns)
                fn = ns[ex.node.name]
            else:
                fn = self.real_function()
            return Outcome('return', fn(*st.args, **st.kwargs))
        except (OutsideSubset, EngineError):
            raise
        except BaseException as err:   # the real code's own exception
            if isinstance(err, (KeyboardInterrupt, SystemExit, MemoryError)):
                raise
            return Outcome('raise', exc=err)

    def extracted(self):
        if self.slice is not None:
            ex = extract.statement_slice(self.file, self.qualname, *self.slice)
            ex.node.args.args = [__import__('ast').arg(arg=p) for p in (self.params or [])]
            return ex
        return extract.function(self.file, self.qualname)

    def module(self):
        return extract.module_globals(self.file)

    def real_function(self):
        """the REAL function object from /repo (unbound for methods)"""
        mod, _ = self.module()
        obj = mod
        parts = self.qualname.split('.')
        for p in parts:
            obj = getattr(obj, p)
        if isinstance(obj, property):
            obj = obj.fget
        return getattr(obj, '__func__', obj)

    @contextlib.contextmanager
    def patched(self, externs):
        """patch module-level externs for a native run of the real function"""
        mod, globs = self.module()
        with contextlib.ExitStack() as es:
            for dotted_name, ext in externs.items():
                if getattr(ext, 'native_passthrough', False) or type(ext).__name__ == 'Uninterp':
                    continue
                parts = dotted_name.split('.')
                if len(parts) == 1:
                    # a bare name (module global or builtin such as `open`): shadow it in the module's globals
                    if type(globs.get(parts[0])).__name__ != 'Extern':
                        ext.__dict__['original'] = globs.get(parts[0])    # e.g. the real class behind a patched constructor
                    es.enter_context(mock.patch.dict(globs, {parts[0]: ext}))
                    continue
                if parts[0] not in globs:
                    try:
                        parent = importlib.import_module(parts[0])     # a module the target does not import (yet)
                    except ImportError:
                        raise EngineError("extern %s: root %s is not a global of %s" % (dotted_name, parts[0], mod.__name__))
                else:
                    parent = globs[parts[0]]
                for p in parts[1:-1]:
                    parent = getattr(parent, p)
                es.enter_context(mock.patch.object(parent, parts[-1], ext))
            yield


class Lemma:
    prop = None
    name = None
    trusted = ()
    assumptions = ()

    def oid(self, label):
        return "%s/lemma::%s/lemma:%s" % (self.prop, self.name, label)

    def obligations(self, c):
        """list of (label, formula) that must be valid; may use c.int(...) etc. for universals"""
        raise NotImplementedError


def shared(target, prop):
    """the same contract on the same real code as part of ANOTHER property's check (a property that depends on the function):
    a copy of `target` whose obligations are filed under `prop`"""
    cls = type('%s_%s' % (prop, type(target).__name__), (type(target),), {'prop': prop})
    o = cls.__new__(cls)
    o.__dict__.update(target.__dict__)
    return o

