"""Compound model values: stub objects, externs, guarded lists, symbolic sets and maps."""
import z3
from .core import (Sym, OutsideSubset, wrap, to_z3, compare, And, Or, Not, Eq, PyRaise, ExcVal)


class ModelValue:
    """Base of engine-modelled compound values (only exist in symbolic mode)."""

    def _binop(self, op, other):
        raise OutsideSubset("operator %s on %s" % (op, type(self).__name__))

    def _rbinop(self, op, other):
        raise OutsideSubset("operator %s on %s" % (op, type(self).__name__))

    def _compare(self, op, other):
        raise OutsideSubset("comparison %s on %s" % (op, type(self).__name__))

    def _rcompare(self, op, other):
        raise OutsideSubset("comparison %s on %s" % (op, type(self).__name__))


def is_model_value(v):
    return isinstance(v, ModelValue)


class Native:
    """base class of contract-side helper objects whose methods the interpreter may call natively (they only shuffle
    stub objects around: e.g. a stand-in for a networkx node view)"""


class Volatile:
    """A field written by other threads: EVERY read evaluates the thunk (a fresh value constrained by the rely
    condition of the contract)."""

    def __init__(self, thunk):
        self.thunk = thunk


class Lazy:
    """A field / dict value whose (possibly forking) construction is deferred to its first use, so
    that paths which never read it do not multiply."""

    def __init__(self, thunk):
        self.thunk = thunk


class LazyDict(dict):
    """dict whose values may be Lazy; resolved on get / [] (works for the interpreter and natively)"""

    def _res(self, k):
        v = dict.__getitem__(self, k)
        if isinstance(v, Lazy):
            v = v.thunk()
            dict.__setitem__(self, k, v)
        return v

    def __getitem__(self, k):
        return self._res(k)

    def get(self, k, default=None):
        if dict.__contains__(self, k):
            return self._res(k)
        return default

    def items(self):
        return [(k, self._res(k)) for k in list(dict.keys(self))]

    def values(self):
        return [self._res(k) for k in list(dict.keys(self))]


class Obj:
    """A stub object: named fields, usable both by the interpreter and by the REAL code running
    natively (duck typing).  Identity is python identity; distinct Obj never alias."""

    def __init__(self, _name, _cls=None, **fields):
        object.__setattr__(self, '_name', _name)
        object.__setattr__(self, '_cls', _cls)
        object.__setattr__(self, '_fields', dict(fields))
        object.__setattr__(self, '_writes', [])
        object.__setattr__(self, '_fallback', None)

    @property
    def __class__(self):
        # isinstance(stub, RealClass) is true natively when the contract declared the stub's class
        return object.__getattribute__(self, '_cls') or Obj

    def __getattr__(self, name):
        f = object.__getattribute__(self, '_fields')
        if name in f:
            v = f[name]
            if isinstance(v, Lazy):
                v = f[name] = v.thunk()
            if isinstance(v, Volatile):
                return v.thunk()
            return v
        fb = object.__getattribute__(self, '__dict__').get('_fallback')
        if fb is not None and not name.startswith('__'):
            v = fb(self, name)
            if type(v).__name__ == '_PropertyFB':
                return v.getter()              # a property of the real class: evaluated on every read
            if type(v).__name__ == '_FieldDefault':
                f[name] = v.value              # an undeclared instance field: the real constructor's literal default
                return v.value
            if v is not None:
                f[name] = v
                return v
        raise AttributeError("stub %s has no field %r (undeclared in the contract)" %
                             (object.__getattribute__(self, '_name'), name))

    def __setattr__(self, name, value):
        object.__getattribute__(self, '_fields')[name] = value
        object.__getattribute__(self, '_writes').append(name)

    def __repr__(self):
        return "<stub %s>" % object.__getattribute__(self, '_name')

    def has_field(self, name):
        return name in object.__getattribute__(self, '_fields')

    # dunder protocol for native runs (python looks these up on the type): delegate to fields
    def _dunder(self, name, *args):
        f = object.__getattribute__(self, '_fields')
        if name not in f:
            raise TypeError("stub %s does not define %s" % (object.__getattribute__(self, '_name'), name))
        return f[name](*args)

    def __getitem__(self, k):
        return self._dunder('__getitem__', k)

    def __setitem__(self, k, v):
        return self._dunder('__setitem__', k, v)

    def __delitem__(self, k):
        return self._dunder('__delitem__', k)

    def __contains__(self, k):
        return self._dunder('__contains__', k)

    def __len__(self):
        return self._dunder('__len__')

    def __call__(self, *args, **kwargs):
        # a stub that stands for a class / callable object declares a __call__ field
        f = object.__getattribute__(self, '_fields')
        if '__call__' not in f:
            raise TypeError("'Obj' object is not callable (stub %s declares no __call__)" % object.__getattribute__(self, '_name'))
        return f['__call__'](*args, **kwargs)

    def __bool__(self):
        # truth value of a stub: its __bool__ / __len__ field if the contract declares one, else True (a plain object)
        f = object.__getattribute__(self, '_fields')
        if '__bool__' in f:
            return bool(f['__bool__']())
        if '__len__' in f:
            return f['__len__']() != 0
        return True

    def __enter__(self):
        f = object.__getattribute__(self, '_fields')
        return f['__enter__']() if '__enter__' in f else self

    def __exit__(self, *a):
        f = object.__getattribute__(self, '_fields')
        return f['__exit__'](*a) if '__exit__' in f else None

    def field(self, name):
        v = object.__getattribute__(self, '_fields')[name]
        if isinstance(v, Lazy):
            v = object.__getattribute__(self, '_fields')[name] = v.thunk()
        return v

    def field_names(self):
        return list(object.__getattribute__(self, '_fields'))

    def written_fields(self):
        return list(object.__getattribute__(self, '_writes'))


_CURRENT = [None]


def current_ctx():
    c = _CURRENT[0]
    if c is None:
        raise RuntimeError("no active pyvc context")
    return c


def set_current_ctx(c):
    _CURRENT[0] = c


class Extern:
    """An assumed contract on a dependency, as an executable model  fn(c, *args, **kwargs).
    The same definition runs symbolically (inside the interpreter) and natively (as the stub
    the REAL code calls during replay / cross-check)."""

    def __init__(self, name, fn, doc=None, native_passthrough=False):
        self.name = name
        self.fn = fn
        self.native_passthrough = native_passthrough    # True: the REAL callee runs in native runs
        self.doc = doc or (fn.__doc__ or '').strip()
        self.calls = 0

    def __call__(self, *args, **kwargs):
        c = current_ctx()
        c.extern_calls[self.name] = c.extern_calls.get(self.name, 0) + 1
        return self.fn(c, *args, **kwargs)

    def __repr__(self):
        return "<extern %s>" % self.name


class Uninterp:
    """An extern abstracted as an uninterpreted function of its arguments (strings, maps).  Natively the
    REAL function runs (it is not patched), so counter-models that depend on the abstraction may not
    reproduce: such obligations are reported with no-failing-input-found."""

    def __init__(self, name, result_sort=None, doc=None):
        self.name = name
        self.result_sort = result_sort or z3.StringSort()
        self.doc = doc or ''

    def apply(self, *args):
        zargs = []
        for a in args:
            if isinstance(a, MapBox):
                zargs.extend([a.m.dom, a.m.val])
            elif isinstance(a, dict):
                m = SymMap.empty(z3.StringSort(), z3.StringSort())
                for k, v in a.items():
                    m = m.store(k, v)
                zargs.extend([m.dom, m.val])
            else:
                zargs.append(to_z3(a))
        f = z3.Function(self.name.replace('.', '_'), *([x.sort() for x in zargs] + [self.result_sort]))
        return wrap(f(*zargs))

    def __call__(self, *args, **kwargs):
        if kwargs:
            raise OutsideSubset("keyword arguments to uninterpreted extern %s" % self.name)
        return self.apply(*args)


class GuardedList(ModelValue):
    """A list over a finite candidate universe with symbolic presence: [(guard, value)].
    `in` is a disjunction; iteration forks per element.  Concrete mode uses a plain list."""

    def __init__(self, items):
        self.items = list(items)

    def contains(self, x):
        return Or(*[And(Sym(g) if isinstance(g, z3.ExprRef) else g, Eq(x, v)) for g, v in self.items]) \
            if self.items else False

    def length(self):
        return wrap(z3.Sum([z3.If(to_z3(g), 1, 0) for g, _ in self.items])) if self.items else 0


class SymSet(ModelValue):
    """A set / membership view of a list, as a characteristic predicate Array(K, Bool)."""

    def __init__(self, arr, ksort):
        self.arr = arr
        self.ksort = ksort

    def contains(self, x):
        if not isinstance(x, (Sym, str, int)) or isinstance(x, bool):
            return False
        e = to_z3(x)
        if e.sort() != self.ksort:
            return False
        return wrap(z3.Select(self.arr, e))

    def add(self, x):
        return SymSet(z3.Store(self.arr, to_z3(x), z3.BoolVal(True)), self.ksort)

    def remove(self, x):
        return SymSet(z3.Store(self.arr, to_z3(x), z3.BoolVal(False)), self.ksort)

    @staticmethod
    def empty(ksort):
        return SymSet(z3.K(ksort, z3.BoolVal(False)), ksort)

    def union(self, other):
        k = z3.FreshConst(self.ksort, 'u')
        return SymSet(z3.Lambda([k], z3.Or(z3.Select(self.arr, k), z3.Select(other.arr, k))), self.ksort)


class SymMap(ModelValue):
    """A dict with symbolic keys: domain Array(K,Bool) + values Array(K,V)."""

    def __init__(self, dom, val, ksort, vsort):
        self.dom, self.val, self.ksort, self.vsort = dom, val, ksort, vsort

    def has(self, k):
        _note_key(k)
        if not isinstance(k, (Sym, str, int)) or isinstance(k, bool):
            return False
        e = to_z3(k)
        if e.sort() != self.ksort:
            return False
        return wrap(z3.Select(self.dom, e))

    def at(self, k):
        _note_key(k)
        return wrap(z3.Select(self.val, to_z3(k)))

    def store(self, k, v):
        _note_key(k)
        return SymMap(z3.Store(self.dom, to_z3(k), z3.BoolVal(True)),
                      z3.Store(self.val, to_z3(k), to_z3(v)), self.ksort, self.vsort)

    def delete(self, k):
        return SymMap(z3.Store(self.dom, to_z3(k), z3.BoolVal(False)), self.val, self.ksort, self.vsort)

    def updated(self, other):
        """self.update(other): right-biased union"""
        k = z3.FreshConst(self.ksort, 'k')
        dom = z3.Lambda([k], z3.Or(z3.Select(self.dom, k), z3.Select(other.dom, k)))
        val = z3.Lambda([k], z3.If(z3.Select(other.dom, k), z3.Select(other.val, k), z3.Select(self.val, k)))
        return SymMap(dom, val, self.ksort, self.vsort)

    @staticmethod
    def empty(ksort, vsort):
        return SymMap(z3.K(ksort, z3.BoolVal(False)), z3.K(ksort, _default(vsort)), ksort, vsort)

    def copy(self):
        return SymMap(self.dom, self.val, self.ksort, self.vsort)


def _note_key(k):
    if isinstance(k, str) and _CURRENT[0] is not None:
        _CURRENT[0].key_literals.add(k)


def _default(sort):
    k = sort.kind()
    if k == z3.Z3_INT_SORT:
        return z3.IntVal(0)
    if k == z3.Z3_BOOL_SORT:
        return z3.BoolVal(False)
    if k == z3.Z3_REAL_SORT:
        return z3.RealVal(0)
    if k == z3.Z3_SEQ_SORT:
        return z3.StringVal("")
    return z3.FreshConst(sort, 'd')


class MapBox:
    """Mutable holder so that `d[k] = v` / `d.update(x)` on a SymMap mutates in place like a dict."""

    def __init__(self, m):
        self.m = m


class SymBytes(ModelValue):
    """bytes obtained from a symbolic string by .encode(codec); only .decode() is modelled"""

    def __init__(self, s, codec):
        self.s, self.codec = s, codec


class IdSet(ModelValue):
    """A python set whose members hold symbolic values (e.g. component ids with symbolic names): list-backed; the
    contract guarantees that the members are pairwise distinct.  Iteration order = insertion order (python's is
    arbitrary: results that depend on it are a C15 matter and are checked there)."""

    def __init__(self, items=()):
        self.items = list(items)


class FlexDict(dict):
    """A dict created by the interpreted code from an empty literal; becomes symbolic (sym = MapBox) the
    first time a symbolic map is merged into it."""
    sym = None

    def to_sym(self):
        if self.sym is None:
            m = None
            for k, v in self.items():
                if m is None:
                    m = SymMap.empty(to_z3(k).sort(), to_z3(v).sort())
                m = m.store(k, v)
            self.sym = MapBox(m)        # m may be None for an empty dict: sorts are fixed by the first merge
            self.clear()
        return self.sym


def unflex(v):
    if isinstance(v, FlexDict) and v.sym is not None:
        return v.sym
    return v


class SymArr(ModelValue):
    """A list of symbolic length: (length Int, Array Int -> T). Order-sensitive uses."""

    def __init__(self, length, arr):
        self.length = length   # python int or Sym int
        self.arr = arr

    def at(self, i):
        return wrap(z3.Select(self.arr, to_z3(i)))
