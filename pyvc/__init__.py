"""pyvc: verification-condition generator for a subset of Python, working on functions
extracted from /repo's current source on every run.  See /verif/DESIGN.md section 2."""
