"""CLI:  python -m pyvc.check Cxx [--tier quick|thorough]

exit 0  every obligation generated from /repo's current source was discharged (open known findings aside)
exit 1  VIOLATION property=<id> replay=<path>   (a baseline obligation is refuted; counter-model replayed
        on the real code where there is one, otherwise the line ends with no-failing-input-found)
exit 2  undecided (solver unknown / construct outside the subset)
exit 3  checker error (anchor lost, engine/CPython disagreement, zero obligations, crash)
"""
import warnings
warnings.filterwarnings('ignore', category=SyntaxWarning)
import argparse
import importlib
import json
import os
import sys
import time
import traceback

HERE = os.path.dirname(os.path.dirname(os.path.abspath(__file__)))
if HERE not in sys.path:
    sys.path.insert(0, HERE)

from pyvc import verify, smt, extract            # noqa: E402
from pyvc.spec import Target, Lemma              # noqa: E402
from pyvc.core import Sym                        # noqa: E402

FINDINGS_FILE = os.path.join(HERE, 'known_findings.jsonl')
OUT = os.environ.get('PYVC_OUT') or HERE       # evidence/ and replays/ go here (mutant runs redirect them to scratch)


def load_findings(prop):
    open_f, fixed = [], []
    if not os.path.exists(FINDINGS_FILE):
        return open_f, fixed
    for line in open(FINDINGS_FILE):
        line = line.strip()
        if not line or line.startswith('#'):
            continue
        if line.startswith('fixed:'):
            if ('property=%s ' % prop) in line:
                fixed.append(line)
            continue
        rec = json.loads(line)
        if rec.get('property') == prop:
            open_f.append(rec)
    return open_f, fixed


def jsonable(v, depth=0):
    if depth > 8:
        return repr(v)[:100]
    if isinstance(v, (str, int, float, bool)) or v is None:
        return v
    if isinstance(v, (list, tuple, set)):
        return [jsonable(x, depth + 1) for x in v]
    if isinstance(v, dict):
        return {str(k): jsonable(x, depth + 1) for k, x in v.items()}
    return repr(v)[:300]


def write_replay(prop, ob, verdict, detail, target):
    d = os.path.join(OUT, 'replays', prop)
    os.makedirs(d, exist_ok=True)
    safe = ob.oid.split('::')[-1].replace('/', '_').replace(':', '_').replace(' ', '_')
    path = os.path.join(d, '%s.%s.json' % (safe, ob.path))
    rec = {"property": prop, "obligation": ob.oid, "kind": ob.kind, "clause": ob.label, "verdict": verdict,
           "backend": ob.backend, "solver_output": ob.solver_out, "model_inputs": jsonable(ob.model),
           "choices": jsonable(ob.choices), "detail": jsonable(detail),
           "target": {"file": getattr(target, 'file', None), "qualname": getattr(target, 'qualname', None)},
           "how_to_replay": "cd /verif && .venv/bin/python -m pyvc.check %s --replay %s" % (prop, os.path.relpath(path, HERE))}
    rec["smt2"] = ob.smt2
    with open(path, 'w') as f:
        json.dump(rec, f, indent=1)
    return path


def run_property(prop, tier, seed, only=None, verbose=False):
    t0 = time.time()
    mod = importlib.import_module('contracts.%s' % prop)
    targets = list(getattr(mod, 'TARGETS', []))
    lemmas = list(getattr(mod, 'LEMMAS', []))
    bounded = list(getattr(mod, 'BOUNDED', []))
    open_findings, fixed = load_findings(prop)
    out_lines = []
    status = {'violations': [], 'unknown': [], 'errors': [], 'known': []}
    reports = []

    def say(s):
        print(s, flush=True)

    by_name = {t.name or t.qualname: t for t in targets}
    # ---- open known findings: replay stored witness; carve-out only while it still fails
    carve_for = {}        # target name -> {clause label: carve-out name}
    verify.register(prop, targets)
    if verify.POOL is None and os.environ.get('PYVC_JOBS', '') != '1':
        import multiprocessing
        verify.POOL = multiprocessing.get_context('fork').Pool(int(os.environ.get('PYVC_JOBS') or 0) or os.cpu_count() or 4)
    lemma_by_name = {l.name: l for l in lemmas}
    lemma_carved = set()
    for f in open_findings:
        tname = f['target']
        if tname in lemma_by_name:
            # a finding on a lemma: its witness is re-established by the lemma's own replay
            try:
                lemma_by_name[tname].obligations(verify.Ctx('sym'))
                verdict, detail = lemma_by_name[tname].replay({})
            except Exception as err:
                status['errors'].append("known finding on lemma %s could not be replayed: %s" % (tname, err))
                continue
            f['_still_fails'] = verdict == 'confirmed'
            if verdict == 'confirmed':
                say("KNOWN-FINDING: property=%s %s" % (prop, f['what']))
                status['known'].append(f)
                lemma_carved.add((tname, f['clause']))
            else:
                say("note: stored witness of finding %r no longer fails; full obligation must be discharged" % f['what'][:60])
            continue
        t = by_name.get(tname)
        if t is None:
            status['errors'].append("known finding refers to unknown target %s" % tname)
            continue
        still = None
        try:
            nctx, nst, nout, clauses = verify.native_run(t, f['witness']['inputs'], f['witness'].get('choices', {}))
            vals = [v for (label, v) in clauses if label == f['clause']]
            still = any(v is False for v in vals)
        except Exception as err:
            status['errors'].append("known finding witness could not be replayed: %s: %s" % (type(err).__name__, err))
            continue
        f['_still_fails'] = still
        if still:
            say("KNOWN-FINDING: property=%s %s" % (prop, f['what']))
            status['known'].append(f)
            carve_for.setdefault(tname, {})[f['clause']] = f['carve_out']
        else:
            say("note: stored witness of finding %r no longer fails; full obligation must be discharged" % f['what'][:60])

    # ---- verify
    for t in targets:
        if only and (t.name or t.qualname) not in only:
            continue
        rep = verify.verify_target(t, tier=tier, carve_names=carve_for.get(t.name or t.qualname))
        reports.append(rep)
    for l in lemmas:
        if only and l.name not in only:
            continue
        lrep = verify.verify_lemma(l, tier=tier)
        for ob in lrep.obligations:
            if (l.name, ob.label) in lemma_carved and ob.status == 'refuted':
                ob.status, ob.backend, ob.carved = 'discharged', 'known-finding carve-out (witness excluded)', True
        reports.append(lrep)

    # ---- bounded stand-ins (never counted as proved)
    bounded_results = []
    for b in bounded:
        if only and b.name not in only:
            continue
        try:
            r = b.run(tier=tier, seed=seed)
        except Exception as err:
            r = {"name": b.name, "error": "%s: %s" % (type(err).__name__, err), "tb": traceback.format_exc()[-1500:]}
            status['errors'].append("bounded check %s crashed: %s" % (b.name, err))
        bounded_results.append(r)
        for v in r.get('violations', []):
            status['violations'].append(('bounded', b, v))

    # ---- baseline of obligation ids
    base_path = os.path.join(HERE, 'contracts', '%s.expected.json' % prop)
    all_obs = [ob for rep in reports for ob in rep.obligations]
    logical = {}
    for ob in all_obs:
        logical.setdefault(ob.oid, []).append(ob)
    baseline = None
    if os.path.exists(base_path):
        baseline = set(json.load(open(base_path))['obligations'])
        if not only:
            missing = sorted(baseline - set(logical))
            if missing:
                status['errors'].append("expected obligations no longer generated: %s" % missing[:8])

    # ---- triage
    for rep in reports:
        tname = getattr(rep.target, 'name', None) or getattr(rep.target, 'qualname', '?')
        for kind, msg in rep.errors:
            status['errors'].append("%s: %s: %s" % (tname, kind, msg))
        for msg in rep.outside:
            status['unknown'].append("%s: outside subset: %s" % (tname, msg))
        for d in rep.cross_disagreements:
            status['errors'].append("%s: engine/CPython disagreement on path %s: %s" % (
                tname, d.get('path'), d.get('problems') or d.get('error')))
        if isinstance(rep.target, Target) and not rep.errors and not rep.outside and not rep.obligations:
            status['errors'].append("%s: zero obligations" % tname)
    for ob in all_obs:
        if ob.status == 'unknown':
            status['unknown'].append("%s (path %s): %s" % (ob.oid, ob.path, ob.solver_out))
    # ---- alternative mechanisms: a clause that the property needs from AT LEAST ONE function of a group
    groups = {}                  # group -> set of target names that provide it
    for t in targets:
        for label, grp in getattr(t, 'alternatives', {}).items():
            groups.setdefault(grp, set()).add(t.name or t.qualname)
    refuted_alt = {}             # (group, case) -> {target name: [obs]}
    for rep in reports:
        tn = getattr(rep.target, 'name', None) or getattr(rep.target, 'qualname', '?')
        for ob in rep.obligations:
            if ob.status == 'refuted' and ob.alt is not None:
                refuted_alt.setdefault(ob.alt, {}).setdefault(tn, []).append(ob)
    for (grp, case), per_target in sorted(refuted_alt.items()):
        ran = {getattr(r.target, 'name', None) or getattr(r.target, 'qualname', '?') for r in reports}
        members = groups.get(grp, set())
        if members <= ran and set(per_target) >= members:
            continue             # every mechanism of the group fails on this case: handled as a violation below
        for tn, obs in per_target.items():
            others = sorted((members & ran) - set(per_target))
            if not others:
                continue         # the other mechanisms were not run (--only): cannot be excused
            for ob in obs:
                ob.status, ob.backend = 'discharged', 'alternative mechanism: %s provides %r for case %s' % (
                    ', '.join(others), ob.label, case)
            say("note: %s does not provide %r for case %s, but %s does (the property needs one of them)" % (
                tn, obs[0].label, case, ', '.join(others)))

    seen_viol = set()
    MAX_REPLAYS = 16
    for rep in reports:
        t = rep.target
        by_oid = {}
        for ob in rep.obligations:
            if ob.status == 'refuted':
                by_oid.setdefault(ob.oid, []).append(ob)
        for oid, obs in by_oid.items():
            if oid in seen_viol:
                continue
            seen_viol.add(oid)
            # Several paths may refute the same clause.  A counter-model that does not reproduce natively (typically a
            # value on a double-precision boundary of a float-sensitive target) does not decide anything by itself:
            # the other refuting paths are replayed before the obligation is called a checker error.
            outcomes = []
            chosen = None
            for ob in obs[:MAX_REPLAYS]:
                if isinstance(t, Target):
                    verdict, detail = verify.replay_obligation(t, ob)
                elif hasattr(t, 'replay'):
                    try:
                        verdict, detail = t.replay(ob.model or {})
                    except Exception as err:
                        verdict, detail = 'no-replay', {"reason": "lemma replay failed: %s: %s" % (type(err).__name__, err)}
                else:
                    verdict, detail = 'no-replay', {"reason": "lemma (no code to replay)"}
                outcomes.append((verdict, ob, detail))
                if verdict == 'confirmed':
                    chosen = (verdict, ob, detail)
                    break
            if chosen is None:
                noreplay = [o for o in outcomes if o[0] not in ('confirmed', 'contradicted')]
                chosen = noreplay[0] if noreplay else outcomes[0]
            verdict, ob, detail = chosen
            if isinstance(detail, dict):
                detail = dict(detail, replays_tried=len(outcomes), refuting_paths=len(obs))
            if verdict == 'confirmed':
                path = write_replay(prop, ob, verdict, detail, t)
                status['violations'].append(('obligation', ob, path, ''))
            elif verdict == 'contradicted':
                path = write_replay(prop, ob, verdict, detail, t)
                status['errors'].append("%s: none of %d counter-models reproduces on the real code (engine or contract "
                                        "defect), see %s" % (ob.oid, len(outcomes), path))
            else:
                if baseline is not None and ob.oid in baseline:
                    path = write_replay(prop, ob, 'no-failing-input-found', detail, t)
                    status['violations'].append(('obligation', ob, path, ' no-failing-input-found'))
                else:
                    status['unknown'].append("%s refuted but not replayable and not in the baseline: %s" % (ob.oid, detail))

    n_inst = len(all_obs)
    n_inst_ok = sum(1 for ob in all_obs if ob.status == 'discharged')
    n_log = len(logical)
    n_log_ok = sum(1 for oid, obs in logical.items() if all(o.status == 'discharged' for o in obs))
    wall = time.time() - t0

    # ---- deliberately broken bodies (thorough tier only; never changes the exit status)
    mutants = None
    if tier == 'thorough' and not only and not os.environ.get('PYVC_NO_MUTANTS') and not status['violations']:
        # (not on a tree that already violates the property: the verdict is what matters there, and it is not delayed)
        from pyvc import mutants as _mut
        if _mut.load(prop):
            mutants = _mut.run_all(prop, say=say, budget_s=float(os.environ.get('PYVC_MUTANT_BUDGET_S', '2400')))
            say("  [mutants] %d/%d killed; survived: %s; not decided: %s; neutral edits silent: %d/%d" % (
                mutants['killed'], mutants['total'], [r['id'] for r in mutants['survived']],
                [(r['id'], r['status']) for r in mutants['not_decided']],
                mutants['neutral_edits_silent'], mutants['neutral_edits']))

    # ---- evidence
    ev = build_evidence(prop, tier, seed, mod, reports, logical, n_inst, n_inst_ok, n_log, n_log_ok, status,
                        bounded_results, open_findings, fixed, wall)
    os.makedirs(os.path.join(OUT, 'evidence'), exist_ok=True)
    ev['coverage']['mutants'] = mutants if mutants is not None else "thorough tier only (mutants/%s.json)" % prop
    with open(os.path.join(OUT, 'evidence', '%s.json' % prop), 'w') as f:
        json.dump(ev, f, indent=1)

    # ---- report
    for rep in reports:
        tname = getattr(rep.target, 'name', None) or getattr(rep.target, 'qualname', '?')
        ok = sum(1 for o in rep.obligations if o.status == 'discharged')
        say("  %-44s paths=%-4d obligations=%d/%d cross-checked=%d sites=%d/%d  %.1fs" % (
            tname, rep.paths, ok, len(rep.obligations), rep.cross_checked,
            len({s for s, _ in rep.covered}), rep.n_sites, rep.wall))
    for b in bounded_results:
        say("  [bounded] %-34s %s" % (b.get('name'), b.get('summary', b.get('error', ''))))
    say("%s: %d/%d obligations discharged (%d/%d path instances), %d unknown, %d errors, %.1fs" % (
        prop, n_log_ok, n_log, n_inst_ok, n_inst, len(status['unknown']), len(status['errors']), wall))
    code = 0
    confirmed = [v for v in status['violations'] if v[0] != 'obligation' or v[3] == '']
    if status['errors']:
        for e in status['errors']:
            say("CHECKER-ERROR: %s" % e)
        code = 3
    if status['unknown']:
        for u in status['unknown'][:20]:
            say("UNDECIDED: %s" % u)
        code = max(code, 2) if code != 3 else 3
    # A violation whose counter-model was REPLAYED on the real code (the clause is false natively on that input) stands on
    # its own: neither a clause that vanished elsewhere nor a disagreement in another target can make it a false alarm, so
    # it is reported (exit 1) together with those messages.  A violation without a failing input is reported only when the
    # run has no checker error.
    vanished_only = all(e.startswith('expected obligations no longer generated') for e in status['errors'])
    if status['violations'] and (code != 3 or confirmed or vanished_only):
        for v in status['violations']:
            if v[0] == 'obligation':
                _, ob, path, suffix = v
                if code == 3 and suffix and not vanished_only:
                    continue
                say("  failed obligation: %s [%s]" % (ob.oid, ob.backend))
                say("VIOLATION property=%s replay=%s%s" % (prop, path, suffix))
            else:
                _, b, viol = v
                say("  failed bounded check: %s: %s" % (b.name, viol.get('what')))
                say("VIOLATION property=%s replay=%s" % (prop, viol.get('replay')))
        code = 1
    if n_log == 0 and code == 0:
        say("CHECKER-ERROR: zero obligations")
        code = 3
    return code


def build_evidence(prop, tier, seed, mod, reports, logical, n_inst, n_inst_ok, n_log, n_log_ok, status,
                   bounded_results, open_findings, fixed, wall):
    funcs = []
    trusted = []
    assumptions = []
    backends = {}
    solver_s = 0.0
    covers = 0
    sites = 0
    paths = 0
    cross = 0
    samples = []
    second = {}
    for rep in reports:
        t = rep.target
        for x in getattr(t, 'trusted', ()):
            if x not in trusted:
                trusted.append(x)
        for x in getattr(t, 'assumptions', ()):
            if x not in assumptions:
                assumptions.append(x)
        if rep.extracted is not None:
            d = rep.extracted.describe()
            d.update({"paths": rep.paths, "infeasible_paths": rep.infeasible_paths,
                      "obligation_instances": len(rep.obligations),
                      "discharged_instances": sum(1 for o in rep.obligations if o.status == 'discharged'),
                      "branch_sides_covered": len(rep.covered), "branch_sites": rep.n_sites,
                      "unreached_branch_sides": sorted("%s:%s" % (s, side) for s in
                                                       {s for s, _ in rep.covered} for side in (True, False)
                                                       if (s, side) not in rep.covered),
                      "dropped_log_calls": rep.dropped_calls, "native_pure_calls": rep.native_calls,
                      "assumed_contracts_exercised": dict(sorted(rep.extern_calls.items())),
                      "lock_scopes": sorted(set(d0 for d0, _ in rep.lock_scopes)),
                      "cross_checked_paths": rep.cross_checked, "wall_s": round(rep.wall, 2)})
            d["chunks"] = rep.chunks
            if rep.inlined:
                d["inlined"] = list(rep.inlined.values())
            funcs.append(d)
        elif isinstance(t, Lemma):
            funcs.append({"lemma": t.name, "obligation_instances": len(rep.obligations)})
        solver_s += rep.solver_seconds
        for k, v in rep.second.items():
            second[k] = second.get(k, 0) + v
        covers += len(rep.covered)
        sites += rep.n_sites
        paths += rep.paths
        cross += rep.cross_checked
        for ob in rep.obligations:
            backends[ob.backend] = backends.get(ob.backend, 0) + 1
        for ob in rep.obligations[:2]:
            if len(samples) < 6:
                txt = ob.smt2 or ''
                samples.append({"obligation": ob.oid, "path": ob.path, "status": ob.status, "backend": ob.backend,
                                "smt2_excerpt": txt[-1200:]})
    ev = {
        "property_id": prop, "tier": tier, "seed": seed, "level": "proof",
        "coverage": {
            "obligations": n_log, "discharged": n_log_ok,
            "obligation_path_instances": n_inst, "discharged_path_instances": n_inst_ok,
            "checker_cmd": ".venv/bin/python -m pyvc.check %s --tier %s" % (prop, tier),
            "trusted_base": trusted + ["pyvc symbolic executor and its built-in models of python (cross-checked against "
                                       "CPython on one witness per explored path)", "z3 %s" % smt.z3.get_version_string()],
            "functions_under_contract": funcs,
            "obligation_ids": sorted(logical),
            "backends": backends, "solver_seconds": round(solver_s, 2),
            "paths_explored": paths, "branch_sides_covered": covers, "branch_sites": sites,
            "paths_cross_checked_against_cpython": cross,
            "bounded_checks": bounded_results,
            "second_solver": ({"rechecked_z3_discharges": sum(second.values()), "verdicts": second,
                                    "note": "z3-5.1 discharges re-checked on the SMT-LIB dump by cvc5 1.0.3, then by the Debian z3 4.8.12 build when cvc5 gives up; unsat = agreement; sat would be a checker error (exit 3)"}
                                   if tier == 'thorough' else "thorough tier only"),
            "known_findings_open": [{"what": f['what'], "obligation": f.get('obligation'), "still_fails": f.get('_still_fails'),
                                     "carve_out": f.get('carve_out')} for f in open_findings],
            "fixed": fixed,
            "undecided": status['unknown'][:50], "checker_errors": status['errors'][:50],
            "samples": samples,
            "explanation": getattr(mod, '__doc__', '') or '',
        },
        "assumptions": assumptions + list(getattr(mod, 'ASSUMPTIONS', [])),
        "wall_s": round(wall, 2),
        "violations": len(status['violations']),
    }
    if n_log_ok == 0:
        # schema: a proof-level file needs discharged >= 1; report the run as explored paths instead
        del ev["coverage"]["discharged"]
        ev["coverage"]["discharged_count"] = 0
        ev["coverage"]["evaluations"] = max(1, n_inst)
        ev["coverage"]["distinct_nontrivial"] = max(2, paths)
        ev["coverage"]["rule"] = "no obligation discharged on this run; counts are obligation instances / explored paths"
    return ev


def main(argv=None):
    ap = argparse.ArgumentParser()
    ap.add_argument('prop')
    ap.add_argument('--tier', default=os.environ.get('VERIF_TIER', 'quick'))
    ap.add_argument('--only', action='append')
    ap.add_argument('--write-baseline', action='store_true')
    ap.add_argument('--replay')
    args = ap.parse_args(argv)
    seed = int(os.environ.get('VERIF_SEED', '0') or 0)
    os.environ['VERIF_TIER'] = args.tier          # contracts size their bounded dimensions by tier
    os.chdir(HERE)
    if args.replay:
        from pyvc import replay
        return replay.main(args.prop, args.replay)
    try:
        if args.write_baseline:
            return write_baseline(args.prop)
        return run_property(args.prop, args.tier, seed, only=args.only)
    except Exception as err:
        print("CHECKER-ERROR: %s: %s" % (type(err).__name__, err))
        traceback.print_exc()
        return 3
    finally:
        # stop the worker pool here: left to the interpreter's shutdown its __del__ prints a spurious traceback
        if verify.POOL is not None:
            try:
                verify.POOL.terminate()
                verify.POOL.join()
            except Exception:
                pass
            verify.POOL = None


def write_baseline(prop):
    mod = importlib.import_module('contracts.%s' % prop)
    ids = set()
    for t in getattr(mod, 'TARGETS', []):
        rep = verify.verify_target(t, cross_check=False)
        ids.update(ob.oid for ob in rep.obligations if ob.status == 'discharged')
    for l in getattr(mod, 'LEMMAS', []):
        rep = verify.verify_lemma(l)
        ids.update(ob.oid for ob in rep.obligations if ob.status == 'discharged')
    path = os.path.join(HERE, 'contracts', '%s.expected.json' % prop)
    json.dump({"property": prop, "obligations": sorted(ids)}, open(path, 'w'), indent=1)
    print("wrote %d ids to %s" % (len(ids), path))
    return 0


if __name__ == '__main__':
    sys.exit(main())
