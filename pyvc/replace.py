"""REPLACE rule: str.replace(old, new) on structured strings (leftmost, non-overlapping, all occurrences).

The haystack and the needle are flattened into streams of literal characters and opaque symbols (atoms, numerals).
An ALIGNED occurrence matches character by character / symbol by symbol (different numerals fork on equality of the
integers).  A needle that starts with an atom `a` can also occur where a different atom `h` of the haystack is followed
by the rest of the needle, provided h ends with a: that is decided by FORKING (h does not end with a | h == a |
h == h' + a), the refinement being recorded on the shared atom -- so "one producer name is the tail of another" is an
explored path, not an assumption.  Anything else that could create an occurrence raises OutsideSubset."""
from .core import Sym, OutsideSubset, Infeasible, compare
from .sstr import SStr, Lit, Num, Atom, lift, simplify, _same_num, DIGITS


def stream(s):
    out = []
    for seg in lift(s).segs:
        if isinstance(seg, Lit):
            out.extend(('c', ch) for ch in seg.text)
        elif isinstance(seg, Num):
            out.append(('n', seg))
        else:
            out.append(('a', seg))
    return out


def unstream(items):
    segs = []
    for kind, v in items:
        segs.append(Lit(v) if kind == 'c' else v)
    return simplify(SStr(segs))


def _item_match(it, x, y):
    """does haystack item x equal needle item y?  (python bool; may fork on numerals)"""
    if x[0] != y[0]:
        if {x[0], y[0]} == {'c', 'n'}:
            # a literal digit against a symbolic numeral: undetermined
            c = x[1] if x[0] == 'c' else y[1]
            if c in DIGITS:
                raise OutsideSubset("literal digit against a symbolic numeral in replace()")
            return False
        if 'a' in (x[0], y[0]):
            return None          # atom against char/numeral: handled by the caller (overlap analysis)
        return False
    if x[0] == 'c':
        return x[1] == y[1]
    if x[0] == 'a':
        return True if x[1] is y[1] else None
    r = _same_num(x[1].n, y[1].n)
    if r is True:
        return True
    return bool(it.ctx.branch(compare('==', x[1].n, y[1].n)))


def match_at(it, H, i, O):
    """aligned match of O at H[i:]: True / False; None if an atom faces something it might equal"""
    if i + len(O) > len(H):
        return False
    unknown = False
    for k, y in enumerate(O):
        r = _item_match(it, H[i + k], y)
        if r is False:
            return False
        if r is None:
            unknown = True
    return None if unknown else True


def atom_may_hold(atom, ch):
    return ch not in atom.excludes


def _rel(c):
    if not hasattr(c, 'atom_relations'):
        c.atom_relations = {}        # frozenset({x, y}) -> 'neq' | 'eq' | ('tail', longer, shorter)
        c.not_tail = set()           # (h, a): h does not properly end with a
    return c.atom_relations


def _make_equal(c, h, a):
    from .sstr import atom_len
    if getattr(h, 'len_var', None) is not None or getattr(a, 'len_var', None) is not None:
        c.assume_checked(atom_len(c, h) == atom_len(c, a))
    h.resolved = [a]
    h.sample = a.sample
    c.suffix_refinements = getattr(c, 'suffix_refinements', []) + [(h.name, a.name, 'eq')]


def refine_equal(it, h, a):
    """fork: h != a (0) | h == a (1); the relation is symmetric and remembered for the rest of the path"""
    c = it.ctx
    rel = _rel(c)
    key = frozenset((h.name, a.name))
    if key in rel:
        return 1 if rel[key] == 'eq' else 0
    if c.choice('refine:%s:equals:%s' % tuple(sorted(key)), 2) == 0:
        rel[key] = 'neq'
        return 0
    rel[key] = 'eq'
    _make_equal(c, h, a)
    return 1


def refine_suffix(it, h, a):
    """fork: h does not end with a (0) | h == a (1) | h == h' + a with h' non-empty (2)"""
    c = it.ctx
    rel = _rel(c)
    key = frozenset((h.name, a.name))
    r = rel.get(key)
    if r == 'eq':
        return 1
    if isinstance(r, tuple):
        return 2 if (r[1], r[2]) == (h.name, a.name) else 0      # the other one is the longer name
    if r is None:
        if refine_equal(it, h, a):
            return 1
    # now known: h != a
    if (h.name, a.name) in c.not_tail:
        return 0
    if c.choice('refine:%s:endswith-properly:%s' % (h.name, a.name), 2) == 0:
        c.not_tail.add((h.name, a.name))
        return 0
    from .sstr import atom_len
    rest = Atom(h.name + "'", h.excludes, (), h.first_not_digit, 'a')
    if getattr(h, 'not_stage_prefixed', False):
        rest.not_stage_prefixed = True
    if getattr(h, 'len_var', None) is not None or getattr(a, 'len_var', None) is not None:
        c.assume_checked(atom_len(c, h) == atom_len(c, rest) + atom_len(c, a))
    h.resolved = [rest, a]
    h.sample = rest.sample + a.sample
    rel[key] = ('tail', h.name, a.name)
    c.suffix_refinements = getattr(c, 'suffix_refinements', []) + [(h.name, a.name, 'tail')]
    return 2


def occurs(it, hay, needle):
    """does `needle` occur in `hay`?  (same occurrence analysis as replace_all)"""
    marker = SStr([Lit('\x00')])
    r = replace_all(it, hay, needle, marker)
    return '\x00' in (r if isinstance(r, str) else ''.join(s.text for s in lift(r).segs if isinstance(s, Lit)))


def replace_all(it, hay, old, new, *count):
    limit = None
    if count and count[0] not in (-1, None):
        if not isinstance(count[0], int):
            raise OutsideSubset("str.replace with a symbolic count")
        limit = count[0]
    if isinstance(hay, str) and isinstance(old, str) and isinstance(new, str):
        return hay.replace(old, new)
    for _round in range(12):
        H, O = stream(hay), stream(old)
        if not O:
            raise OutsideSubset("replace of the empty string")
        restart = False
        out, i = [], 0
        done = 0
        while i < len(H):
            if limit is not None and done >= limit:
                out.extend(H[i:])              # str.replace(old, new, count): only the first `count` occurrences
                break
            r = match_at(it, H, i, O)
            if r is True:
                out.extend(stream(new))
                i += len(O)
                done += 1
                continue
            if r is None:
                # some atom of the needle faces a different atom / character of the haystack
                for k, y in enumerate(O):
                    x = H[i + k]
                    if y[0] == 'a' and x[0] == 'a' and x[1] is not y[1]:
                        # equal-length alignment of two different atoms: they match iff they are equal strings
                        if k == 0:
                            rr = refine_suffix(it, x[1], y[1])
                        else:
                            # both atoms start at the same (aligned) position; if both are followed by the same
                            # delimiter that neither can hold, the needle matches here iff the atoms are equal
                            nx = H[i + k + 1] if i + k + 1 < len(H) else None
                            ny = O[k + 1] if k + 1 < len(O) else None
                            if nx and ny and nx[0] == 'c' and ny[0] == 'c' and nx[1] == ny[1] and \
                                    not atom_may_hold(x[1], nx[1]) and not atom_may_hold(y[1], nx[1]):
                                rr = refine_equal(it, x[1], y[1])
                            else:
                                rr = None
                        if rr is None:
                            raise OutsideSubset("replace(): atom %r against atom %r inside a needle" % (y[1], x[1]))
                        if rr:
                            restart = True
                        break
                    if (y[0] == 'a') != (x[0] == 'a'):
                        a_item, o_item = (y, x) if y[0] == 'a' else (x, y)
                        if o_item[0] == 'c' and not atom_may_hold(a_item[1], o_item[1]):
                            break      # cannot match here
                        if o_item[0] == 'c' and o_item[1] in DIGITS and a_item[1].first_not_digit:
                            break      # both items START at this position: a name that does not start with a digit
                        if o_item[0] == 'n' and (a_item[1].first_not_digit or DIGITS <= a_item[1].excludes):
                            break      # a name that does not start with a digit cannot be (the tail of) a numeral
                        raise OutsideSubset("replace(): %r against %r is not determined" % (x, y))
                if restart:
                    break
            out.append(H[i])
            i += 1
        if restart:
            continue
        return unstream(out)
    raise OutsideSubset("replace(): refinement did not converge")
