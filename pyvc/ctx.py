"""Path context: inputs, path condition, forking by re-execution, obligations, ghost state."""
import time
import z3
from .core import (Sym, OutsideSubset, EngineError, Infeasible, PathLimit, PyRaise, ExcVal, wrap, to_z3,
                   And, Or, Not)
from .values import GuardedList, SymSet, SymMap, MapBox, Obj, Extern, set_current_ctx


class Obligation:
    __slots__ = ('oid', 'kind', 'label', 'pc', 'goal', 'path', 'info', 'status', 'backend', 'seconds',
                 'model', 'choices', 'solver_out', 'ctx')

    def __init__(self, oid, kind, label, pc, goal, path, info=None, choices=None):
        self.oid, self.kind, self.label = oid, kind, label
        self.pc, self.goal, self.path, self.info = pc, goal, path, info
        self.status = None        # 'discharged' | 'refuted' | 'unknown'
        self.backend = None
        self.seconds = 0.0
        self.model = None
        self.choices = dict(choices or {})
        self.solver_out = ''


class Ctx:
    """One execution of setup + target under a decision prefix (symbolic) or a model (concrete)."""

    def __init__(self, mode='sym', decisions=None, model=None, choices=None, native=False, feas_timeout_ms=4000):
        self.mode = mode                 # 'sym' | 'concrete'
        self.native = native             # True: the REAL function runs natively (externs raise real exceptions)
        self.decisions = list(decisions or [])
        self.dpos = 0
        self.pending = []                # alternative decision prefixes discovered on this path
        self.pc = []
        self.inputs = {}                 # name -> z3 const   (sym)  /  name -> python value (concrete)
        self.model = dict(model or {})   # concrete mode: input name -> python value
        self.given_choices = dict(choices or {})
        self.choices = {}                # name#k -> index taken on this path
        self._name_count = {}
        self.ghost = {}
        self.events = []                 # ghost effect trace
        self.extern_calls = {}
        self.obligations = []            # (label, kind, goal, info) recorded on this path
        self.covered = set()             # branch-site ids reached
        self.notes = []
        self._solver = None
        self.feas_timeout_ms = feas_timeout_ms
        self.solver_calls = 0
        self.solver_seconds = 0.0
        self.map_inputs = {}             # name -> (dom array, val array)
        self.key_literals = set()        # concrete strings used as map keys (relevant keys for models)
        self.split_registry = []         # (joined z3 string, separator, [parts])
        self.no_fork = 0

    # ------------------------------------------------------------------ solver / forking
    @property
    def solver(self):
        if self._solver is None:
            self._solver = z3.Solver()
            self._solver.set('timeout', self.feas_timeout_ms)
        return self._solver

    def feasible(self, e):
        t = time.time()
        r = self.solver.check(e)
        self.solver_calls += 1
        self.solver_seconds += time.time() - t
        return r != z3.unsat

    def assume(self, cond):
        if isinstance(cond, bool):
            if not cond:
                raise Infeasible()
            return
        e = cond.e if isinstance(cond, Sym) else cond
        if self.mode != 'sym':
            raise EngineError("symbolic assume in concrete mode")
        self.pc.append(e)
        self.solver.add(e)

    def assume_checked(self, cond):
        """assume + stop the path if it became infeasible"""
        self.assume(cond)
        if self.mode == 'sym' and not self.feasible(z3.BoolVal(True)):
            raise Infeasible()

    def branch(self, cond, site=None):
        """Decide a python truth value; forks when symbolic and both sides are feasible."""
        if isinstance(cond, bool):
            d = cond
        else:
            if self.mode != 'sym':
                raise EngineError("symbolic condition in concrete mode: %r" % (cond,))
            e = cond.e if isinstance(cond, Sym) else cond
            e = z3.simplify(e)
            if z3.is_true(e):
                d = True
            elif z3.is_false(e):
                d = False
            else:
                if self.dpos < len(self.decisions):
                    d = self.decisions[self.dpos]
                else:
                    can_t = self.feasible(e)
                    can_f = self.feasible(z3.Not(e))
                    if can_t and can_f and self.no_fork:
                        raise OutsideSubset("a fork inside a symbolic comprehension / quantified body: %s" % e)
                    if can_t and can_f:
                        self.pending.append(self.decisions[:] + [False])
                        d = True
                    elif can_t:
                        d = True
                    elif can_f:
                        d = False
                    else:
                        raise Infeasible()
                    self.decisions.append(d)
                self.dpos += 1
                self.assume(e if d else z3.Not(e))
        if site is not None:
            self.covered.add((site, d))
        return d

    def _occ(self, name):
        k = self._name_count.get(name, 0)
        self._name_count[name] = k + 1
        return name if k == 0 else "%s#%d" % (name, k)

    def choice(self, name, n):
        """n-way named fork (extern outcomes, optional values...).  Returns the index taken."""
        key = self._occ(name)
        if self.mode != 'sym':
            idx = int(self.given_choices.get(key, 0))
            if idx >= n:
                idx = 0
            self.choices[key] = idx
            return idx
        if self.dpos < len(self.decisions):
            idx = self.decisions[self.dpos]
        else:
            for alt in range(n - 1, 0, -1):
                self.pending.append(self.decisions[:] + [alt])
            idx = 0
            self.decisions.append(idx)
        self.dpos += 1
        self.choices[key] = idx
        return idx

    def permute(self, items, name='set-order'):
        """UNORDERED rule: an arbitrary permutation of `items` (iteration order of a set / listdir / glob)"""
        import itertools
        items = list(items)
        if len(items) <= 1:
            return items
        if len(items) > 4:
            raise OutsideSubset("iteration over an unordered collection of %d elements" % len(items))
        perms = list(itertools.permutations(range(len(items))))
        idx = self.choice(name, len(perms))
        return [items[i] for i in perms[idx]]

    def one_of(self, name, alternatives):
        """fork over a list of thunks/values; thunks are called only for the taken alternative"""
        idx = self.choice(name, len(alternatives))
        v = alternatives[idx]
        return v() if callable(v) and not isinstance(v, (Extern, Obj)) else v

    # ------------------------------------------------------------------ inputs
    def _input(self, name, sort, default):
        key = self._occ(name)
        if self.mode == 'sym':
            cst = z3.Const(key, sort)
            self.inputs[key] = cst
            return Sym(cst)
        v = self.model.get(key, default)
        self.inputs[key] = v
        return v

    def int(self, name, sample=0):
        # `sample`: the value native runs use when no model gives one (replay of a path the engine could not decide)
        return self._input(name, z3.IntSort(), sample)

    def bool(self, name):
        return self._input(name, z3.BoolSort(), False)

    def real(self, name):
        v = self._input(name, z3.RealSort(), 0.0)
        return float(v) if self.mode != 'sym' else v

    def str(self, name, sample=""):
        return self._input(name, z3.StringSort(), sample)

    def enum(self, name, values):
        """a string drawn from a finite list of literals"""
        v = self._input(name, z3.StringSort(), values[0])
        if self.mode == 'sym':
            self.assume(z3.Or([v.e == z3.StringVal(x) for x in values]))
        elif v not in values:
            raise EngineError("model value %r for %s outside its enumeration" % (v, name))
        return v

    def map(self, name, ksort=None, vsort=None):
        """a dict with arbitrary (symbolic) string keys and values.  Concrete mode: the python dict read
        from the model at the relevant keys (see verify.model_inputs)."""
        key = self._occ(name)
        if self.mode == 'sym':
            ks, vs = ksort or z3.StringSort(), vsort or z3.StringSort()
            dom = z3.Const(key + '.dom', z3.ArraySort(ks, z3.BoolSort()))
            val = z3.Const(key + '.val', z3.ArraySort(ks, vs))
            self.map_inputs[key] = (dom, val)
            return MapBox(SymMap(dom, val, ks, vs))
        if key in self.model:
            d = dict(self.model[key])
        else:
            # no model (replay of a path on the contract's samples): one entry of its own per map, so that a value that
            # leaks from one map into a result built from another one is visible
            tag = ''.join(ch if ch.isalnum() else '_' for ch in key).upper()
            d = {'SAMPLE_%s' % tag: 'value-of-%s' % key}
        self.inputs[key] = d
        return d

    def joined(self, name, sep, nparts):
        """a string  p1 sep p2 ... (parts are symbolic strings without sep); .split(sep) returns the parts"""
        parts = [self.str('%s.part%d' % (name, i)) for i in range(nparts)]
        if self.mode != 'sym':
            for p in parts:
                if sep in p:
                    raise EngineError("model part %r contains the separator" % p)
            return sep.join(parts)
        for p in parts:
            self.assume(z3.Not(z3.Contains(p.e, z3.StringVal(sep))))
        exprs = []
        for i, p in enumerate(parts):
            if i:
                exprs.append(z3.StringVal(sep))
            exprs.append(p.e)
        j = z3.Concat(*exprs) if len(exprs) > 1 else exprs[0]
        self.split_registry.append((j, sep, parts))
        return Sym(j)

    def join_parts(self, sep, parts):
        """the string  parts[0] sep parts[1] ...  with its structure registered for split(sep[, 1])"""
        if self.mode != 'sym':
            return sep.join(str(p) for p in parts)
        from .core import to_z3
        exprs = []
        for i, p in enumerate(parts):
            if i:
                exprs.append(z3.StringVal(sep))
            exprs.append(to_z3(p))
        j = z3.Concat(*exprs) if len(exprs) > 1 else exprs[0]
        self.split_registry.append((j, sep, [p if isinstance(p, (Sym, str)) else Sym(p) for p in parts]))
        return Sym(j)

    def numeral(self, i):
        """str(i) for a non-negative (symbolic) integer"""
        if self.mode != 'sym' or isinstance(i, int):
            return str(i)
        return Sym(z3.IntToStr(i.e))

    def atom(self, name, sample, excludes='', distinct_from=(), **facts):
        """an arbitrary non-empty string over the complement of `excludes` (structured-string atom); native runs use
        the model's value or `sample`"""
        if self.mode != 'sym':
            v = self.model.get(name, sample)
            self.inputs[name] = v
            return v
        from .sstr import SStr, Atom
        a = Atom(name, excludes, distinct_from, facts.pop('first_not_digit', False), sample)
        for k, v in facts.items():
            setattr(a, k, v)
        self.atoms = getattr(self, 'atoms', {})
        self.atoms[name] = a
        return SStr([a])

    def push_scope(self, assumption):
        """temporary assumption (body of a symbolic comprehension); no forks allowed inside"""
        self.solver.push()
        self._scopes = getattr(self, '_scopes', [])
        self._scopes.append(len(self.pc))
        e = assumption.e if isinstance(assumption, Sym) else assumption
        if not isinstance(e, bool):
            self.pc.append(e)
            self.solver.add(e)
        self.no_fork += 1

    def pop_scope(self):
        self.no_fork -= 1
        del self.pc[self._scopes.pop():]
        self.solver.pop()

    def inputs_value(self, name):
        v = self.inputs[name]
        return Sym(v) if self.mode == 'sym' else v

    def sublist(self, name, universe):
        """a list containing an arbitrary subset of `universe` (in that order)"""
        if self.mode == 'sym':
            items = []
            for u in universe:
                g = self._input("%s[%s]" % (name, u), z3.BoolSort(), False)
                items.append((g.e, u))
            return GuardedList(items)
        out = []
        for u in universe:
            if self._input("%s[%s]" % (name, u), z3.BoolSort(), False):
                out.append(u)
        return out

    # ------------------------------------------------------------------ exceptions / events
    def raise_(self, cls, *args):
        """raise an exception of the REAL class `cls` from an extern model"""
        if self.native:
            raise cls(*args)
        raise PyRaise(ExcVal(cls, args))

    def event(self, *ev):
        self.events.append(tuple(ev))

    # ------------------------------------------------------------------ obligations
    def oblige(self, label, goal, kind='ensures', info=None):
        # the path condition is snapshotted (by length: it only grows along a path)
        self.obligations.append((label, kind, goal, info, len(self.pc)))

    def require(self, cond):
        """constraint on inputs built by setup(): assumed symbolically, checked on concrete models"""
        if self.mode == 'sym':
            self.assume_checked(cond)
        elif cond is not True:
            raise EngineError("model violates a setup constraint: %r" % (cond,))

    def note(self, s):
        self.notes.append(s)


class PathResult:
    def __init__(self, ctx, outcome, value, state):
        self.ctx = ctx
        self.outcome = outcome        # 'return' | 'raise' | 'infeasible'
        self.value = value
        self.state = state


def explore(run_path, max_paths=4000, feas_timeout_ms=4000):
    """Enumerate all paths of run_path(ctx) by re-execution under decision prefixes.
    run_path must be deterministic given the decisions.  Yields PathResult objects."""
    work = [[]]
    n = 0
    while work:
        prefix = work.pop()
        n += 1
        if n > max_paths:
            raise PathLimit("more than %d paths" % max_paths)
        ctx = Ctx('sym', decisions=prefix, feas_timeout_ms=feas_timeout_ms)
        set_current_ctx(ctx)
        try:
            res = run_path(ctx)
        except Infeasible:
            res = PathResult(ctx, 'infeasible', None, None)
        finally:
            set_current_ctx(None)
        work.extend(ctx.pending)
        yield res
