"""Deliberately broken bodies (DESIGN 5.3), thorough tier.

mutants/Cxx.json lists small semantic edits of the functions under contract.  Each edit is applied to a SCRATCH COPY
of /repo's python tree (mkdtemp outside /repo and /verif, removed afterwards; /repo is never touched), the property's
quick check is run against that copy (PYVC_REPO / PYTHONPATH point at it, evidence and replays are redirected into the
scratch directory) and the edit counts as KILLED iff the check exits 1 with a VIOLATION line.  Everything else is
reported: 'survived' (exit 0: the contracts do not notice the edit), 'undecided'/'checker-error' (exit 2/3),
'pattern-missing' (the text to edit no longer occurs exactly once in the current /repo source).

A surviving mutant is a statement about the STRENGTH of the contracts, not about the property on the current tree, so
it never changes the exit status of the property check; it is listed in the evidence under coverage.mutants.
"""
import json
import os
import shutil
import subprocess
import sys
import tempfile
import time

HERE = os.path.dirname(os.path.dirname(os.path.abspath(__file__)))
REPO = os.environ.get('PYVC_REPO', '/repo')


def load(prop):
    path = os.path.join(HERE, 'mutants', '%s.json' % prop)
    if not os.path.exists(path):
        return []
    return json.load(open(path))['mutants']


def run_one(prop, m, keep_output=False):
    scratch = tempfile.mkdtemp(prefix='pyvc-mut-%s-' % prop)
    t0 = time.time()
    res = {"id": m.get('id'), "file": m.get('file') or m.get('patch'), "why": m.get('why', '')}
    try:
        shutil.copytree(os.path.join(REPO, 'python'), os.path.join(scratch, 'python'),
                        ignore=shutil.ignore_patterns('__pycache__', '*.pyc', '*.egg-info'))
        if m.get('patch'):
            # a whole diff (a seeded change kept under seeded/<id>/patch.diff), applied with git apply in the scratch copy
            r = subprocess.run(['git', 'apply', '--unsafe-paths', '--directory', scratch, os.path.abspath(m['patch'])],
                               cwd=scratch, capture_output=True, text=True)
            if r.returncode != 0:
                res.update(status='pattern-missing', detail="patch does not apply: %s" % r.stderr[-300:])
                return res
        else:
            path = os.path.join(scratch, m['file'])
            src = open(path).read()
            n = src.count(m['old'])
            if (n != 1 and not m.get('replace_all')) or n == 0:
                res.update(status='pattern-missing', detail="text occurs %d times" % n)
                return res
            open(path, 'w').write(src.replace(m['old'], m['new']))
            try:
                compile(open(path).read(), path, 'exec')
            except SyntaxError as err:
                res.update(status='bad-mutant', detail="does not compile: %s" % err)
                return res
        env = dict(os.environ, PYVC_REPO=scratch, PYVC_OUT=os.path.join(scratch, 'out'), PYVC_NO_MUTANTS='1',
                   PYTHONPATH=os.path.join(scratch, 'python'), PYTHONDONTWRITEBYTECODE='1')
        cmd = [sys.executable, '-m', 'pyvc.check', prop, '--tier', 'quick']
        for o in m.get('only', []):
            cmd += ['--only', o]
        r = subprocess.run(cmd, cwd=HERE, env=env, capture_output=True, text=True, timeout=int(m.get('timeout', 1800)))
        lines = r.stdout.split('\n')
        failed = [l.strip()[len('failed obligation: '):] for l in lines if l.strip().startswith('failed obligation:')]
        viol = [l for l in lines if l.startswith('VIOLATION')]
        res['exit'] = r.returncode
        res['failed_obligations'] = sorted(set(f.split(' [')[0] for f in failed))[:6]
        res['no_failing_input'] = bool(viol) and all(v.endswith('no-failing-input-found') for v in viol)
        if m.get('neutral'):
            # a behaviour-preserving edit (renamed local, reordered independent statements, equivalent rewrite):
            # the check must stay silent
            res['neutral'] = True
            res['status'] = 'neutral-ok' if r.returncode == 0 else ('FALSE-ALARM' if r.returncode == 1 else
                                                                   'neutral-not-decided(exit %d)' % r.returncode)
            if r.returncode != 0:
                res['detail'] = [l for l in lines if l.startswith(('UNDECIDED', 'CHECKER-ERROR', 'VIOLATION'))][:3]
        elif r.returncode == 1 and viol:
            res['status'] = 'killed'
            exp = m.get('expect')
            if exp and not any(exp in f for f in failed):
                res['note'] = "killed, but not by the expected clause %r" % exp
        elif r.returncode == 0:
            res['status'] = 'survived'
        elif r.returncode == 2:
            res['status'] = 'undecided'
            res['detail'] = [l for l in lines if l.startswith('UNDECIDED')][:3]
        else:
            res['status'] = 'checker-error'
            res['detail'] = ([l for l in lines if l.startswith('CHECKER-ERROR')][:3] or [r.stderr[-400:]])
        if keep_output:
            res['stdout_tail'] = r.stdout[-1500:]
        return res
    except subprocess.TimeoutExpired:
        res.update(status='timeout')
        return res
    finally:
        res['seconds'] = round(time.time() - t0, 1)
        shutil.rmtree(scratch, ignore_errors=True)


def run_all(prop, say=print, ids=None, budget_s=None):
    ms = load(prop)
    out = []
    t_start = time.time()
    skipped = 0
    # most recent additions first: when the time budget of the thorough tier runs out, the oldest edits (which have been
    # run many times) are the ones left out
    order = list(enumerate(ms))
    if budget_s:
        order = order[::-1]
    for i, m in order:
        m.setdefault('id', 'm%02d' % (i + 1))
        if ids and m['id'] not in ids:
            continue
        if budget_s and time.time() - t_start > budget_s:
            skipped += 1
            continue
        r = run_one(prop, m)
        out.append(r)
        say("  [mutant] %-4s %-15s %-60s %s" % (r['id'], r['status'], (m.get('why') or '')[:60],
                                               ', '.join(x.split('/')[-1] for x in r.get('failed_obligations', []))[:90]))
    breaking = [r for r in out if not r.get('neutral')]
    neutral = [r for r in out if r.get('neutral')]
    summary = {"total": len(breaking), "killed": sum(1 for r in breaking if r['status'] == 'killed'),
               "survived": [r for r in breaking if r['status'] == 'survived'],
               "not_decided": [r for r in breaking if r['status'] not in ('killed', 'survived')],
               "neutral_edits": len(neutral), "neutral_edits_silent": sum(1 for r in neutral if r['status'] == 'neutral-ok'),
               "neutral_edits_alarmed": [r for r in neutral if r['status'] != 'neutral-ok'],
               "not_run_time_budget": skipped, "time_budget_s": budget_s,
               "results": out,
               "how": "each edit applied to a scratch copy of /repo/python, quick check run against the copy; killed = exit 1 "
                      "with a VIOLATION line"}
    return summary


if __name__ == '__main__':
    prop = sys.argv[1]
    s = run_all(prop, ids=set(sys.argv[2:]) or None)
    print("%s: %d/%d mutants killed; survived: %s; not decided: %s; neutral edits silent %d/%d" % (
        prop, s['killed'], s['total'], [r['id'] for r in s['survived']], [(r['id'], r['status']) for r in s['not_decided']],
        s['neutral_edits_silent'], s['neutral_edits']))
    for r in s['survived'] + s['not_decided'] + s['neutral_edits_alarmed']:
        print(json.dumps(r, indent=1)[:1500])
