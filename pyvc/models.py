"""Models of python built-ins, methods, subscripting and containment over mixed values."""
import ast
import builtins
import copy
import functools
import operator
import os
import re as _re
import z3

from .core import (Sym, OutsideSubset, EngineError, PyRaise, ExcVal, py_raise, binop, unop, compare, wrap, to_z3,
                   And, Or, Not, Eq, If)
from .values import Native, Obj, Extern, GuardedList, SymSet, SymMap, MapBox, SymArr, ModelValue, FlexDict, unflex, SymBytes, Uninterp, IdSet
from . import strings


def _native(f, *a, **k):
    try:
        return f(*a, **k)
    except OutsideSubset:
        raise
    except Exception as err:
        raise PyRaise(ExcVal(type(err), err.args))


def _conc(v):
    from .interp import deep_concrete
    return deep_concrete(v)


# ------------------------------------------------------------------------------ comparisons
def compare_values(it, op, a, b):
    """== etc. on arbitrary values (lists/tuples/dicts compare structurally)"""
    if isinstance(a, Sym) or isinstance(b, Sym):
        if isinstance(a, (list, tuple, dict, set, Obj, ExcVal)) or isinstance(b, (list, tuple, dict, set, Obj, ExcVal)) \
                or a is None or b is None:
            if op == '==':
                return False
            if op == '!=':
                return True
            py_raise(TypeError, "unorderable")
        return compare(op, a, b)
    if isinstance(a, (list, tuple)) and isinstance(b, (list, tuple)) and type(a) is type(b) and op in ('==', '!='):
        if _conc(a) and _conc(b):
            return (a == b) if op == '==' else (a != b)
        if len(a) != len(b):
            return op == '!='
        r = And(*[_as_bool(compare_values(it, '==', x, y)) for x, y in zip(a, b)]) if a else True
        return r if op == '==' else (Not(r) if not isinstance(r, bool) else not r)
    if isinstance(a, dict) and isinstance(b, dict) and op in ('==', '!='):
        if _conc(a) and _conc(b):
            return (a == b) if op == '==' else (a != b)
        if set(a.keys()) != set(b.keys()):
            return op == '!='
        r = And(*[_as_bool(compare_values(it, '==', a[k], b[k])) for k in a]) if a else True
        return r if op == '==' else (Not(r) if not isinstance(r, bool) else not r)
    from .sstr import SStr
    if isinstance(a, SStr) or isinstance(b, SStr):
        return a._compare(op, b) if isinstance(a, SStr) else b._rcompare(op, a)
    if isinstance(a, (Obj, ExcVal, ModelValue, MapBox)) or isinstance(b, (Obj, ExcVal, ModelValue, MapBox)):
        if op == '==':
            return a is b
        if op == '!=':
            return a is not b
        raise OutsideSubset("ordering of stub objects")
    return compare(op, a, b)


def _as_bool(v):
    return v


def contains(it, container, x):
    c = it.ctx
    container = unflex(container)
    if type(container).__name__ == 'SStr' or (isinstance(container, str) and type(x).__name__ == 'SStr'):
        from . import sstr
        if type(x).__name__ == 'SStr' or (isinstance(x, str) and len(x) > 1 and not sstr.lift(container).is_literal()):
            from .replace import occurs
            return occurs(it, container, x)
        return sstr.contains_char(sstr.lift(container), x)
    if isinstance(container, IdSet):
        rs = [compare_values(it, '==', x, v) for v in container.items]
        return Or(*rs) if rs else False
    if isinstance(container, GuardedList):
        return container.contains(x)
    if isinstance(container, SymSet):
        return container.contains(x)
    if isinstance(container, MapBox):
        return container.m.has(x)
    if isinstance(container, (list, tuple)):
        if isinstance(x, (Sym, ModelValue)) or not _conc(container):
            rs = [compare_values(it, '==', x, v) for v in container]
            return Or(*rs) if rs else False
        return _native(operator.contains, container, x)
    if isinstance(container, (dict, set, frozenset)) or isinstance(container, type({}.keys())):
        keys = list(container.keys()) if isinstance(container, dict) else list(container)
        if isinstance(x, (Sym, ModelValue)) and not isinstance(x, (MapBox,)) and type(x).__name__ in ('Sym', 'SStr'):
            rs = [compare_values(it, '==', x, k) for k in keys]
            return Or(*rs) if rs else False
        if isinstance(x, (Obj, ModelValue)):
            return any(k is x for k in keys)
        return _native(operator.contains, container, x)
    if isinstance(container, str):
        if isinstance(x, Sym):
            if x.kind != 'str':
                py_raise(TypeError, "'in <string>' requires string as left operand")
            return wrap(z3.Contains(z3.StringVal(container), x.e))
        return _native(operator.contains, container, x)
    if isinstance(container, Sym) and container.kind == 'str':
        if isinstance(x, str) or (isinstance(x, Sym) and x.kind == 'str'):
            return wrap(z3.Contains(container.e, to_z3(x)))
        py_raise(TypeError, "'in <string>' requires string as left operand")
    if isinstance(container, Obj) and container.has_field('__contains__'):
        return it.call_value(container.field('__contains__'), [x], {})
    raise OutsideSubset("`in` on %s" % type(container).__name__)


# ------------------------------------------------------------------------------ subscripts
def getitem(it, o, k):
    c = it.ctx
    o = unflex(o)
    if isinstance(o, dict):
        if isinstance(k, Sym) or type(k).__name__ == 'SStr':
            for key in list(o.keys()):
                if c.branch(compare_values(it, '==', k, key)):
                    return o[key]
            py_raise(KeyError, k)
        if isinstance(k, (Obj,)):
            for key in o:
                if key is k:
                    return o[key]
            py_raise(KeyError, k)
        try:
            return o[k]
        except KeyError:
            py_raise(KeyError, k)
        except TypeError as err:
            raise PyRaise(ExcVal(TypeError, err.args))
    if isinstance(o, (list, tuple, str)):
        if isinstance(k, slice):
            if any(isinstance(x, Sym) for x in (k.start, k.stop, k.step)):
                raise OutsideSubset("slice with symbolic bounds")
            return o[k]
        if isinstance(k, Sym):
            if k.kind != 'int':
                py_raise(TypeError, "indices must be integers")
            n = len(o)
            for i in range(-n, n):
                if c.branch(compare('==', k, i)):
                    return o[i]
            py_raise(IndexError, "index out of range")
        return _native(operator.getitem, o, k)
    if isinstance(o, MapBox):
        if c.branch(o.m.has(k)):
            return o.m.at(k)
        py_raise(KeyError, k)
    if isinstance(o, SymArr):
        if isinstance(k, slice):
            raise OutsideSubset("slice of symbolic list")
        inb = And(compare('>=', k, 0), compare('<', k, o.length))
        if c.branch(inb):
            return o.at(k)
        neg = And(compare('<', k, 0), compare('>=', k, unop('-', o.length)))
        if c.branch(neg):
            return o.at(binop('+', o.length, k))
        py_raise(IndexError, "list index out of range")
    if isinstance(o, Sym) and o.kind == 'str':
        raise OutsideSubset("subscript of a symbolic string")
    if type(o).__name__ == 'SStr':
        return o.getitem(k)
    if isinstance(o, Obj) and o.has_field('__getitem__'):
        return it.call_value(o.field('__getitem__'), [k], {})
    if isinstance(o, Native):
        return _native(operator.getitem, o, k)
    if o is None:
        py_raise(TypeError, "'NoneType' object is not subscriptable")
    if isinstance(o, (Sym, ModelValue, Obj, Extern)):
        raise OutsideSubset("subscript of %s" % type(o).__name__)
    if _conc(k):
        return _native(operator.getitem, o, k)
    raise OutsideSubset("subscript of %s" % type(o).__name__)


def setitem(it, o, k, v):
    c = it.ctx
    o = unflex(o)
    if isinstance(o, FlexDict) and isinstance(k, Sym):
        o = o.to_sym()
        if o.m is None:
            o.m = SymMap.empty(k.e.sort(), to_z3(v).sort())
    if isinstance(o, dict):
        if isinstance(k, Sym):
            for key in list(o.keys()):
                if c.branch(compare_values(it, '==', k, key)):
                    o[key] = v
                    return
            raise OutsideSubset("store of a new symbolic key into a python dict")
        o[k] = v
        return
    if isinstance(o, list):
        if isinstance(k, Sym):
            n = len(o)
            for i in range(-n, n):
                if c.branch(compare('==', k, i)):
                    o[i] = v
                    return
            py_raise(IndexError, "list assignment index out of range")
        try:
            o[k] = v
        except (IndexError, TypeError) as err:
            raise PyRaise(ExcVal(type(err), err.args))
        return
    if isinstance(o, MapBox):
        o.m = o.m.store(k, v)
        return
    if isinstance(o, Obj) and o.has_field('__setitem__'):
        it.call_value(o.field('__setitem__'), [k, v], {})
        return
    raise OutsideSubset("item store on %s" % type(o).__name__)


def delitem(it, o, k):
    c = it.ctx
    o = unflex(o)
    if isinstance(o, dict):
        if isinstance(k, Sym):
            for key in list(o.keys()):
                if c.branch(compare_values(it, '==', k, key)):
                    del o[key]
                    return
            py_raise(KeyError, k)
        try:
            del o[k]
        except KeyError:
            py_raise(KeyError, k)
        return
    if isinstance(o, list) and not isinstance(k, Sym):
        _native(operator.delitem, o, k)
        return
    if isinstance(o, MapBox):
        if c.branch(o.m.has(k)):
            o.m = o.m.delete(k)
            return
        py_raise(KeyError, k)
    raise OutsideSubset("del item on %s" % type(o).__name__)


# ------------------------------------------------------------------------------ methods
def _is_repo_deep_copy(f):
    return getattr(f, '__name__', '') == 'deep_copy' and (getattr(f, '__module__', '') or '').startswith('experiment.')


def call_method(it, obj, name, args, kwargs):
    c = it.ctx
    obj = unflex(obj)
    args = [unflex(a) for a in args]
    if isinstance(obj, FlexDict) and name == 'update' and args and isinstance(args[0], MapBox):
        box = obj.to_sym()
        if box.m is None:
            box.m = args[0].m.copy()
            return None
        obj = box
    if isinstance(obj, dict):
        return _dict_method(it, obj, name, args, kwargs)
    if isinstance(obj, list):
        return _list_method(it, obj, name, args, kwargs)
    if isinstance(obj, MapBox):
        return _map_method(it, obj, name, args, kwargs)
    if isinstance(obj, ModelValue) and hasattr(obj, 'call_method'):
        return obj.call_method(it, name, args, kwargs)
    if isinstance(obj, IdSet):
        if name == 'add':
            if not any(y is args[0] for y in obj.items):
                obj.items.append(args[0])
            return None
        if name in ('difference_update', 'difference'):
            other = args[0].items if isinstance(args[0], IdSet) else list(it.iterate(args[0]))
            keep = [x for x in obj.items if not any(y is x for y in other)]
            if name == 'difference':
                return IdSet(keep)
            obj.items[:] = keep
            return None
        if name in ('update', 'union'):
            tgt = obj if name == 'update' else IdSet(obj.items)
            for x in (args[0].items if isinstance(args[0], IdSet) else it.iterate(args[0])):
                if not any(y is x for y in tgt.items):
                    tgt.items.append(x)
            return None if name == 'update' else tgt
        if name == 'copy':
            return IdSet(obj.items)
        raise OutsideSubset("set.%s on a set with symbolic members" % name)
    if isinstance(obj, GuardedList):
        if name == 'copy':
            return GuardedList(obj.items)
        if name == '__contains__':
            return obj.contains(args[0])
    if isinstance(obj, Sym) and obj.kind == 'str':
        if name == 'encode':
            return SymBytes(obj, (list(args) + [kwargs.get('encoding', 'utf-8')])[0])
        return _symstr_method(it, obj, name, args, kwargs)
    if isinstance(obj, SymBytes) and name == 'decode':
        codec = (list(args) + [kwargs.get('encoding', 'utf-8')])[0]
        if codec == obj.codec:
            return obj.s
        # e.g. s.encode('unicode_escape').decode('utf-8'): an (uninterpreted) function of the string
        return Uninterp('recode_%s_to_%s' % (obj.codec.replace('-', ''), codec.replace('-', ''))).apply(obj.s)
    if isinstance(obj, (str, tuple, int, float, bytes, frozenset, set)):
        if all(_conc(a) for a in args) and all(_conc(v) for v in kwargs.values()):
            return _native(getattr(obj, name), *args, **kwargs)
        if isinstance(obj, str):
            return _str_method_symargs(it, obj, name, args, kwargs)
        if isinstance(obj, set) and name in ('add', 'discard', 'remove') and len(args) == 1 and isinstance(args[0], Obj):
            # a stub object is a set member by identity (distinct stubs never alias)
            try:
                return getattr(obj, name)(args[0])
            except KeyError as err:
                raise PyRaise(ExcVal(KeyError, err.args))
        if isinstance(obj, set) and name == 'add':
            raise OutsideSubset("adding a symbolic value to a python set")
    raise OutsideSubset("method %s.%s" % (type(obj).__name__, name))


def _dict_method(it, d, name, args, kwargs):
    c = it.ctx
    if name == 'get':
        k = args[0]
        default = args[1] if len(args) > 1 else kwargs.get('default', None)
        if isinstance(k, Sym) or type(k).__name__ == 'SStr':
            for key in list(d.keys()):
                if c.branch(compare_values(it, '==', k, key)):
                    return d[key]
            return default
        if isinstance(k, Obj):
            for key in d:
                if key is k:
                    return d[key]
            return default
        return _native(d.get, k, default)
    if name == 'copy':
        return FlexDict(d)
    if name in ('keys', 'values', 'items', 'clear', 'popitem'):
        r = getattr(d, name)(*args)
        return list(r) if name in ('keys', 'values', 'items') else r
    if name == 'update':
        for a in args:
            if isinstance(a, dict):
                d.update(a)
            elif isinstance(a, MapBox):
                raise OutsideSubset("python dict (not created by the interpreted code) updated with symbolic map")
            else:
                for k, v in it.iterate(a):
                    d[k] = v
        d.update(kwargs)
        return None
    if name == 'pop':
        k = args[0]
        if isinstance(k, Sym):
            for key in list(d.keys()):
                if c.branch(compare_values(it, '==', k, key)):
                    return d.pop(key)
            if len(args) > 1:
                return args[1]
            py_raise(KeyError, k)
        if len(args) > 1:
            return d.pop(k, args[1])
        try:
            return d.pop(k)
        except KeyError:
            py_raise(KeyError, k)
    if name == 'setdefault':
        k = args[0]
        if isinstance(k, Sym):
            raise OutsideSubset("setdefault with symbolic key")
        return d.setdefault(k, args[1] if len(args) > 1 else None)
    if name == '__contains__':
        return contains(it, d, args[0])
    raise OutsideSubset("dict.%s" % name)


def _list_method(it, l, name, args, kwargs):
    c = it.ctx
    if name == 'append':
        l.append(args[0])
        return None
    if name == 'extend':
        l.extend(it.iterate(args[0]))
        return None
    if name == 'insert':
        if isinstance(args[0], Sym):
            raise OutsideSubset("insert at symbolic index")
        l.insert(args[0], args[1])
        return None
    if name == 'pop':
        if args and isinstance(args[0], Sym):
            raise OutsideSubset("pop at symbolic index")
        return _native(l.pop, *args)
    if name in ('copy', 'reverse', 'clear'):
        return getattr(l, name)()
    if name == 'index':
        for i, v in enumerate(l):
            if c.branch(compare_values(it, '==', v, args[0])):
                return i
        py_raise(ValueError, "not in list")
    if name == 'count':
        tot = 0
        for v in l:
            tot = binop('+', tot, If(compare_values(it, '==', v, args[0]), 1, 0))
        return tot
    if name == 'remove':
        for i, v in enumerate(l):
            if c.branch(compare_values(it, '==', v, args[0])):
                del l[i]
                return None
        py_raise(ValueError, "list.remove(x): x not in list")
    if name == 'sort':
        if _conc(l) and not kwargs.get('key'):
            _native(l.sort, **kwargs)
            return None
        r = BUILTINS[sorted](it, l, **kwargs)
        l[:] = r
        return None
    if name == '__contains__':
        return contains(it, l, args[0])
    raise OutsideSubset("list.%s" % name)


def _map_method(it, box, name, args, kwargs):
    c = it.ctx
    m = box.m
    if name == 'get':
        default = args[1] if len(args) > 1 else None
        if c.branch(m.has(args[0])):
            return m.at(args[0])
        return default
    if name == 'update':
        other = args[0]
        if isinstance(other, MapBox):
            box.m = m.updated(other.m)
            return None
        if isinstance(other, dict):
            for k, v in other.items():
                box.m = box.m.store(k, v)
            return None
        if isinstance(other, (list, tuple)) and len(other) == 0:
            return None
        raise OutsideSubset("map.update(%s)" % type(other).__name__)
    if name == 'copy':
        return MapBox(m.copy())
    if name in ('keys', 'items', 'values'):
        raise OutsideSubset("iteration over a symbolic map outside a comprehension")
    if name == 'pop':
        if c.branch(m.has(args[0])):
            v = m.at(args[0])
            box.m = m.delete(args[0])
            return v
        if len(args) > 1:
            return args[1]
        py_raise(KeyError, args[0])
    if name == '__contains__':
        return m.has(args[0])
    raise OutsideSubset("symbolic map .%s" % name)


def _symstr_method(it, s, name, args, kwargs):
    c = it.ctx
    if name == 'split' and len(args) == 1 and isinstance(args[0], str):
        return _split_registered(it, s, args[0], None)
    if name == 'split' and len(args) == 2 and isinstance(args[0], str) and args[1] == 1:
        return _split_registered(it, s, args[0], 1)
    if name == 'startswith' and len(args) == 1:
        a = args[0]
        if isinstance(a, tuple):
            return Or(*[wrap(z3.PrefixOf(to_z3(x), s.e)) for x in a])
        return wrap(z3.PrefixOf(to_z3(a), s.e))
    if name == 'endswith' and len(args) == 1:
        a = args[0]
        if isinstance(a, tuple):
            return Or(*[wrap(z3.SuffixOf(to_z3(x), s.e)) for x in a])
        return wrap(z3.SuffixOf(to_z3(a), s.e))
    if name == 'find' and len(args) == 1:
        return wrap(z3.IndexOf(s.e, to_z3(args[0]), 0))
    if name == '__contains__':
        return wrap(z3.Contains(s.e, to_z3(args[0])))
    if name == 'replace' and len(args) == 2 and hasattr(z3, 'ReplaceAll'):
        raise OutsideSubset("str.replace on a flat symbolic string (use the structured-string domain)")
    if name in STR_FUNCTIONS and all(isinstance(a, str) for a in args) and not kwargs:
        # a pure function of the string: abstracted as an uninterpreted function (contracts name it with str_function)
        return str_function(name, *args).apply(s)
    raise OutsideSubset("str.%s on a symbolic string" % name)


STR_FUNCTIONS = ('rstrip', 'lstrip', 'strip', 'lower', 'upper', 'title', 'capitalize', 'expandtabs')


def str_function(name, *args):
    """the uninterpreted function that stands for  s.<name>(*args)  on a symbolic string (args concrete)"""
    from .values import Uninterp
    tag = '_'.join('%02x' % ord(ch) for a in args for ch in a)
    return Uninterp('str_%s_%s' % (name, tag or 'noargs'))


def _split_registered(it, s, sep, maxsplit):
    """split of a symbolic string whose structure (parts joined by sep) was registered by the contract.
    split(sep): every part is assumed sep-free (registered constraint); split(sep, 1): two registered parts, the
    first sep-free."""
    c = it.ctx
    cands = [(j, p) for j, sp, p in c.split_registry if sp == sep and (maxsplit is None or len(p) == 2)]
    se = z3.simplify(s.e)
    for joined, parts in cands:
        if z3.eq(se, z3.simplify(joined)) or not c.feasible(s.e != joined):
            return list(parts)
    for joined, parts in cands:
        if c.branch(wrap(s.e == joined)):
            return list(parts)
    raise OutsideSubset("split of a symbolic string with no registered structure")


def _str_method_symargs(it, s, name, args, kwargs):
    if name == 'find' and args and type(args[0]).__name__ == 'SStr':
        from . import sstr
        return sstr.lift(s).m_find(it, args[0])
    if name == 'replace' and any(type(a).__name__ == 'SStr' for a in args):
        from .replace import replace_all
        return replace_all(it, s, *args)
    if name == 'join':
        items = it.iterate(args[0])
        if any(type(x).__name__ == 'SStr' for x in items):
            from . import sstr
            acc = ''
            for i, x in enumerate(items):
                if not (isinstance(x, str) or type(x).__name__ == 'SStr'):
                    raise OutsideSubset("join of structured and flat symbolic strings")
                acc = sstr.concat(sstr.concat(acc, s), x) if i else x
            return sstr.simplify(acc)
        parts = []
        for i, x in enumerate(items):
            if i:
                parts.append(z3.StringVal(s))
            if not (isinstance(x, str) or (isinstance(x, Sym) and x.kind == 'str')):
                py_raise(TypeError, "sequence item: expected str instance")
            parts.append(to_z3(x))
        if not parts:
            return ""
        return wrap(z3.Concat(*parts) if len(parts) > 1 else parts[0])
    if name == 'format':
        raise OutsideSubset("str.format with symbolic arguments")
    if name == 'startswith':
        return wrap(z3.PrefixOf(to_z3(args[0]), z3.StringVal(s)))
    if name == 'endswith':
        return wrap(z3.SuffixOf(to_z3(args[0]), z3.StringVal(s)))
    raise OutsideSubset("str.%s with symbolic arguments" % name)


# ------------------------------------------------------------------------------ builtins
def b_len(it, v):
    if type(v).__name__ == 'SStr':
        from . import sstr
        return sstr.length(it.ctx, v)
    if isinstance(v, IdSet):
        return len(v.items)
    if isinstance(v, GuardedList):
        return v.length()
    if isinstance(v, SymArr):
        return v.length
    if hasattr(v, 'sym_len') and not isinstance(v, (Obj, Sym)):
        return v.sym_len()         # a contract-side collection of which only the (possibly symbolic) size is known
    if isinstance(v, Sym):
        if v.kind == 'str':
            return wrap(z3.Length(v.e))
        py_raise(TypeError, "object has no len()")
    if isinstance(v, (ModelValue, MapBox, Obj)):
        if isinstance(v, Obj) and v.has_field('__len__'):
            return it.call_value(v.field('__len__'), [], {})
        raise OutsideSubset("len(%s)" % type(v).__name__)
    return _native(len, v)


def b_isinstance(it, v, t):
    if type(v).__name__ == 'SStr':
        v = 'a structured string is a str'
    ts = t if isinstance(t, tuple) else (t,)
    flat = []
    for x in ts:
        if isinstance(x, tuple):
            flat.extend(x)
        else:
            flat.append(x)
    ts = tuple(flat)
    if isinstance(v, Sym):
        py = {'int': int, 'bool': bool, 'real': float, 'str': str}.get(v.kind)
        if py is None:
            raise OutsideSubset("isinstance of symbolic %s" % v.kind)
        return any(isinstance(x, type) and issubclass(py, x) for x in ts)
    if isinstance(v, Obj):
        cls = object.__getattribute__(v, '_cls')
        if cls is None:
            raise OutsideSubset("isinstance of an untyped stub %r" % v)
        return any(isinstance(x, type) and issubclass(cls, x) for x in ts)
    if isinstance(v, ExcVal):
        return issubclass(v.cls, ts)
    if isinstance(v, GuardedList) or isinstance(v, SymArr):
        return any(x in (list, object) for x in ts)
    if isinstance(v, MapBox):
        return any(x in (dict, object) for x in ts)
    if isinstance(v, ModelValue):
        raise OutsideSubset("isinstance of %s" % type(v).__name__)
    return isinstance(v, ts)


def b_int(it, v=0, *rest):
    from .sstr import SStr, Num, Lit as sstr_Lit
    if isinstance(v, SStr):
        if len(v.segs) == 1 and isinstance(v.segs[0], Num):
            return v.segs[0].n
        if v.is_literal():
            return _native(int, v.literal())
        if any(isinstance(x, sstr_Lit) and any(ch not in '0123456789+-_ \t\n\r\x0b\x0c' for ch in x.text) for x in v.segs):
            py_raise(ValueError, "invalid literal for int() with base 10")      # a character no integer literal holds
        raise OutsideSubset("int() of a structured string that is not a numeral")
    if rest:
        if _conc(v) and _conc(rest):
            return _native(int, v, *rest)
        raise OutsideSubset("int(x, base) symbolic")
    if isinstance(v, Sym):
        k = v.kind
        if k == 'int':
            return v
        if k == 'bool':
            return wrap(z3.If(v.e, z3.IntVal(1), z3.IntVal(0)))
        if k == 'real':
            # truncation toward zero
            return wrap(z3.If(v.e >= 0, z3.ToInt(v.e), -z3.ToInt(-v.e)))
        if k == 'str':
            e = z3.simplify(v.e)
            if z3.is_app(e) and e.decl().kind() == z3.Z3_OP_INT_TO_STR:
                return wrap(e.arg(0))           # int(str(i)) == i  for the non-negative numerals the contracts build
            # ASCII digit strings only (no sign / underscore / surrounding whitespace): z3 str.to_int is -1 otherwise
            n = z3.StrToInt(v.e)
            if it.ctx.branch(wrap(n >= 0)):
                return wrap(n)
            py_raise(ValueError, "invalid literal for int()")
        raise OutsideSubset("int() of symbolic %s" % k)
    if isinstance(v, (ModelValue, Obj)):
        py_raise(TypeError, "int() argument")
    return _native(int, v)


def b_float(it, v=0.0):
    if isinstance(v, Sym):
        k = v.kind
        if k == 'real':
            return v
        if k == 'int':
            return wrap(z3.ToReal(v.e))
        if k == 'bool':
            return wrap(z3.If(v.e, z3.RealVal(1), z3.RealVal(0)))
        raise OutsideSubset("float() of symbolic %s" % k)
    if isinstance(v, (ModelValue, Obj)) or v is None or isinstance(v, (list, dict, tuple)):
        py_raise(TypeError, "float() argument must be a string or a real number")
    return _native(float, v)


def b_str(it, v=''):
    if type(v).__name__ == 'SStr':
        return v
    if isinstance(v, Sym):
        return wrap(strings.to_str(v))
    if isinstance(v, (ModelValue, Obj, ExcVal)):
        raise OutsideSubset("str(%s)" % type(v).__name__)
    if not _conc(v):
        raise OutsideSubset("str() of a container with symbolic members")
    return _native(str, v)


def b_bool(it, v=False):
    return it.truth(v)


def _fold_minmax(it, op, args, kwargs):
    if kwargs:
        raise OutsideSubset("min/max with key/default")
    items = list(args) if len(args) > 1 else it.iterate(args[0])
    if not items:
        py_raise(ValueError, "arg is an empty sequence")
    acc = items[0]
    for x in items[1:]:
        if op == 'max':
            acc = If(compare('>', x, acc), x, acc)
        else:
            acc = If(compare('<', x, acc), x, acc)
    return acc


def b_max(it, *args, **kwargs):
    return _fold_minmax(it, 'max', args, kwargs)


def b_min(it, *args, **kwargs):
    return _fold_minmax(it, 'min', args, kwargs)


def b_sum(it, xs, start=0):
    acc = start
    for x in it.iterate(xs):
        acc = it.binop('+', acc, x)
    return acc


def b_abs(it, v):
    if isinstance(v, Sym):
        return If(compare('<', v, 0), unop('-', v), v)
    return _native(abs, v)


def b_round(it, v, nd=None):
    if not isinstance(v, Sym):
        if isinstance(nd, Sym):
            raise OutsideSubset("round with symbolic ndigits")
        return _native(round, v) if nd is None else _native(round, v, nd)
    if isinstance(nd, Sym) or (nd is not None and not isinstance(nd, int)):
        raise OutsideSubset("round(x, ndigits) with symbolic ndigits")
    if v.kind == 'int':
        return v
    if v.kind != 'real':
        py_raise(TypeError, "round()")
    x = v.e if nd is None else v.e * (10 ** nd)
    f = z3.ToInt(x)
    frac = x - z3.ToReal(f)
    half = z3.RealVal('1/2')
    r = z3.If(frac < half, f, z3.If(frac > half, f + 1, z3.If(f % 2 == 0, f, f + 1)))   # half to even
    if nd is None:
        return wrap(r)
    return wrap(z3.ToReal(r) / (10 ** nd))       # floats-are-reals reading of round(x, nd)


def b_range(it, *args):
    from .interp import SymRange
    if all(isinstance(a, int) for a in args):
        return _native(range, *args)
    if len(args) == 1:
        return SymRange(0, args[0])
    if len(args) == 2:
        return SymRange(args[0], args[1])
    raise OutsideSubset("range with symbolic step")


def b_list(it, v=()):
    if isinstance(v, GuardedList):
        return GuardedList(v.items)
    return list(it.iterate(v))


def b_tuple(it, v=()):
    return tuple(it.iterate(v))


def b_dict(it, *args, **kwargs):
    d = FlexDict()
    for a in args:
        if isinstance(a, dict):
            d.update(a)
        elif isinstance(a, MapBox):
            if kwargs or len(args) > 1:
                raise OutsideSubset("dict(map, ...)")
            return MapBox(a.m.copy())
        else:
            for k, v in it.iterate(a):
                d[k] = v
    d.update(kwargs)
    return d


def b_set(it, v=()):
    items = it.iterate(v)
    if not all(_conc(x) for x in items):
        out = []
        for x in items:
            if not any(y is x for y in out):
                out.append(x)
        return IdSet(out)
    return set(items)


def b_sorted(it, xs, key=None, reverse=False):
    items = it.iterate(xs)
    keys = [it.call_value(key, [x], {}) if key is not None else x for x in items]
    if all(_conc(k) for k in keys):
        order = sorted(range(len(items)), key=lambda i: keys[i], reverse=bool(reverse))
        return [items[i] for i in order]
    # symbolic keys: insertion sort with forking comparisons (stable, like python)
    idx = []
    for i in range(len(items)):
        pos = len(idx)
        for j in range(len(idx)):
            a, b = keys[i], keys[idx[j]]
            lt = compare('<', a, b) if not reverse else compare('>', a, b)
            if it.ctx.branch(lt):
                pos = j
                break
        idx.insert(pos, i)
    return [items[i] for i in idx]


def b_enumerate(it, xs, start=0):
    return [(i + start, x) for i, x in enumerate(it.iterate(xs))]


def b_zip(it, *xs):
    return list(zip(*[it.iterate(x) for x in xs]))


def b_any(it, xs):
    for x in it.iterate(xs):
        if it.decide(x):
            return True
    return False


def b_all(it, xs):
    for x in it.iterate(xs):
        if not it.decide(x):
            return False
    return True


def b_reversed(it, xs):
    return list(reversed(it.iterate(xs)))


def b_map(it, f, *xs):
    return [it.call_value(f, list(a), {}) for a in zip(*[it.iterate(x) for x in xs])]


def b_filter(it, f, xs):
    return [x for x in it.iterate(xs) if it.decide(it.call_value(f, [x], {}) if f is not None else x)]


def b_getattr(it, o, name, *default):
    try:
        return it.getattr(o, name)
    except (PyRaise, OutsideSubset):
        if default:
            return default[0]
        raise


def b_hasattr(it, o, name):
    if isinstance(o, Obj):
        return o.has_field(name)
    if isinstance(o, (Sym, ModelValue)):
        raise OutsideSubset("hasattr on symbolic value")
    return hasattr(o, name)


def b_type(it, v):
    if isinstance(v, FlexDict):
        return dict                    # the interpreter's representation of a program dict
    if type(v).__name__ == 'SStr':
        return str
    if isinstance(v, Sym) and v.kind in ('str', 'int', 'bool', 'real'):
        return {'str': str, 'int': int, 'bool': bool, 'real': float}[v.kind]
    if isinstance(v, (Sym, ModelValue, Obj)):
        raise OutsideSubset("type() of a symbolic value")
    return type(v)


def b_reduce(it, f, xs, *init):
    items = it.iterate(xs)
    if init:
        acc = init[0]
    else:
        if not items:
            py_raise(TypeError, "reduce() of empty iterable with no initial value")
        acc, items = items[0], items[1:]
    for x in items:
        acc = it.call_value(f, [acc, x], {})
    return acc


def b_opadd(it, a, b):
    return it.binop('+', a, b)


def b_deepcopy(it, v, memo=None):
    """copy.deepcopy: structural copy of containers; scalars (incl. symbolic) are immutable"""
    if isinstance(v, list):
        return [b_deepcopy(it, x) for x in v]
    if isinstance(v, tuple):
        return tuple(b_deepcopy(it, x) for x in v)
    if isinstance(v, FlexDict) and v.sym is not None:
        return MapBox(v.sym.m.copy())
    if isinstance(v, dict):
        return FlexDict({k: b_deepcopy(it, x) for k, x in v.items()})
    if isinstance(v, MapBox):
        return MapBox(v.m.copy())
    if isinstance(v, GuardedList):
        return GuardedList(v.items)
    if isinstance(v, (Sym, str, int, float, bool)) or v is None or type(v).__name__ == 'SStr':
        return v            # immutable (structured strings share their atoms by identity)
    if isinstance(v, set):
        return set(v)
    if isinstance(v, Obj):
        raise OutsideSubset("deepcopy of a stub object")
    return _native(copy.deepcopy, v)


def b_path_join(it, a, *ps):
    """posixpath.join over z3 strings / structured strings"""
    if _conc(a) and all(_conc(p) for p in ps):
        return _native(os.path.join, a, *ps)
    from . import sstr
    if sstr.has_sstr([a] + list(ps)):
        acc = sstr.lift(a)
        for p in ps:
            P = sstr.lift(p)
            if P.m_startswith(it, '/'):
                acc = P
            elif not acc.segs or (isinstance(acc.segs[-1], sstr.Lit) and acc.segs[-1].text.endswith('/')):
                acc = sstr.SStr(acc.segs + P.segs)
            elif isinstance(acc.segs[-1], sstr.Lit) or '/' in getattr(acc.segs[-1], 'excludes', ()) or isinstance(acc.segs[-1], sstr.Num):
                acc = sstr.SStr(acc.segs + [sstr.Lit('/')] + P.segs)
            else:
                raise OutsideSubset("os.path.join: %r may end with '/'" % acc)
        return sstr.simplify(acc)
    acc = a
    for p in ps:
        for x in (acc, p):
            if not (isinstance(x, str) or (isinstance(x, Sym) and x.kind == 'str')):
                py_raise(TypeError, "join() argument must be str")
        ea, ep = to_z3(acc), to_z3(p)
        sep = z3.StringVal('/')
        acc = wrap(z3.If(z3.PrefixOf(sep, ep), ep,
                         z3.If(z3.Or(ea == z3.StringVal(''), z3.SuffixOf(sep, ea)), z3.Concat(ea, ep),
                               z3.Concat(ea, sep, ep))))
    return acc


def b_path_split(it, p):
    from . import sstr
    if isinstance(p, sstr.SStr):
        return sstr.path_split(p)
    if _conc(p):
        return _native(os.path.split, p)
    raise OutsideSubset("os.path.split of a flat symbolic string")


def b_print(it, *a, **k):
    f = k.get('file')
    if f is None:
        return None
    sep, end = k.get('sep', ' '), k.get('end', '\n')
    sep = ' ' if sep is None else sep
    end = '\n' if end is None else end
    w = it.getattr(f, 'write')
    for i, x in enumerate(a):          # CPython: write(str(arg)), write(sep) between arguments, then write(end)
        if i:
            it.call_value(w, [sep], {})
        it.call_value(w, [x if isinstance(x, (str, Sym)) else b_str(it, x)], {})
    it.call_value(w, [end], {})
    return None


def b_id(it, v):
    """id(): containers and stubs keep their python identity inside the interpreter (a dict of the program IS a python
    dict object), so their id is the real one; symbolic scalars have no identity"""
    from .sstr import SStr
    if isinstance(v, (Sym, SStr, ModelValue)):
        raise OutsideSubset("id() of a symbolic value")
    return id(v)


def b_iter(it, f, *sentinel):
    """iter(xs) / iter(callable, sentinel): the values are produced eagerly (bounded by MAX_LOOP calls)"""
    if not sentinel:
        return iter(it.iterate(f))
    out = []
    for _ in range(10000):
        v = it.call_value(f, [], {})
        if isinstance(v, Sym) or isinstance(sentinel[0], Sym):
            raise OutsideSubset("iter(callable, sentinel) with symbolic values")
        if v == sentinel[0]:
            return iter(out)
        out.append(v)
    raise OutsideSubset("iter(callable, sentinel) did not reach its sentinel")


BUILTINS = {
    iter: b_iter,
    len: b_len, isinstance: b_isinstance, int: b_int, float: b_float, str: b_str, bool: b_bool,
    max: b_max, min: b_min, sum: b_sum, abs: b_abs, round: b_round, range: b_range, list: b_list, tuple: b_tuple,
    dict: b_dict, set: b_set, sorted: b_sorted, enumerate: b_enumerate, zip: b_zip, any: b_any,
    all: b_all, reversed: b_reversed, map: b_map, filter: b_filter, getattr: b_getattr,
    hasattr: b_hasattr, type: b_type, functools.reduce: b_reduce, operator.add: b_opadd,
    copy.deepcopy: b_deepcopy, print: b_print, id: b_id, os.path.join: b_path_join, os.path.split: b_path_split,
}

_PURE_MODULE_PREFIXES = ('posixpath', 'os.path', 're', 'copy', 'pprint', 'json', 'math', 'string', 'textwrap')


def is_pure_callable(f):
    if getattr(f, '__name__', '') == 'deep_copy' and (getattr(f, '__module__', '') or '').startswith('experiment.'):
        return False
    mod = getattr(f, '__module__', None) or ''
    if mod in ('posixpath', 'genericpath', 're', 'math', 'operator', 'json', 'pprint', 'textwrap'):
        return True
    if mod == 'ast' and getattr(f, '__name__', '') == 'literal_eval':
        return True
    if mod.split('.')[0] == 'networkx':
        return True          # trusted graph library on concrete graphs (listed in the target's trusted base)
    if isinstance(f, type) and f in (str, int, float, bool, list, dict, tuple, set, frozenset, bytes):
        return True
    owner = getattr(f, '__self__', None)
    if owner is not None and type(owner).__module__ == 'datetime' and not isinstance(owner, type):
        return True          # methods of immutable datetime / timedelta values
    if isinstance(owner, type) and owner.__module__ == 'datetime' and getattr(f, '__name__', '') in (
            'strptime', 'fromisoformat', 'fromtimestamp', 'utcfromtimestamp'):
        return True          # pure constructors of datetime values from concrete arguments (NOT now()/today())
    if owner is not None and type(owner).__module__ in ('_hashlib', '_md5', '_sha1', '_sha2', '_blake2'):
        return True          # update / hexdigest of a hash object created on this path (concrete bytes)
    if mod in ('hashlib', '_hashlib', '_md5'):
        return True
    if owner is not None and (type(owner).__module__ or '').split('.')[0] in ('networkx',):
        # read-only queries on a concrete graph object of a trusted library (subgraph, predecessors, nodes, ...)
        # (every path re-runs the harness from the start, so native mutation of such an object is local to the path)
        return True
    if isinstance(f, type(len)) and getattr(f, '__self__', None) in (dict, str, int, float, list, tuple):
        return True          # dict.fromkeys, str.join, ...
    if isinstance(f, type(len)) and getattr(f, '__self__', None) is not None and \
            isinstance(f.__self__, (str, tuple, frozenset, int, float, bytes, _re.Pattern, _re.Match)):
        return True
    return False


def symbolic_comprehension(it, e, env):
    """hook for set-view comprehensions over SymSet (DESIGN A-LIST); None = not applicable"""
    return None
