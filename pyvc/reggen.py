"""Regular expressions on structured strings, decided by the solver (fallback of the class-based rules in sstr.py).

A python pattern (the subset: literals, '.', character classes, \\d \\w \\s, groups, alternation, greedy/lazy repeats,
'^' at the start and '$' at the end) is translated to a z3 regular expression; the structured string is translated to
a z3 string term (literals, str.from_int of a numeral's integer, one string constant per atom constrained by the atom's
declared facts).  `pattern.match / fullmatch / search(s)` then FORKS the path on membership: both outcomes are explored
when the solver cannot exclude them, and the counter-model's integers (e.g. iteration number 10 against `[0-9]#...`)
are replayed natively like any other model value.  What the solver cannot decide is explored on both sides (an
infeasible side only costs a spurious path whose refutations do not replay).  Assumed: python's match semantics for this
subset equals membership in the translated language (no back-references, look-arounds or flags)."""
import re
import z3
from .core import Sym, OutsideSubset

try:
    import re._parser as sre_parse
    import re._constants as sre_c
except ImportError:                                       # pragma: no cover
    import sre_parse
    import sre_constants as sre_c

STR = z3.StringSort()
RE = z3.ReSort(STR)
ANY = z3.AllChar(RE)
FULL = z3.Full(RE)


def _chars(codes):
    items = [z3.Re(chr(c)) for c in codes]
    return items[0] if len(items) == 1 else z3.Union(*items)


def _category(cat):
    if cat == sre_c.CATEGORY_DIGIT:
        return z3.Range('0', '9')
    if cat == sre_c.CATEGORY_WORD:
        return z3.Union(z3.Range('a', 'z'), z3.Range('A', 'Z'), z3.Range('0', '9'), z3.Re('_'))
    if cat == sre_c.CATEGORY_SPACE:
        return _chars([32, 9, 10, 13, 11, 12])
    if cat == sre_c.CATEGORY_NOT_DIGIT:
        return z3.Diff(ANY, z3.Range('0', '9'))
    if cat == sre_c.CATEGORY_NOT_WORD:
        return z3.Diff(ANY, _category(sre_c.CATEGORY_WORD))
    if cat == sre_c.CATEGORY_NOT_SPACE:
        return z3.Diff(ANY, _category(sre_c.CATEGORY_SPACE))
    raise OutsideSubset("regular expression category %s" % cat)


def _class(items):
    neg = False
    parts = []
    for op, av in items:
        if op == sre_c.NEGATE:
            neg = True
        elif op == sre_c.LITERAL:
            parts.append(z3.Re(chr(av)))
        elif op == sre_c.RANGE:
            parts.append(z3.Range(chr(av[0]), chr(av[1])))
        elif op == sre_c.CATEGORY:
            parts.append(_category(av))
        else:
            raise OutsideSubset("regular expression class item %s" % op)
    r = parts[0] if len(parts) == 1 else z3.Union(*parts)
    return z3.Diff(ANY, r) if neg else r


def _seq(nodes):
    out = []
    for op, av in nodes:
        if op == sre_c.LITERAL:
            out.append(z3.Re(chr(av)))
        elif op == sre_c.NOT_LITERAL:
            out.append(z3.Diff(ANY, z3.Re(chr(av))))
        elif op == sre_c.ANY:
            out.append(z3.Diff(ANY, z3.Re('\n')))
        elif op == sre_c.IN:
            out.append(_class(av))
        elif op in (sre_c.MAX_REPEAT, sre_c.MIN_REPEAT):
            lo, hi, sub = av
            r = _seq(list(sub))
            if hi == sre_c.MAXREPEAT:
                rep = z3.Star(r) if lo == 0 else z3.Plus(r) if lo == 1 else z3.Concat(*([r] * lo + [z3.Star(r)]))
            else:
                rep = z3.Loop(r, lo, hi)
            out.append(rep)
        elif op == sre_c.SUBPATTERN:
            out.append(_seq(list(av[3])))
        elif op == sre_c.BRANCH:
            out.append(z3.Union(*[_seq(list(b)) for b in av[1]]))
        else:
            raise OutsideSubset("regular expression construct %s" % op)
    if not out:
        return z3.Re('')
    return out[0] if len(out) == 1 else z3.Concat(*out)


def translate(pattern, method):
    """z3 regular expression for `re.compile(pattern).<method>(s) is not None`"""
    if not isinstance(pattern, str):
        raise OutsideSubset("bytes pattern")
    nodes = list(sre_parse.parse(pattern))
    start = end = False
    if nodes and nodes[0] == (sre_c.AT, sre_c.AT_BEGINNING):
        start, nodes = True, nodes[1:]
    if nodes and nodes[-1][0] == sre_c.AT and nodes[-1][1] in (sre_c.AT_END, sre_c.AT_END_STRING):
        end, nodes = True, nodes[:-1]
    if any(op == sre_c.AT for op, _ in nodes):
        raise OutsideSubset("anchor inside a regular expression")
    body = _seq(nodes)
    if method == 'fullmatch':
        return body
    pre = [] if (start or method == 'match') else [FULL]
    post = [] if end else [FULL]
    parts = pre + [body] + post
    return parts[0] if len(parts) == 1 else z3.Concat(*parts)


def string_term(ctx, s):
    """z3 string term of a structured string; atoms become string constants constrained by their declared facts"""
    from .sstr import lift, Lit, Num, Atom, DIGITS
    from .core import to_z3
    if isinstance(s, Sym):
        return s.e                      # a flat symbolic string (z3 String term)
    consts = ctx.__dict__.setdefault('_atom_consts', {})
    parts = []
    for seg in lift(s).segs:
        if isinstance(seg, Lit):
            parts.append(z3.StringVal(seg.text))
        elif isinstance(seg, Num):
            n = to_z3(seg.n) if not isinstance(seg.n, int) else z3.IntVal(seg.n)
            parts.append(z3.IntToStr(n))
        else:
            k = consts.get(id(seg))
            if k is None:
                k = z3.String('atom!%s' % seg.name)
                consts[id(seg)] = k
                facts = [z3.Length(k) >= 1]
                if seg.excludes:
                    bad = _chars([ord(ch) for ch in sorted(seg.excludes)])
                    facts.append(z3.InRe(k, z3.Plus(z3.Diff(ANY, bad))))
                if seg.first_not_digit:
                    facts.append(z3.Not(z3.InRe(k, z3.Concat(z3.Range('0', '9'), FULL))))
                for lit in seg.distinct_from:
                    facts.append(k != z3.StringVal(lit))
                if isinstance(seg.sample, str):
                    pass
                for f in facts:
                    ctx.assume(f)
            parts.append(k)
    if not parts:
        return z3.StringVal('')
    return parts[0] if len(parts) == 1 else z3.Concat(*parts)


class OpaqueMatch:
    """the match object of a solver-decided match: only its existence is known"""

    def __bool__(self):
        return True

    def __getattr__(self, name):
        raise OutsideSubset("groups of a regular-expression match that was decided by the solver (.%s)" % name)


def decide(it, pattern, method, s):
    ctx = it.ctx
    if ctx.mode != 'sym':
        raise OutsideSubset("solver-decided regular expression in concrete mode")
    r = translate(pattern, method)
    term = string_term(ctx, s)
    cond = z3.InRe(term, r)
    return OpaqueMatch() if ctx.branch(Sym(cond)) else None
