"""Core value domain, path context and logical helpers of pyvc.

Two modes share every sidecar definition (setup, externs, ensures):
  * symbolic  -- inputs are z3 constants, branches fork (re-execution with a decision prefix),
                 clauses become obligations  PC => goal;
  * concrete  -- inputs come from a model (or a stored witness), everything is plain Python; the
                 REAL function from /repo is run natively on the same stub objects (replay and
                 engine cross-check).
"""
import fractions
import operator
import z3


class OutsideSubset(Exception):
    """The extracted code (or a contract) uses something the engine does not model."""


class EngineError(Exception):
    pass


class Infeasible(Exception):
    """The path condition became unsatisfiable (e.g. an assume(False))."""


class PathLimit(Exception):
    pass


# ----------------------------------------------------------------------------------------------
# exceptions of the interpreted program

class ExcVal:
    """An exception value raised by interpreted code (class is the REAL class)."""

    def __init__(self, cls, args=()):
        self.cls = cls
        self.args = tuple(args)

    def __repr__(self):
        return "ExcVal(%s%r)" % (self.cls.__name__, self.args)


class PyRaise(Exception):
    def __init__(self, exc):
        Exception.__init__(self, repr(exc))
        self.exc = exc


def py_raise(cls, *args):
    raise PyRaise(ExcVal(cls, args))


# ----------------------------------------------------------------------------------------------
# symbolic scalars

def _kind_of_sort(s):
    k = s.kind()
    if k == z3.Z3_INT_SORT:
        return 'int'
    if k == z3.Z3_BOOL_SORT:
        return 'bool'
    if k == z3.Z3_REAL_SORT:
        return 'real'
    if k == z3.Z3_SEQ_SORT:
        return 'str' if s.is_string() else 'seq'
    if k == z3.Z3_FLOATING_POINT_SORT:
        return 'fp'
    if k == z3.Z3_UNINTERPRETED_SORT:
        return 'ref'
    if k == z3.Z3_ARRAY_SORT:
        return 'array'
    if k == z3.Z3_DATATYPE_SORT:
        return 'data'
    return 'other'


class Sym:
    """A symbolic scalar: wraps a z3 expression of sort Int/Bool/Real/String/uninterpreted."""
    __slots__ = ('e',)

    def __init__(self, e):
        assert isinstance(e, z3.ExprRef), e
        self.e = e

    @property
    def kind(self):
        return _kind_of_sort(self.e.sort())

    def __repr__(self):
        return "Sym(%s)" % (self.e,)

    def __bool__(self):
        raise OutsideSubset("truth value of a symbolic value used natively: %s" % (self.e,))

    __hash__ = None

    # arithmetic / comparisons (used by contracts and by the interpreter through binop/compare)
    def __add__(self, o): return binop('+', self, o)
    def __radd__(self, o): return binop('+', o, self)
    def __sub__(self, o): return binop('-', self, o)
    def __rsub__(self, o): return binop('-', o, self)
    def __mul__(self, o): return binop('*', self, o)
    def __rmul__(self, o): return binop('*', o, self)
    def __truediv__(self, o): return binop('/', self, o)
    def __rtruediv__(self, o): return binop('/', o, self)
    def __floordiv__(self, o): return binop('//', self, o)
    def __rfloordiv__(self, o): return binop('//', o, self)
    def __mod__(self, o): return binop('%', self, o)
    def __neg__(self): return unop('-', self)
    def __lt__(self, o): return compare('<', self, o)
    def __le__(self, o): return compare('<=', self, o)
    def __gt__(self, o): return compare('>', self, o)
    def __ge__(self, o): return compare('>=', self, o)
    def __eq__(self, o): return compare('==', self, o)
    def __ne__(self, o): return compare('!=', self, o)
    def __and__(self, o): return And(self, o)
    def __rand__(self, o): return And(o, self)
    def __or__(self, o): return Or(self, o)
    def __ror__(self, o): return Or(o, self)
    def __invert__(self): return Not(self)


def is_sym(v):
    return isinstance(v, Sym)


def real_val(f):
    if isinstance(f, float):
        if f != f or f in (float('inf'), float('-inf')):
            raise OutsideSubset("non-finite float")
        # ASSUMPTION "floats are reals": a concrete double stands for the decimal it prints as
        # (0.333 is 333/1000, not the nearest binary fraction)
        return z3.RealVal(fractions.Fraction(repr(f)))
    return z3.RealVal(f)


def exact_div(a, b):
    """a / b on concrete numbers under the floats-are-reals reading: the python float when it is the
    exact quotient, otherwise the exact rational as a symbolic constant"""
    r = a / b
    fa = fractions.Fraction(repr(a)) if isinstance(a, float) else fractions.Fraction(a)
    fb = fractions.Fraction(repr(b)) if isinstance(b, float) else fractions.Fraction(b)
    q = fa / fb
    if fractions.Fraction(repr(r)) == q:
        return r
    return Sym(z3.RealVal(q))


def to_z3(v, like=None):
    """Lift a concrete python scalar (or Sym) to a z3 expression."""
    if isinstance(v, Sym):
        return v.e
    if isinstance(v, z3.ExprRef):
        return v
    if isinstance(v, bool):
        return z3.BoolVal(v)
    if isinstance(v, int):
        if like is not None and like.sort().kind() == z3.Z3_REAL_SORT:
            return z3.RealVal(v)
        return z3.IntVal(v)
    if isinstance(v, float):
        return real_val(v)
    if isinstance(v, str):
        return z3.StringVal(v)
    raise OutsideSubset("cannot lift %r to z3" % (v,))


def wrap(e):
    """z3 expression -> python concrete if it is a literal, else Sym."""
    e = z3.simplify(e)
    if z3.is_true(e):
        return True
    if z3.is_false(e):
        return False
    if z3.is_int_value(e):
        return e.as_long()
    if z3.is_string_value(e):
        return e.as_string()
    return Sym(e)


def _num_coerce(a, b):
    """Return z3 exprs for numeric a,b with int->real promotion; bools count as ints (python)."""
    def lift(x):
        if isinstance(x, Sym):
            if x.kind == 'bool':
                return z3.If(x.e, z3.IntVal(1), z3.IntVal(0))
            if x.kind not in ('int', 'real'):
                raise OutsideSubset("numeric operation on %s" % x.kind)
            return x.e
        if isinstance(x, bool):
            return z3.IntVal(int(x))
        if isinstance(x, int):
            return z3.IntVal(x)
        if isinstance(x, float):
            return real_val(x)
        raise OutsideSubset("numeric operation on %r" % (type(x),))
    ea, eb = lift(a), lift(b)
    if ea.sort() != eb.sort():
        if ea.sort().kind() == z3.Z3_INT_SORT:
            ea = z3.ToReal(ea)
        if eb.sort().kind() == z3.Z3_INT_SORT:
            eb = z3.ToReal(eb)
    return ea, eb


_NATIVE_BIN = {'+': operator.add, '-': operator.sub, '*': operator.mul, '/': operator.truediv,
               '//': operator.floordiv, '%': operator.mod, '**': operator.pow}


def _has_sym(v, depth=0):
    if isinstance(v, Sym):
        return True
    if depth < 4:
        if isinstance(v, (list, tuple)):
            return any(_has_sym(x, depth + 1) for x in v)
        if isinstance(v, dict):
            return any(_has_sym(x, depth + 1) for x in v.values())
    return False


def _has_symstr(v, depth=0):
    if isinstance(v, Sym):
        return v.kind == 'str'
    if depth < 4 and isinstance(v, (list, tuple)):
        return any(_has_symstr(x, depth + 1) for x in v)
    return False


def binop(op, a, b):
    if not isinstance(a, Sym) and not isinstance(b, Sym):
        # concrete: native python semantics (including exceptions, re-raised for the interpreter)
        from .values import is_model_value
        if is_model_value(a) or is_model_value(b):
            return a._binop(op, b) if is_model_value(a) else b._rbinop(op, a)
        if op == '%' and isinstance(a, str):
            from . import sstr
            if sstr.has_sstr(b) or (_has_sym(b) and not _has_symstr(b)):
                return sstr.percent_format(a, b)       # structured result (symbolic integers become numerals)
        if op == '%' and isinstance(a, str) and _has_sym(b):
            from .strings import percent_format
            return percent_format(a, b)
        if _has_sym(a) or _has_sym(b):
            raise OutsideSubset("operator %s on a container with symbolic members" % op)
        try:
            if op == '/' and isinstance(a, (int, float)) and isinstance(b, (int, float)) \
                    and not isinstance(a, bool) and not isinstance(b, bool) and b != 0:
                return exact_div(a, b)
            return _NATIVE_BIN[op](a, b)
        except KeyError:
            raise OutsideSubset("operator %s" % op)
        except (TypeError, ZeroDivisionError, ValueError, OverflowError) as err:
            raise PyRaise(ExcVal(type(err), err.args))
    ka = a.kind if isinstance(a, Sym) else None
    kb = b.kind if isinstance(b, Sym) else None
    # strings
    if ka == 'str' or kb == 'str' or isinstance(a, str) or isinstance(b, str):
        if op == '+':
            if (isinstance(a, str) or ka == 'str') and (isinstance(b, str) or kb == 'str'):
                return wrap(z3.Concat(to_z3(a), to_z3(b)))
            py_raise(TypeError, "can only concatenate str")
        if op == '%' and isinstance(a, str):
            if kb == 'int':
                from . import sstr
                return sstr.percent_format(a, b)       # 'stage%d' % n is structured exactly like 'stage%d' % (n,)
            from .strings import percent_format
            return percent_format(a, b)
        raise OutsideSubset("string operator %s on symbolic value" % op)
    ea, eb = _num_coerce(a, b)
    isint = ea.sort().kind() == z3.Z3_INT_SORT
    if op == '+':
        return wrap(ea + eb)
    if op == '-':
        return wrap(ea - eb)
    if op == '*':
        return wrap(ea * eb)
    if op in ('/', '//', '%'):
        # division by zero must be excluded by the caller (interpreter forks on it)
        if op == '/':
            if isint:
                ea, eb = z3.ToReal(ea), z3.ToReal(eb)
            return wrap(ea / eb)
        if not isint:
            raise OutsideSubset("// or % on reals")
        q = z3.If(eb > 0, ea / eb, (-ea) / (-eb))   # python floor division
        if op == '//':
            return wrap(q)
        return wrap(ea - eb * q)
    raise OutsideSubset("operator %s on symbolic values" % op)


def unop(op, a):
    if not isinstance(a, Sym):
        if op == '-':
            return -a
        if op == '+':
            return +a
        if op == 'not':
            return not a
        raise OutsideSubset("unary %s" % op)
    if op == '-':
        e = a.e if a.kind in ('int', 'real') else _num_coerce(a, 0)[0]
        return wrap(-e)
    if op == '+':
        return a
    raise OutsideSubset("unary %s on symbolic" % op)


def _typeclass(v):
    """coarse python type class used to decide == between values of different types"""
    if isinstance(v, Sym):
        k = v.kind
        return 'num' if k in ('int', 'real', 'bool', 'fp') else k
    if isinstance(v, (bool, int, float)):
        return 'num'
    if isinstance(v, str):
        return 'str'
    if v is None:
        return 'none'
    return 'obj'


def compare(op, a, b):
    """Python comparison; returns python bool or Sym(bool)."""
    if not isinstance(a, Sym) and not isinstance(b, Sym):
        from .values import is_model_value
        if is_model_value(a) or is_model_value(b):
            return a._compare(op, b) if is_model_value(a) else b._rcompare(op, a)
        try:
            return {'<': operator.lt, '<=': operator.le, '>': operator.gt, '>=': operator.ge,
                    '==': operator.eq, '!=': operator.ne}[op](a, b)
        except TypeError as err:
            raise PyRaise(ExcVal(TypeError, err.args))
    ta, tb = _typeclass(a), _typeclass(b)
    if ta != tb:
        if op == '==':
            return False
        if op == '!=':
            return True
        py_raise(TypeError, "'%s' not supported between these types" % op)
    if ta == 'str':
        ea, eb = to_z3(a), to_z3(b)
        if op == '==':
            return wrap(ea == eb)
        if op == '!=':
            return wrap(ea != eb)
        # python str order = code point lexicographic = z3 str.<
        if op == '<':
            return wrap(z3.StrLT(ea, eb)) if hasattr(z3, 'StrLT') else wrap(ea < eb)
        if op == '<=':
            return wrap(ea <= eb)
        if op == '>':
            return wrap(eb < ea)
        if op == '>=':
            return wrap(eb <= ea)
    if ta == 'num':
        if (isinstance(a, Sym) and a.kind == 'bool') and (isinstance(b, bool) or (isinstance(b, Sym) and b.kind == 'bool')) \
                and op in ('==', '!='):
            e = a.e == to_z3(b)
            return wrap(e if op == '==' else z3.Not(e))
        ea, eb = _num_coerce(a, b)
        return wrap({'<': ea < eb, '<=': ea <= eb, '>': ea > eb, '>=': ea >= eb,
                     '==': ea == eb, '!=': ea != eb}[op])
    if ta == 'ref':
        if a.e.sort() != b.e.sort():
            return op == '!='
        if op == '==':
            return wrap(a.e == b.e)
        if op == '!=':
            return wrap(a.e != b.e)
    raise OutsideSubset("comparison %s on %s" % (op, ta))


# ----------------------------------------------------------------------------------------------
# logical helpers usable in both modes (python bools or Sym(bool))

def _b(v):
    if isinstance(v, Sym):
        if v.kind != 'bool':
            raise OutsideSubset("logical operator on non-boolean symbolic value")
        return v.e
    if isinstance(v, z3.BoolRef):
        return v
    if isinstance(v, bool):
        return z3.BoolVal(v)
    raise OutsideSubset("logical helper applied to %r (use explicit comparisons)" % (v,))


def _allconc(vs):
    return all(isinstance(v, bool) for v in vs)


def And(*vs):
    if len(vs) == 1 and isinstance(vs[0], (list, tuple)):
        vs = tuple(vs[0])
    if _allconc(vs):
        return all(vs)
    return wrap(z3.And([_b(v) for v in vs]))


def Or(*vs):
    if len(vs) == 1 and isinstance(vs[0], (list, tuple)):
        vs = tuple(vs[0])
    if _allconc(vs):
        return any(vs)
    return wrap(z3.Or([_b(v) for v in vs]))


def Not(v):
    if isinstance(v, bool):
        return not v
    return wrap(z3.Not(_b(v)))


def Implies(a, b):
    if isinstance(a, bool) and isinstance(b, bool):
        return (not a) or b
    return wrap(z3.Implies(_b(a), _b(b)))


def Iff(a, b):
    if isinstance(a, bool) and isinstance(b, bool):
        return a == b
    return wrap(_b(a) == _b(b))


def If(c, a, b):
    if isinstance(c, bool):
        return a if c else b
    ea = to_z3(a)
    eb = to_z3(b, like=ea)
    ea = to_z3(a, like=eb)
    if ea.sort() != eb.sort():
        ea, eb = _num_coerce(a, b)
    return wrap(z3.If(_b(c), ea, eb))


def Eq(a, b):
    """python == as a formula (False across type classes)."""
    return compare('==', a, b)


def In(x, xs):
    """x in [python list of scalars] as a formula"""
    return Or(*[Eq(x, v) for v in xs]) if xs else False
