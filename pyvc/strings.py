"""Flat (z3 String) string operations used by the interpreter: % formatting, str(), etc.
The structured-string domain of DESIGN section 2.4 lives in sstr.py."""
import re
import z3
from .core import Sym, OutsideSubset, wrap, to_z3, py_raise

_FMT = re.compile(r'%(?:\((\w+)\))?([sdir%])')


def int_to_str(e):
    """python str(int) for a z3 Int (z3's int.to.str is '' for negatives)."""
    return z3.If(e >= 0, z3.IntToStr(e), z3.Concat(z3.StringVal('-'), z3.IntToStr(-e)))


def to_str(v):
    """python str(v) as a z3 String expression / python str."""
    if isinstance(v, Sym):
        k = v.kind
        if k == 'str':
            return v.e
        if k == 'int':
            return int_to_str(v.e)
        if k == 'bool':
            return z3.If(v.e, z3.StringVal('True'), z3.StringVal('False'))
        raise OutsideSubset("str() of symbolic %s" % k)
    if isinstance(v, (str, int, bool, float)) or v is None:
        return z3.StringVal(str(v))
    raise OutsideSubset("str() of %r inside symbolic formatting" % (type(v),))


def percent_format(fmt, args):
    """fmt % args with a concrete format string and (some) symbolic arguments."""
    if not isinstance(args, tuple):
        args = (args,)
    if isinstance(args, tuple) and len(args) == 1 and isinstance(args[0], dict):
        mapping = args[0]
    else:
        mapping = None
    parts = []
    pos = 0
    ai = 0
    for m in _FMT.finditer(fmt):
        if '%' in fmt[pos:m.start()]:
            raise OutsideSubset("format spec not modelled: %r" % fmt)
        if m.start() > pos:
            parts.append(z3.StringVal(fmt[pos:m.start()]))
        pos = m.end()
        key, conv = m.group(1), m.group(2)
        if conv == '%':
            parts.append(z3.StringVal('%'))
            continue
        if key is not None:
            if mapping is None:
                py_raise(TypeError, "format requires a mapping")
            v = mapping[key]
        else:
            if ai >= len(args):
                py_raise(TypeError, "not enough arguments for format string")
            v = args[ai]
            ai += 1
        if conv in 'di':
            if isinstance(v, Sym) and v.kind == 'int':
                parts.append(to_str(v))
            elif isinstance(v, (int, bool)):
                parts.append(z3.StringVal('%d' % v))
            elif isinstance(v, float):
                parts.append(z3.StringVal('%d' % v))
            else:
                raise OutsideSubset("%%d of %r" % (v,))
        else:
            parts.append(to_str(v) if conv == 's' else _repr(v))
    if '%' in fmt[pos:]:
        raise OutsideSubset("format spec not modelled: %r" % fmt)
    if pos < len(fmt):
        parts.append(z3.StringVal(fmt[pos:]))
    if mapping is None and ai != len(args):
        py_raise(TypeError, "not all arguments converted during string formatting")
    if not parts:
        return ""
    return wrap(z3.Concat(*parts) if len(parts) > 1 else parts[0])


def _repr(v):
    if isinstance(v, Sym):
        raise OutsideSubset("%r of a symbolic value")
    return z3.StringVal(repr(v))
