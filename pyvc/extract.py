"""Mechanical extraction of the verified text from /repo's current working tree (DESIGN 3).

Nothing is copied or hand-edited: the file is re-read and parsed on every run, a function /
method / nested closure is selected by qualified name, a statement slice by AST patterns.
What is dropped is listed in DESIGN 3 (docstrings, annotations, decorators, logger calls...)."""
import ast
import hashlib
import os

REPO = os.environ.get('PYVC_REPO', '/repo')


class AnchorLost(Exception):
    pass


_cache = {}


def parse_file(relpath):
    path = os.path.join(REPO, relpath)
    try:
        st = os.stat(path)
    except OSError as e:
        raise AnchorLost("file %s not found: %s" % (relpath, e))
    key = (path, st.st_mtime_ns, st.st_size)
    if key not in _cache:
        with open(path, 'r') as f:
            src = f.read()
        try:
            tree = ast.parse(src, filename=path)
        except SyntaxError as e:
            raise AnchorLost("file %s does not parse: %s" % (relpath, e))
        _cache[key] = (src, tree)
    return _cache[key]


def _find(body, name):
    hits = [n for n in body if isinstance(n, (ast.FunctionDef, ast.ClassDef, ast.AsyncFunctionDef)) and n.name == name]
    return hits


def find_def(tree, qualname):
    """Locate Class.method.closure... ; nested function defs are searched anywhere inside the parent body."""
    parts = qualname.split('.')
    node = tree
    for i, p in enumerate(parts):
        if isinstance(node, (ast.Module, ast.ClassDef)):
            hits = _find(node.body, p)
        else:
            hits = [n for n in ast.walk(node) if isinstance(n, (ast.FunctionDef, ast.ClassDef)) and n.name == p and n is not node]
        if not hits:
            raise AnchorLost("anchor lost: %s (no %r)" % (qualname, p))
        node = hits[-1] if isinstance(node, (ast.Module, ast.ClassDef)) else hits[0]
    return node


class Extracted:
    def __init__(self, relpath, qualname, node, source):
        self.relpath, self.qualname, self.node, self.source = relpath, qualname, node, source
        self.sha256 = hashlib.sha256(source.encode()).hexdigest()
        self.lines = (node.lineno, getattr(node, 'end_lineno', node.lineno)) if hasattr(node, 'lineno') else None

    def describe(self):
        return {"file": self.relpath, "qualname": self.qualname, "sha256": self.sha256,
                "lines": list(self.lines) if self.lines else None}


def annotate(node):
    """number branch sites and loops in source order (ids are independent of line numbers)"""
    bi = li = 0
    for n in ast.walk(node):
        pass
    order = sorted((n for n in ast.walk(node) if hasattr(n, 'lineno')),
                   key=lambda n: (n.lineno, n.col_offset))
    for n in order:
        if isinstance(n, (ast.If, ast.IfExp, ast.While, ast.Assert)) or \
                (isinstance(n, ast.expr) and isinstance(getattr(n, '_parent_boolop', None), ast.BoolOp)):
            n._pyvc_site = 'b%d' % bi
            bi += 1
        if isinstance(n, (ast.For, ast.While)):
            n._pyvc_loop = li
            li += 1
    # operands of and/or also branch
    for n in order:
        if isinstance(n, ast.BoolOp):
            for v in n.values[:-1]:
                if not hasattr(v, '_pyvc_site'):
                    v._pyvc_site = 'b%d' % bi
                    bi += 1
        if isinstance(n, ast.comprehension):
            pass
    return bi, li


def function(relpath, qualname):
    src, tree = parse_file(relpath)
    node = find_def(tree, qualname)
    if not isinstance(node, (ast.FunctionDef,)):
        raise AnchorLost("anchor %s is not a function" % qualname)
    seg = ast.get_source_segment(src, node) or ''
    ex = Extracted(relpath, qualname, node, seg)
    ex.n_sites, ex.n_loops = annotate(node)
    return ex


def statement_slice(relpath, qualname, start_pat, end_pat=None, include_end=False):
    """Slice of the body of `qualname` from the first statement whose unparsed text contains
    start_pat up to (excluding, unless include_end) the first later statement containing end_pat.
    The slice is wrapped into a synthetic FunctionDef whose parameters are given by the contract."""
    src, tree = parse_file(relpath)
    fn = find_def(tree, qualname)
    # every statement list inside the function (top-level body first, then nested blocks in source order)
    blocks = [fn.body]
    for n in ast.walk(fn):
        if n is fn:
            continue
        for field in ('body', 'orelse', 'finalbody'):
            b = getattr(n, field, None)
            if isinstance(b, list) and b and isinstance(b[0], ast.stmt):
                blocks.append(b)
        if isinstance(n, ast.Try):
            for h in n.handlers:
                blocks.append(h.body)
    body = si = None
    for b in blocks:
        texts = [ast.unparse(x) for x in b]
        if start_pat is None:
            # from the first (non-docstring) statement of the function body
            si = 1 if (b and isinstance(b[0], ast.Expr) and isinstance(b[0].value, ast.Constant)) else 0
            body = b
            break
        si = next((i for i, t in enumerate(texts) if start_pat in t.split('\n')[0]), None)
        if si is not None:
            body = b
            break
    if body is None:
        raise AnchorLost("anchor lost: slice start %r in %s" % (start_pat, qualname))
    ei = len(body)
    if end_pat is not None:
        ei = next((i for i in range(si + 1, len(body)) if end_pat in texts[i]), None)
        if ei is None:
            raise AnchorLost("anchor lost: slice end %r in %s" % (end_pat, qualname))
        if include_end:
            ei += 1
    stmts = body[si:ei]
    seg = '\n'.join(ast.get_source_segment(src, s) or '' for s in stmts)
    wrapper = ast.FunctionDef(name='slice_of_' + fn.name, args=ast.arguments(posonlyargs=[], args=[], vararg=None,
                              kwonlyargs=[], kw_defaults=[], kwarg=None, defaults=[]), body=stmts,
                              decorator_list=[], returns=None, type_comment=None, type_params=[])
    wrapper.lineno = stmts[0].lineno
    wrapper.col_offset = 0
    wrapper.end_lineno = stmts[-1].end_lineno
    ex = Extracted(relpath, qualname + '[slice %r..%r]' % (start_pat, end_pat), wrapper, seg)
    ex.n_sites, ex.n_loops = annotate(wrapper)
    return ex


def find_lambdas(node):
    return [n for n in ast.walk(node) if isinstance(n, ast.Lambda)]


def calls_named(node, dotted_name):
    from .interp import dotted
    return [n for n in ast.walk(node) if isinstance(n, ast.Call) and dotted(n.func) == dotted_name]


def module_globals(relpath):
    """The REAL module's globals (imported from /repo through the editable install), used to
    resolve names such as experiment.model.codes.* so constants are never copied."""
    import importlib
    assert relpath.startswith('python/') and relpath.endswith('.py')
    modname = relpath[len('python/'):-3].replace('/', '.')
    mod = importlib.import_module(modname)
    real = os.path.realpath(getattr(mod, '__file__', ''))
    want = os.path.realpath(os.path.join(REPO, relpath))
    if real != want:
        raise AnchorLost("module %s is imported from %s, not from %s" % (modname, real, want))
    return mod, vars(mod)


def constructor_default(relpath, clsname, attr):
    """('found', value) if the class's __init__ assigns  self.<attr> = <literal>  (None, numbers, strings, empty or literal
    containers); else None.  Used for instance fields a contract's stub does not declare (e.g. a field added by a change):
    they take the value the REAL constructor gives them."""
    try:
        fn = function(relpath, clsname + '.__init__').node
    except AnchorLost:
        fn = None
    found = _literal_assignment(fn, attr) if fn is not None else None
    if found is None:
        # not initialised by __init__ itself: the first literal assignment in another method of the class that __init__
        # (or the class's set-up code) relies on -- e.g. a field that a (re)initialisation method resets
        src, tree = parse_file(relpath)
        try:
            cls = find_def(tree, clsname)
        except AnchorLost:
            return None
        for item in cls.body:
            if isinstance(item, (ast.FunctionDef, ast.AsyncFunctionDef)) and item.name != '__init__':
                found = _literal_assignment(item, attr, only_none_or_empty=True)
                if found is not None:
                    break
    return found


def _literal_assignment(fn, attr, only_none_or_empty=False):
    found = None
    for n in ast.walk(fn):
        if isinstance(n, (ast.Assign, ast.AnnAssign)):
            targets = n.targets if isinstance(n, ast.Assign) else [n.target]
            for t in targets:
                if isinstance(t, ast.Attribute) and isinstance(t.value, ast.Name) and t.value.id == 'self' and t.attr == attr \
                        and n.value is not None:
                    v = n.value
                    if isinstance(v, ast.Call) and isinstance(v.func, ast.Name) and v.func.id in ('dict', 'list', 'set') and \
                            not v.args and not v.keywords:
                        found = ('found', {'dict': dict, 'list': list, 'set': set}[v.func.id]())
                    else:
                        try:
                            found = ('found', ast.literal_eval(v))
                        except Exception:
                            return None
                    if only_none_or_empty and found[1] not in (None, [], {}, set(), '', 0, False):
                        found = None
    return found
