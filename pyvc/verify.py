"""Verification of one Target / Lemma: path exploration (parallel over decision-prefix subtrees),
obligations, per-path CPython witnesses, native replay of counter-models."""
import hashlib
import os
import time
import traceback
import z3

from .core import (Sym, OutsideSubset, EngineError, Infeasible, PathLimit, PyRaise, ExcVal, wrap, Implies, And)
from .ctx import Ctx, PathResult
from .interp import Interp, LoopBodyEnd
from .spec import Outcome, State, Target, Lemma
from .values import Obj, Extern, GuardedList, ModelValue, MapBox, set_current_ctx
from . import smt

SPLIT_AFTER = 24          # paths explored in the parent before the frontier is handed to the pool
POOL = None               # set by check.py (multiprocessing pool, fork context)
_REGISTRY = {}            # (prop, target name) -> Target, filled before the pool is forked


class ObRecord:
    """Plain-data record of one obligation instance (picklable)."""

    def __init__(self, oid, kind, label, path, choices):
        self.oid, self.kind, self.label, self.path = oid, kind, label, path
        self.choices = dict(choices or {})
        self.status = None
        self.backend = None
        self.seconds = 0.0
        self.model = None
        self.solver_out = ''
        self.smt2 = None
        self.carved = False       # excluded on this path by the carve-out of an open known finding
        self.alt = None           # (group, case) for clauses that another mechanism may provide instead


class TargetReport:
    def __init__(self, target):
        self.target = target
        self.extracted = None
        self.paths = 0
        self.infeasible_paths = 0
        self.loop_body_paths = 0
        self.obligations = []          # ObRecord instances (per path)
        self.covered = set()
        self.n_sites = 0
        self.errors = []
        self.outside = []
        self.cross_checked = 0
        self.cross_skipped = 0
        self.cross_disagreements = []
        self.dropped_calls = 0
        self.native_calls = {}
        self.extern_calls = {}         # assumed contracts (externs) actually exercised: name -> calls over all paths
        self.lock_scopes = set()
        self.solver_seconds = 0.0
        self.feas_calls = 0
        self.wall = 0.0
        self.path_samples = []
        self.inlined = {}
        self.chunks = 0
        self.second = {}               # thorough tier: second-solver verdict -> count


    def merge(self, other):
        self.paths += other.paths
        self.infeasible_paths += other.infeasible_paths
        self.loop_body_paths += other.loop_body_paths
        self.obligations.extend(other.obligations)
        self.covered |= other.covered
        self.errors.extend(other.errors)
        self.outside.extend(other.outside)
        self.cross_checked += other.cross_checked
        self.cross_skipped += other.cross_skipped
        self.cross_disagreements.extend(other.cross_disagreements)
        self.dropped_calls += other.dropped_calls
        for k, v in other.native_calls.items():
            self.native_calls[k] = self.native_calls.get(k, 0) + v
        for k, v in other.extern_calls.items():
            self.extern_calls[k] = self.extern_calls.get(k, 0) + v
        self.lock_scopes |= other.lock_scopes
        self.solver_seconds += other.solver_seconds
        self.feas_calls += other.feas_calls
        self.path_samples = (self.path_samples + other.path_samples)[:3]
        self.inlined.update(other.inlined)
        self.chunks += other.chunks
        for k, v in other.second.items():
            self.second[k] = self.second.get(k, 0) + v


def concretize(v, model, depth=0):
    if type(v).__name__ == 'SStr':
        from . import sstr
        vals = {}
        for s_ in v.segs:
            if isinstance(s_, sstr.Atom):
                vals[s_.name] = s_.sample
            elif isinstance(s_, sstr.Num) and not isinstance(s_.n, int):
                vals[str(s_.n.e)] = smt.model_value(model, s_.n.e)
        return sstr.concretise(v, vals)
    if isinstance(v, Sym):
        return smt.model_value(model, v.e)
    if isinstance(v, z3.ExprRef):
        return smt.model_value(model, v)
    if isinstance(v, list):
        return [concretize(x, model, depth + 1) for x in v]
    if isinstance(v, tuple):
        return tuple(concretize(x, model, depth + 1) for x in v)
    if isinstance(v, dict):
        return {k: concretize(x, model, depth + 1) for k, x in v.items()}
    if isinstance(v, GuardedList):
        return [x for g, x in v.items if (g if isinstance(g, bool) else smt.model_value(model, g))]
    return v


def model_inputs(ctx, model):
    out = {name: smt.model_value(model, cst) for name, cst in ctx.inputs.items()}
    for name, a in getattr(ctx, 'atoms', {}).items():
        out[name] = a.sample          # structured-string atoms: any value satisfying the declared facts
    if ctx.map_inputs:
        # a symbolic map is read from the model at the relevant keys: every string the model gives to a
        # scalar input plus every literal key the code / contract used
        keys = set(ctx.key_literals)
        for v in out.values():
            if isinstance(v, str):
                keys.add(v)
        for name, (dom, val) in ctx.map_inputs.items():
            d = {}
            for k in sorted(keys):
                kz = z3.StringVal(k)
                if smt.model_value(model, z3.Select(dom, kz)) is True:
                    d[k] = smt.model_value(model, z3.Select(val, kz))
            out[name] = d
    return out


def _comparable(v):
    if isinstance(v, (list, tuple)):
        return all(_comparable(x) for x in v)
    if isinstance(v, dict):
        return all(_comparable(x) for x in v.values())
    return v is None or isinstance(v, (str, int, float, bool, bytes))


def _same(a, b):
    if isinstance(a, bool) or isinstance(b, bool):
        return a is b
    if isinstance(a, float) or isinstance(b, float):
        try:
            return abs(float(a) - float(b)) <= 1e-9 * max(1.0, abs(float(a)), abs(float(b)))
        except Exception:
            return False
    if isinstance(a, (list, tuple)) and isinstance(b, (list, tuple)):
        return len(a) == len(b) and all(_same(x, y) for x, y in zip(a, b))
    if isinstance(a, dict) and isinstance(b, dict):
        return set(a) == set(b) and all(_same(a[k], b[k]) for k in a)
    return a == b


def native_run(target, inputs, choices):
    """Run the REAL function from /repo natively on the stub state built from a model.
    Returns (ctx, st, out, clauses)"""
    ctx = Ctx('concrete', model=inputs, choices=choices, native=True)
    ctx.class_constants = []
    set_current_ctx(ctx)
    module_state = _mutable_class_state(target) if isinstance(target, Target) else {}
    try:
        st = target.setup(ctx)
        externs = target.externs(ctx, st)
        for handle, (ifile, icls, names) in getattr(target, 'inline_methods', {}).items():
            import types as _types
            from . import extract as _ex
            obj = getattr(st, handle)
            mod, _g = _ex.module_globals(ifile)
            cls = mod
            for part in icls.split('.'):
                cls = getattr(cls, part)
            for mname in names:
                fn = cls.__dict__[mname]
                fn = getattr(fn, '__func__', fn)
                setattr(obj, mname, _types.MethodType(fn, obj))
        def make_nfb(ifile, icls):
            import types as _types
            from . import extract as _ex
            mod, _g = _ex.module_globals(ifile)
            cls = mod
            for part in icls.split('.'):
                cls = getattr(cls, part)
                if type(cls).__name__ == 'Extern':
                    cls = cls.__dict__['original']       # the constructor is patched by the contract: the class behind it

            def nfb(obj, mname, cls=cls, ifile=ifile, icls=icls):
                fn = cls.__dict__.get(mname)
                if isinstance(fn, (str, int, float, tuple, list, dict, frozenset, set, __import__('re').Pattern)):
                    import copy as _copy
                    cp = _copy.deepcopy(fn)            # a class-level constant: a private copy, as in the symbolic run
                    if isinstance(fn, (list, dict, set)):
                        ctx.class_constants.append(('%s.%s' % (icls, mname), _copy.deepcopy(fn), cp))
                    return cp
                if isinstance(fn, property):
                    return _PropertyFB(_types.MethodType(fn.fget, obj))
                if fn is None:
                    d = _ex.constructor_default(ifile, icls, mname)
                    if d is not None:
                        return _FieldDefault(d[1])
                if fn is None or not callable(getattr(fn, '__func__', fn)):
                    return None
                if isinstance(fn, staticmethod):
                    return fn.__func__
                return _types.MethodType(getattr(fn, '__func__', fn), obj)
            return nfb

        def new_instance(ifile, icls, stub_name, *args, **kwargs):
            """an instance of a REAL class of /repo as a stub: its constructor and every method / property come from the
            class's current source"""
            o = Obj(stub_name)
            nfb = make_nfb(ifile, icls)
            object.__setattr__(o, '_fallback', nfb)
            nfb(o, '__init__')(*args, **kwargs)
            return o
        ctx.new_instance = new_instance
        for handle, (ifile, icls) in _inline_classes(target, st).items():
            if isinstance(_resolve_handle(st, handle), Obj):
                object.__setattr__(_resolve_handle(st, handle), '_fallback', make_nfb(ifile, icls))
        with target.patched(externs):
            out = target.run_native(ctx, st)
            clauses = list(target.ensures(ctx, st, out))     # evaluated under the same patched externs
            clauses += list(target.frame(ctx, st, out))
        clauses += _class_constant_frame(ctx)
        changed = _module_state_changed(module_state)
        if module_state:
            clauses.append((MODULE_STATE_LABEL, not changed))
            if changed:
                ctx.note("class-level state modified: %s" % changed)
        return ctx, st, out, clauses
    finally:
        set_current_ctx(None)


def path_id(decisions):
    h = hashlib.sha1(repr([int(d) for d in decisions]).encode()).hexdigest()[:10]
    return 'p' + h


def _z(goal):
    if isinstance(goal, bool):
        return z3.BoolVal(goal)
    if isinstance(goal, Sym):
        return goal.e
    return goal


def explore_chunk(target, work, limit, carve_names, tier, cross_check=True):
    """Explore decision-prefix subtrees rooted at `work`; stops after `limit` paths (None = exhaust).
    Returns (TargetReport partial, remaining work)."""
    rep = TargetReport(target)
    rep.chunks = 1
    ex = target.extracted()
    mod, globs = target.module()
    rep.extracted = ex
    rep.n_sites = getattr(ex, 'n_sites', 0)
    is_slice = target.slice is not None
    carve = {label: target.carve_outs[name] for label, name in (carve_names or {}).items()}

    def run_path(ctx):
        ctx.class_constants = []
        st = target.setup(ctx)
        ctx.assume_checked(target.requires(ctx, st))
        externs = target.externs(ctx, st)
        it = Interp(ctx, globs, externs=externs, pure=target.pure, loop_specs=target.loop_specs(ctx, st),
                    drop=target.drop, set_iter=target.set_iter, qualname=target.qualname)
        ctx.interp = it
        it.local_overrides = dict(target.local_overrides(ctx, st))
        for iname, spec_ in getattr(target, 'inline', {}).items():
            from .interp import Closure, Env, BoundClosure
            from . import extract as _ex
            ifile, iqual = spec_[0], spec_[1]
            iex = _ex.function(ifile, iqual)
            _, iglobs = _ex.module_globals(ifile)
            clo = Closure(iex.node, Env(globs=iglobs), it, iqual)
            # (file, qualname, handle): a (class)method called through the real class name, bound to the stub `handle`
            it.externs[iname] = BoundClosure(clo, getattr(st, spec_[2])) if len(spec_) > 2 else clo
            rep.inlined[iqual] = iex.describe()
        for handle, (ifile, icls, names) in getattr(target, 'inline_methods', {}).items():
            from .interp import Closure, Env, BoundClosure
            from . import extract as _ex
            obj = getattr(st, handle)
            _, iglobs = _ex.module_globals(ifile)
            for mname in names:
                iex = _ex.function(ifile, icls + '.' + mname)
                setattr(obj, mname, BoundClosure(Closure(iex.node, Env(globs=iglobs), it, icls + '.' + mname), obj))
                rep.inlined[icls + '.' + mname] = iex.describe()
        def make_fb(ifile, icls):
            # any OTHER method of the class that the code calls on this stub is interpreted from its real source
            from .interp import Closure, Env, BoundClosure
            from . import extract as _ex

            def fb(obj, mname, ifile=ifile, icls=icls):
                try:
                    iex = _ex.function(ifile, icls + '.' + mname)
                except _ex.AnchorLost:
                    # a class-level constant (read from the REAL class, i.e. from /repo's current tree)
                    import copy as _copy
                    mod_, _g2 = _ex.module_globals(ifile)
                    k = mod_
                    for part in icls.split('.'):
                        k = getattr(k, part)
                    v = k.__dict__.get(mname, None)
                    if isinstance(v, (str, int, float, tuple, list, dict, frozenset, set, __import__('re').Pattern)):
                        cp = _copy.deepcopy(v)
                        if isinstance(v, (list, dict, set)):
                            ctx.class_constants.append(('%s.%s' % (icls, mname), _copy.deepcopy(v), cp))
                        return cp
                    d = _ex.constructor_default(ifile, icls, mname)
                    if d is not None:
                        return _FieldDefault(d[1])
                    return None
                _, iglobs = _ex.module_globals(ifile)
                rep.inlined[icls + '.' + mname] = iex.describe()
                clo_ = Closure(iex.node, Env(globs=iglobs), it, icls + '.' + mname)
                import ast as _ast
                decos = [_ast.unparse(d) for d in iex.node.decorator_list]
                if 'staticmethod' in decos:
                    return clo_
                if 'property' in decos:
                    return _PropertyFB(BoundClosure(clo_, obj))
                return BoundClosure(clo_, obj)
            return fb

        def new_instance(ifile, icls, stub_name, *args, **kwargs):
            o = Obj(stub_name)
            fb = make_fb(ifile, icls)
            object.__setattr__(o, '_fallback', fb)
            fb(o, '__init__')(*args, **kwargs)
            return o
        ctx.new_instance = new_instance
        for handle, (ifile, icls) in _inline_classes(target, st).items():
            if isinstance(_resolve_handle(st, handle), Obj):
                object.__setattr__(_resolve_handle(st, handle), '_fallback', make_fb(ifile, icls))
        out = None
        try:
            out = target.run_symbolic(ctx, st, it, ex, globs)
        except PyRaise as pr:
            out = Outcome('raise', exc=pr.exc)
        except LoopBodyEnd:
            out = None
        if out is not None:
            for label, goal in target.ensures(ctx, st, out):
                ctx.oblige(label, goal)
            for label, goal in target.frame(ctx, st, out):
                ctx.oblige(label, goal)
            for label, goal in _class_constant_frame(ctx):
                ctx.oblige(label, goal)
        return PathResult(ctx, 'done' if out is not None else 'loop-body', out, st)

    work = list(work)
    n = 0
    module_state = _mutable_class_state(target) if isinstance(target, Target) else {}
    try:
        while work:
            if limit is not None and n >= limit:
                break
            prefix = work.pop()
            n += 1
            if n > target.max_paths:
                raise PathLimit("more than %d paths" % target.max_paths)
            ctx = Ctx('sym', decisions=prefix)
            set_current_ctx(ctx)
            try:
                res = run_path(ctx)
            except Infeasible:
                res = PathResult(ctx, 'infeasible', None, None)
            except OutsideSubset as err:
                # The path leaves the subset: the target stays UNDECIDED.  The path's choices are still a concrete input
                # shape, so the REAL code is run on it with the declared sample values; a clause that is false there is
                # a violation replayed on the real code (never a proof of anything when it is true).
                set_current_ctx(None)
                rep.outside.append("%s" % err)
                _module_state_changed(module_state)          # (restore; the sample replay below has its own check)
                _probe_sample(target, rep, ctx)
                outside_paths = getattr(rep, '_outside_paths', 0) + 1
                rep._outside_paths = outside_paths
                if outside_paths >= 16:
                    break
                work.extend(ctx.pending)
                continue
            finally:
                set_current_ctx(None)
            work.extend(ctx.pending)
            changed = _module_state_changed(module_state)
            if changed and res.outcome != 'infeasible':
                # the interpreted code reached a class-level container of the REAL class (by the class's name) and modified it
                ob = ObRecord(target.oid('ensures', MODULE_STATE_LABEL), 'ensures', MODULE_STATE_LABEL, path_id(ctx.decisions), ctx.choices)
                ob.status, ob.backend, ob.model = 'refuted', 'frame (class-level state compared before / after the path)', {}
                ob.solver_out = 'modified: %s' % changed
                rep.obligations.append(ob)
            _account_path(target, rep, res, carve, tier, cross_check)
    except OutsideSubset as err:
        rep.outside.append("%s" % err)
    except PathLimit as err:
        rep.outside.append("path limit: %s" % err)
    except EngineError as err:
        rep.errors.append(('engine', str(err)))
    except Exception as err:
        rep.errors.append(('crash', "%s: %s\n%s" % (type(err).__name__, err, traceback.format_exc()[-2000:])))
    return rep, work


MODULE_STATE_LABEL = 'class-level-state-of-the-module-is-left-unchanged'


def _mutable_class_state(target):
    """{(class, attribute): snapshot} for every mutable container bound at class level in the module of the code under
    contract (tables, lists, caches -- including ones a change has just added).  Together with the obligation below: a
    function under contract leaves them as they are, however it reaches them (through `cls`, or by the class's name)."""
    import collections.abc as _abc
    import copy as _copy
    try:
        mod, _g = target.module()
    except Exception:
        return {}
    out = {}
    for cls in list(vars(mod).values()):
        if not isinstance(cls, type) or getattr(cls, '__module__', None) != mod.__name__:
            continue
        for attr, v in list(vars(cls).items()):
            if attr.startswith('__'):
                continue
            if isinstance(v, (list, dict, set)):
                try:
                    out[(cls, attr)] = _copy.deepcopy(v)
                except Exception:
                    pass
            elif isinstance(v, _abc.MutableMapping):
                try:
                    out[(cls, attr)] = list(v.items())
                except Exception:
                    pass
    return out


def _module_state_changed(snapshot, restore=True):
    """names of the class-level containers that differ from the snapshot (restored afterwards: the process goes on)"""
    import collections.abc as _abc
    import copy as _copy
    changed = []
    for (cls, attr), snap in snapshot.items():
        cur = cls.__dict__.get(attr)
        try:
            if isinstance(cur, (list, dict, set)):
                same = (type(cur) is type(snap) and cur == snap)
            elif isinstance(cur, _abc.MutableMapping):
                same = (list(cur.items()) == snap)
            else:
                same = (cur is None and snap is None)
        except Exception:
            same = True
        if not same:
            changed.append('%s.%s' % (cls.__name__, attr))
            if restore:
                try:
                    if isinstance(cur, list):
                        cur[:] = _copy.deepcopy(snap)
                    elif isinstance(cur, dict):
                        cur.clear(); cur.update(_copy.deepcopy(snap))
                    elif isinstance(cur, set):
                        cur.clear(); cur.update(_copy.deepcopy(snap))
                    elif isinstance(cur, _abc.MutableMapping):
                        for k in list(cur.keys()):
                            del cur[k]
                        for k, v in snap:
                            cur[k] = v
                    else:
                        setattr(cls, attr, _copy.deepcopy(snap))
                except Exception:
                    pass
    return changed


def _class_constant_frame(ctx):
    """FRAME obligation added to every target: the mutable class-level constants (tables, lists, default dictionaries) that
    the code under contract read through the real class are left as they were.  A function that extends such a constant
    changes what every later call -- of every instance, for the rest of the process -- sees (history dependence)."""
    out = []
    for name, original, current in getattr(ctx, 'class_constants', []):
        try:
            same = (original == current)
        except Exception:
            same = True
        out.append(('class-level-constants-are-left-unchanged', bool(same) if isinstance(same, bool) else True))
    if not out:
        return []
    return [('class-level-constants-are-left-unchanged', all(v for _, v in out))]


def _probe_sample(target, rep, ctx):
    """native run of the real code on the choices of a path the engine could not finish (sample values for symbols)"""
    if not isinstance(target, Target) or not target.native_replay or hasattr(target, 'custom_replay'):
        return
    try:
        nctx, nst, nout, clauses = native_run(target, {}, dict(ctx.choices))
    except BaseException as err:
        if isinstance(err, (KeyboardInterrupt, SystemExit, MemoryError)):
            raise
        return
    seen = set()
    for label, v in clauses:
        if v is False and label not in seen:
            seen.add(label)
            ob = ObRecord(target.oid('ensures', label), 'ensures', label, path_id(ctx.decisions) + 's', nctx.choices)
            ob.status, ob.backend = 'refuted', 'sample-replay (path outside the subset; real code run on the sample input)'
            ob.model = dict(getattr(nctx, 'inputs', {}) or {})
            ob.solver_out = 'not decided symbolically; clause false on the real code for the sample input of this path'
            rep.obligations.append(ob)


def _account_path(target, rep, res, carve, tier, cross_check):
    ctx = res.ctx
    rep.feas_calls += ctx.solver_calls
    rep.solver_seconds += ctx.solver_seconds
    for k, v in getattr(ctx, 'extern_calls', {}).items():
        rep.extern_calls[k] = rep.extern_calls.get(k, 0) + v
    it = getattr(ctx, 'interp', None)
    if it is not None:
        rep.dropped_calls += it.dropped_calls
        for k, v in it.native_calls.items():
            rep.native_calls[k] = rep.native_calls.get(k, 0) + v
        rep.lock_scopes.update(it.lock_scopes)
    if res.outcome == 'infeasible':
        rep.infeasible_paths += 1
        return
    rep.paths += 1
    if res.outcome == 'loop-body':
        rep.loop_body_paths += 1
    rep.covered |= ctx.covered
    pid = path_id(ctx.decisions)
    full = len(ctx.pc)
    if ctx.obligations:
        ctx.solver.set('timeout', smt.Z3_TIMEOUT_MS)
    for (label, kind, goal, info, npc) in ctx.obligations:
        g = _z(goal)
        carved = False
        if label in carve:
            cv = carve[label](ctx, res.state)
            carved = cv is False
            g = z3.Implies(_z(cv), g)
        ob = ObRecord(target.oid(kind, label), kind, label, pid, ctx.choices)
        ob.carved = carved
        if label in getattr(target, 'alternatives', {}):
            ob.alt = (target.alternatives[label], repr(target.alt_case(ctx, res.state)))
        pc = ctx.pc[:npc]
        status = None
        if npc == full:
            # the path's incremental solver already holds the whole path condition
            gs = z3.simplify(g)
            t1 = time.time()
            if z3.is_true(gs):
                status, backend, sec, model, sout = 'discharged', 'simplifier', 0.0, None, 'goal simplifies to true'
            else:
                r = ctx.solver.check(z3.Not(gs))
                sec = time.time() - t1
                if r == z3.unsat:
                    status, backend, model, sout = 'discharged', 'z3-%s' % z3.get_version_string(), None, 'unsat'
                elif r == z3.sat:
                    status, backend, model, sout = 'refuted', 'z3-%s' % z3.get_version_string(), ctx.solver.model(), 'sat'
                    extra = target.witness_constraints(ctx, res.state)
                    if extra and ctx.solver.check(z3.Not(gs), *extra) == z3.sat:
                        model = ctx.solver.model()      # prefer a counter-model that is exact in doubles
        if status is None:
            status, backend, sec, model, sout = smt.check_valid(pc, g)
        ob.status, ob.backend, ob.seconds, ob.solver_out = status, backend, sec, sout
        rep.solver_seconds += sec
        if tier == 'thorough' and status == 'discharged' and backend.startswith('z3') and _second_sampled(target, pid, label):
            # two-solver agreement (DESIGN 5.4): the SMT-LIB dump of the obligation goes to cvc5
            verdict = smt.second_opinion(pc, g)
            rep.second[verdict] = rep.second.get(verdict, 0) + 1
            if verdict.startswith('sat'):
                rep.errors.append(('solver-disagreement', "z3 discharged %s on path %s but cvc5 answers sat" % (ob.oid, pid)))
        if status == 'refuted' and model is not None:
            ob.model = model_inputs(ctx, model)
        if status != 'discharged' or len(rep.obligations) < 2:
            try:
                ob.smt2 = smt.smt2_of(pc, g)[-20000:]
            except Exception:
                ob.smt2 = None
        rep.obligations.append(ob)
    if cross_check and target.native_replay and res.outcome == 'done':
        _cross_check(target, rep, res, pid)
    if len(rep.path_samples) < 3 and res.outcome == 'done':
        rep.path_samples.append({"path": pid, "choices": dict(ctx.choices), "outcome": repr(res.value)[:200],
                                 "pc_size": len(ctx.pc)})


def _inline_classes(target, st):
    """Target.inline_class, plus -- by default -- the class of the method under contract for the stubs called `this` / `cls`
    in the State: a helper method, class constant or new instance field that the code starts to use is then taken from the
    REAL class instead of stopping the run with 'undeclared in the contract' (robustness against harmless refactorings)."""
    out = dict(getattr(target, 'inline_class', {}) or {})
    q = getattr(target, 'qualname', None) or ''
    if '.' in q and getattr(target, 'file', None):
        cname = q.split('.')[0]
        try:
            import ast as _ast
            from . import extract as _ex
            _src, tree = _ex.parse_file(target.file)
            is_class = any(isinstance(n, _ast.ClassDef) and n.name == cname for n in tree.body)
        except Exception:
            is_class = False
        if is_class:
            for handle in ('this', 'cls'):
                if handle not in out and isinstance(getattr(st, handle, None), Obj):
                    out[handle] = (target.file, cname)
            recv = _receiver(st)
            if recv is not None and not any(_resolve_handle(st, h) is recv for h in out):
                out['__receiver__'] = (target.file, cname)
    return out


def _receiver(st):
    """the stub passed as self / cls: first positional argument, the `self` keyword (slices) or the closure's free `self`"""
    for cand in ((st.args[0] if getattr(st, 'args', None) else None), (getattr(st, 'kwargs', None) or {}).get('self'),
                 (getattr(st, 'free', None) or {}).get('self')):
        if isinstance(cand, Obj):
            return cand
    return None


def _resolve_handle(st, handle):
    return _receiver(st) if handle == '__receiver__' else getattr(st, handle, None)


class _PropertyFB:
    """wrapper: a property of the real class; evaluated on EVERY read of the attribute (never cached on the stub)"""

    def __init__(self, getter):
        self.getter = getter


class _FieldDefault:
    """wrapper: the value the real constructor gives to an instance field (may legitimately be None)"""

    def __init__(self, value):
        self.value = value


def _second_sampled(target, pid, label):
    rate = int(getattr(target, 'second_rate', 1) or 1)
    if rate <= 1:
        return True
    import hashlib
    return int(hashlib.md5(('%s|%s' % (pid, label)).encode()).hexdigest()[:6], 16) % rate == 0


def _cross_check(target, rep, res, pid):
    ctx = res.ctx
    s = z3.Solver()
    s.set('timeout', 5000)
    for p in ctx.pc:
        s.add(p)
    if s.check() != z3.sat:
        return
    model = s.model()
    inputs = model_inputs(ctx, model)
    if target.float_sensitive:
        # float-exact witnesses (see Target.witness_constraints); paths without one are not comparable
        rounded = _rounded_model(ctx, model)
        if rounded is not None:
            inputs, model = rounded
        else:
            s.set('timeout', 1500)
            if s.check(*target.witness_constraints(ctx, res.state)) != z3.sat:
                rep.cross_skipped += 1
                return
            model = s.model()
            inputs = model_inputs(ctx, model)
    try:
        nctx, nst, nout, nclauses = native_run(target, inputs, ctx.choices)
    except (OutsideSubset, EngineError) as err:
        rep.cross_disagreements.append({"path": pid, "error": "native run: %s" % err, "inputs": inputs})
        return
    except Exception as err:
        rep.cross_disagreements.append({"path": pid, "error": "native run crashed: %s: %s" % (type(err).__name__, err),
                                        "inputs": inputs, "tb": traceback.format_exc()[-1500:]})
        return
    rep.cross_checked += 1
    sout = res.value
    problems = []
    if sout.kind != nout.kind:
        problems.append("outcome kind: symbolic %r vs native %r" % (sout, nout))
    elif sout.kind == 'return':
        sv = concretize(sout.value, model)
        if target.compare_return and _comparable(sv) and _comparable(nout.value) and not _same(sv, nout.value):
            problems.append("return value: symbolic %r vs native %r" % (sv, nout.value))
    else:
        if not issubclass(type(nout.exc), sout.exc.cls) and not issubclass(sout.exc.cls, type(nout.exc)):
            problems.append("exception: symbolic %r vs native %r" % (sout.exc, nout.exc))
    for k, v in ctx.ghost.items():
        sv = concretize(v, model)
        nv = nctx.ghost.get(k)
        if _comparable(sv) and _comparable(nv) and not _same(sv, nv):
            problems.append("ghost %s: symbolic %r vs native %r" % (k, sv, nv))
    sev = concretize(list(ctx.events), model)
    nev = [tuple(e) for e in nctx.events]
    if _comparable(sev) and _comparable(nev) and not _same(sev, nev):
        problems.append("events: symbolic %r vs native %r" % (sev, nev))
    extra = target.cross_compare(ctx, res.state, nctx, nst, model, concretize)
    problems.extend(extra or [])
    # a clause that is FALSE natively on a witness of this path must not have been proved for this path
    false_native = {label for label, v in nclauses if v is False}
    if false_native:
        by_label = {}
        for ob in rep.obligations:
            if ob.path == pid:
                by_label.setdefault(target.native_label(ob.label), []).append('carved' if ob.carved else ob.status)
        for label in sorted(false_native):
            sts = by_label.get(label)
            if sts and all(x == 'discharged' for x in sts):
                problems.append("clause %r is false on the real code for this path's witness although every symbolic "
                                "instance of it was discharged (contract symbolic/native mismatch or unsound engine)" % label)
    if problems:
        rep.cross_disagreements.append({"path": pid, "problems": problems, "inputs": inputs,
                                        "choices": dict(ctx.choices)})


JOB_PATHS = 250


class _FixedModel:
    """model-like object: a total assignment of the path's inputs"""

    def __init__(self, subs):
        self.subs = subs

    def eval(self, e, model_completion=True):
        return z3.simplify(z3.substitute(e, *self.subs))


def _rounded_model(ctx, model):
    """round every real input of `model` to a multiple of 1/1024; keep it if the path condition still holds"""
    import fractions
    subs = []
    inputs = {}
    for name, cst in ctx.inputs.items():
        v = model.eval(cst, model_completion=True)
        if cst.sort().kind() == z3.Z3_REAL_SORT:
            if z3.is_algebraic_value(v):
                v = v.approx(20)
            fr = fractions.Fraction(v.numerator_as_long(), v.denominator_as_long())
            fr = fractions.Fraction(round(fr * 1024), 1024)
            v = z3.RealVal(fr)
        subs.append((cst, v))
        inputs[name] = smt.z3_to_python(v)
    fm = _FixedModel(subs)
    for p in ctx.pc:
        if not z3.is_true(fm.eval(p)):
            return None
    return inputs, fm


def _pool_job(args):
    key, prefixes, carve_names, tier, cross_check = args
    target = _REGISTRY[key]
    rest = []
    try:
        rep, rest = explore_chunk(target, prefixes, JOB_PATHS, carve_names, tier, cross_check)
    except Exception as err:
        rep = TargetReport(target)
        rep.errors.append(('crash', "%s: %s\n%s" % (type(err).__name__, err, traceback.format_exc()[-2000:])))
    rep.target = None
    rep.extracted = None
    return rep, rest


def register(prop, targets):
    for t in targets:
        _REGISTRY[(prop, t.name or t.qualname)] = t


def verify_target(target, tier='quick', carve_names=None, cross_check=True):
    t0 = time.time()
    try:
        rep, rest = explore_chunk(target, [[]], SPLIT_AFTER if POOL is not None else None, carve_names, tier, cross_check)
    except Exception as err:
        rep = TargetReport(target)
        rep.errors.append(('anchor' if 'nchor' in type(err).__name__ else 'crash',
                           "%s: %s\n%s" % (type(err).__name__, err, traceback.format_exc()[-1500:])))
        rep.wall = time.time() - t0
        return rep
    key = (target.prop, target.name or target.qualname)
    while rest and not rep.errors and not rep.outside:
        # dynamic load balancing: every job explores at most JOB_PATHS paths and hands back its frontier
        jobs = [(key, [p], carve_names, tier, cross_check) for p in rest]
        rest = []
        for part, more in POOL.imap_unordered(_pool_job, jobs, chunksize=1):
            rep.merge(part)
            rest.extend(more)
        if rep.paths > target.max_paths:
            rep.outside.append("path limit: more than %d paths" % target.max_paths)
            break
    rep.wall = time.time() - t0
    return rep


def replay_obligation(target, ob):
    """Replay the counter-model of a refuted `ensures` obligation on the REAL function.
    returns ('confirmed'|'contradicted'|'no-replay', detail dict)"""
    if hasattr(target, 'custom_replay'):
        try:
            return target.custom_replay(ob)
        except Exception as err:
            return 'no-replay', {"reason": "custom replay failed: %s: %s" % (type(err).__name__, err)}
    if ob.model is None or ob.kind != 'ensures' or not target.native_replay:
        return 'no-replay', {"reason": "no usable model" if ob.model is None else
                             "obligation kind %s has no native replay" % ob.kind}
    try:
        nctx, nst, nout, clauses = native_run(target, ob.model, ob.choices)
    except Exception as err:
        return 'no-replay', {"reason": "native run failed: %s: %s" % (type(err).__name__, err)}
    vals = {}
    for label, v in clauses:
        vals.setdefault(label, []).append(v)
    got = vals.get(target.native_label(ob.label))
    detail = {"inputs": ob.model, "choices": ob.choices, "native_outcome": repr(nout)[:300],
              "clause": ob.label, "clause_value": repr(got), "ghost": {k: repr(v)[:200] for k, v in nctx.ghost.items()},
              "events": [repr(e)[:200] for e in nctx.events][:50]}
    if got is None:
        return 'no-replay', dict(detail, reason="clause not produced natively")
    if any(v is False for v in got):
        return 'confirmed', detail
    if target.abstracted:
        # the counter-model interprets uninterpreted externs freely; look for a REAL failing input of the same
        # path shape by randomised search over small string pools
        found = search_witness(target, ob)
        if found is not None:
            return 'confirmed', found
        return 'no-replay', dict(detail, reason="counter-model depends on the abstraction of an extern; randomised "
                                 "search over concrete inputs found no failing input")
    if any(isinstance(v, dict) for v in ob.model.values()):
        # symbolic maps are read from the model only at the keys the run mentioned; a counter-model that lives at another
        # key of a map is not reproduced by that reading: look for a real failing input of the same path shape
        found = search_witness(target, ob, tries=600)
        if found is not None:
            return 'confirmed', found
    return 'contradicted', detail


def search_witness(target, ob, tries=4000):
    import random
    rng = random.Random(int(os.environ.get('VERIF_SEED', '0') or 0) * 7919 + 13)
    names = sorted({v for v in ob.model.values() if isinstance(v, str) and v} |
                   {k for v in ob.model.values() if isinstance(v, dict) for k in v} | {'A', 'B', 'PATH'})
    names = [n for n in names if ':' not in n and '$' not in n][:6]
    values = ['v', '', 'x/y', 'two\nlines', 'back\\slash\ttab', 'dos\r\nline', 'bar\rredrawn', 'end\n'] + ['$%s' % n for n in names] + ['${%s}:z' % n for n in names] + ['a:$%s' % n for n in names]
    want = target.native_label(ob.label)

    def sample(v, name):
        if isinstance(v, dict):
            d = {}
            for k in names:
                if rng.random() < 0.5:
                    d[k] = rng.choice(values)
            for k in v:
                if k not in names and rng.random() < 0.7:
                    d[k] = v[k] if rng.random() < 0.5 else rng.choice(values)
            return d
        if isinstance(v, str):
            r = rng.random()
            return rng.choice(names) if r < 0.6 else (rng.choice(values) if r < 0.9 else v)
        return v
    for i in range(tries):
        inputs = {k: sample(v, k) for k, v in ob.model.items()}
        try:
            nctx, nst, nout, clauses = native_run(target, inputs, ob.choices)
        except Exception:
            continue
        for label, val in clauses:
            if label == want and val is False:
                return {"inputs": inputs, "choices": ob.choices, "native_outcome": repr(nout)[:300], "clause": want,
                        "clause_value": "[False]", "found_by": "randomised search, try %d" % i}
    return None


def verify_lemma(lemma, tier='quick'):
    rep = TargetReport(lemma)
    t0 = time.time()
    ctx = Ctx('sym')
    set_current_ctx(ctx)
    try:
        obs = lemma.obligations(ctx)
    except Exception as err:
        rep.errors.append(('crash', "%s: %s\n%s" % (type(err).__name__, err, traceback.format_exc())))
        obs = []
    finally:
        set_current_ctx(None)
    rep.paths = 1
    for label, goal in obs:
        g = _z(goal)
        ob = ObRecord(lemma.oid(label), 'lemma', label, 'lemma', {})
        status, backend, sec, model, sout = smt.check_valid(list(ctx.pc), g)
        ob.status, ob.backend, ob.seconds, ob.solver_out = status, backend, sec, sout
        if status == 'refuted' and model is not None:
            ob.model = model_inputs(ctx, model)
        if status != 'discharged' or len(rep.obligations) < 2:
            ob.smt2 = smt.smt2_of(list(ctx.pc), g)[-20000:]
        if tier == 'thorough' and status == 'discharged' and backend.startswith('z3'):
            verdict = smt.second_opinion(list(ctx.pc), g)
            rep.second[verdict] = rep.second.get(verdict, 0) + 1
            if verdict.startswith('sat'):
                rep.errors.append(('solver-disagreement', "z3 discharged %s but cvc5 answers sat" % ob.oid))
        rep.solver_seconds += sec
        rep.obligations.append(ob)
    rep.wall = time.time() - t0
    return rep
