"""Syntactic frame obligations: which functions of a file write / call a given attribute.
Used for `writes` frames of ghost-relevant fields (every writer must be under contract)."""
import ast
from . import extract


def _qualnames(tree):
    """map id(node) -> qualname of the innermost enclosing def/class chain"""
    out = {}

    def rec(node, prefix):
        for child in ast.iter_child_nodes(node):
            if isinstance(child, (ast.FunctionDef, ast.AsyncFunctionDef, ast.ClassDef)):
                q = (prefix + '.' if prefix else '') + child.name
                out[id(child)] = q
                rec(child, q)
            else:
                out[id(child)] = prefix
                rec(child, prefix)
    rec(tree, '')
    return out


def attribute_writers(relpath, attr, receiver=None):
    """qualnames of functions containing  <x>.attr = ..., <x>.attr += ..., del <x>.attr, setattr(<x>, 'attr', ..)"""
    src, tree = extract.parse_file(relpath)
    q = _qualnames(tree)
    writers = set()
    for n in ast.walk(tree):
        targets = []
        if isinstance(n, ast.Assign):
            targets = n.targets
        elif isinstance(n, (ast.AugAssign, ast.AnnAssign)):
            targets = [n.target]
        elif isinstance(n, ast.Delete):
            targets = n.targets
        elif isinstance(n, ast.Call) and isinstance(n.func, ast.Name) and n.func.id == 'setattr' and len(n.args) >= 2 \
                and isinstance(n.args[1], ast.Constant) and n.args[1].value == attr:
            writers.add(q.get(id(n), ''))
        flat = []
        for t in targets:
            if isinstance(t, (ast.Tuple, ast.List)):
                flat.extend(t.elts)
            else:
                flat.append(t)
        for t in flat:
            if isinstance(t, ast.Attribute) and t.attr == attr:
                if receiver is None or (isinstance(t.value, ast.Name) and t.value.id == receiver):
                    writers.add(q.get(id(n), ''))
    return writers


def method_callers(relpath, attr, method):
    """qualnames of functions containing  <x>.attr.method(...)  (e.g. comp_done.add)"""
    src, tree = extract.parse_file(relpath)
    q = _qualnames(tree)
    out = set()
    for n in ast.walk(tree):
        if isinstance(n, ast.Call) and isinstance(n.func, ast.Attribute) and n.func.attr == method \
                and isinstance(n.func.value, ast.Attribute) and n.func.value.attr == attr:
            out.add(q.get(id(n), ''))
    return out


def calls_of(relpath, method_name):
    """qualnames of functions containing a call  <anything>.method_name(...)  or method_name(...)"""
    src, tree = extract.parse_file(relpath)
    q = _qualnames(tree)
    out = set()
    for n in ast.walk(tree):
        if isinstance(n, ast.Call):
            f = n.func
            if (isinstance(f, ast.Attribute) and f.attr == method_name) or (isinstance(f, ast.Name) and f.id == method_name):
                out.add(q.get(id(n), ''))
    return out


def calls_outside_lock(relpath, attr, method, lock_attr):
    """the calls  <x>.attr.method(...)  that are NOT lexically inside a `with <y>.lock_attr:` block of the same function:
    list of (qualname, line).  (A lock taken by a caller is not seen: callers are listed for inspection.)"""
    src, tree = extract.parse_file(relpath)
    q = _qualnames(tree)
    out = []

    def walk(node, locked):
        for child in ast.iter_child_nodes(node):
            now = locked
            if isinstance(child, (ast.FunctionDef, ast.AsyncFunctionDef, ast.Lambda)):
                now = False                  # a nested function runs later, not under the enclosing with
            if isinstance(child, ast.With):
                if any(isinstance(it.context_expr, ast.Attribute) and it.context_expr.attr == lock_attr for it in child.items):
                    for it in child.items:
                        walk(it, locked)
                    for st in child.body:
                        walk_stmt(st, True)
                    continue
            walk_stmt(child, now)

    def walk_stmt(child, locked):
        if isinstance(child, ast.Call) and isinstance(child.func, ast.Attribute) and child.func.attr == method \
                and isinstance(child.func.value, ast.Attribute) and child.func.value.attr == attr and not locked:
            out.append((q.get(id(child), ''), child.lineno))
        walk(child, locked)
    walk(tree, False)
    return sorted(set(out))
