#!/usr/bin/env python
"""C20 finding (race on the UNCHANGED tree before /repo fix): demo adapted from seed C20r5.

C20 demo: the total progress that StatusMonitor reports must be a proper weighted fraction (0 <= total <= 1).

Drives the REAL code:
  * experiment.model.frontends.flowir.FlowIRConcrete            (stage weights of the package)
  * experiment.runtime.output.StatusMonitor.__init__/run        (CheckStatus closure, compute_stage_status)
  * experiment.runtime.control.Controller.get_stages_in_transit / get_stages_finished / get_stage_status
  * experiment.model.data.Status                                (the status.txt file)

Only the experiment/stage/component objects are small stubs and the periodic Monitor thread is replaced with a
synchronous call of the very same action the thread would execute.

Scenario (2 stages, package weights 0.5/0.5 which already add up to one):
  - stage0 is the current stage, 1 of its 2 components is finished -> stage progress 0.5
  - stage1 is "in transit": its only component has terminated (state == finished) but the controller has not observed
    it in finishedCheck() yet (i.e. it's not in controller.comp_done).
  - while the StatusMonitor is busy computing the progress of stage1 the controller thread runs finishedCheck() for
    that component (simulated by a hook right after Controller.get_stage_status(1) returns).

Expected report: 0.5*0.5 (stage0) + 1.0*0.5 (stage1) = 0.75.
"""
import logging
import os
import shutil
import sys
import tempfile
import threading

import networkx

import experiment.model.codes
import experiment.model.data
import experiment.model.frontends.flowir
import experiment.runtime.control
import experiment.runtime.monitor
import experiment.runtime.output

logging.disable(logging.CRITICAL)

FINISHED = experiment.model.codes.FINISHED_STATE
RUNNING = experiment.model.codes.RUNNING_STATE


class Obj(object):
    def __init__(self, **kwargs):
        self.__dict__.update(kwargs)


def make_component(stage_index, name, state):
    return Obj(stageIndex=stage_index, name=name, state=state,
               specification=Obj(reference='stage%d.%s' % (stage_index, name)))


def finished_check_epilogue():
    """the statements of the `finally:` block of the REAL Controller.finishedCheck up to (and including) the one that adds
    the component to comp_done -- taken from the source of the tree under test, so that whether the add happens under
    comp_lock is whatever that tree does"""
    import ast, inspect, textwrap
    fn = ast.parse(textwrap.dedent(inspect.getsource(experiment.runtime.control.Controller.finishedCheck))).body[0]
    tr = [n for n in ast.walk(fn) if isinstance(n, ast.Try) and n.finalbody][0]
    body = []
    for st in tr.finalbody:
        body.append(st)
        if 'comp_done.add' in ast.unparse(st):
            break
    return compile(ast.fix_missing_locations(ast.Module(body=body, type_ignores=[])), '<finishedCheck finally>', 'exec')


class RacyController(experiment.runtime.control.Controller):
    """The real Controller (queries are NOT overridden).  Hook: right before the StatusMonitor's SECOND query
    (get_stages_finished, issued inside `with controller.comp_lock:`) another thread runs the epilogue of the real
    finishedCheck for a component.  If that epilogue respects comp_lock the thread blocks until CheckStatus leaves the
    lock; if it does not, the component becomes `done` between the two queries."""

    def get_stages_finished(self):
        for ref in self.pending_finished_checks.pop('before-second-query', []):
            comp = Obj(specification=Obj(reference=ref))
            t = threading.Thread(target=lambda: exec(finished_check_epilogue(), {'experiment': experiment}, {'self': self, 'component': comp}))
            t.daemon = True
            t.start()
            t.join(0.5)
        return experiment.runtime.control.Controller.get_stages_finished(self)


def make_controller(components, done, current_stage, pending_finished_checks):
    ctrl = object.__new__(RacyController)
    ctrl.log = logging.getLogger('demo.controller')
    ctrl.comp_lock = threading.RLock()
    # VV: Controller.graph is a read-only property -> self.experiment.experimentGraph.graph
    ctrl.experiment = Obj(experimentGraph=Obj(graph=networkx.DiGraph(), _placeholders={}, _documents={}))
    ctrl.comp_done = set(done)
    ctrl._starting_index = 0
    ctrl.stop_executing = False
    ctrl._stageStates = {}
    ctrl.currentStage = current_stage
    ctrl.pending_finished_checks = dict(pending_finished_checks)

    for comp in components:
        ctrl.graph.add_node(comp.specification.reference, stageIndex=comp.stageIndex,
                            component=(lambda comp=comp: comp))
        if comp.stageIndex not in ctrl._stageStates:
            ctrl._stageStates[comp.stageIndex] = Obj(state=RUNNING, index=comp.stageIndex)
    return ctrl


def main():
    root = tempfile.mkdtemp(prefix='c20demo')
    try:
        os.makedirs(os.path.join(root, 'output'))

        flowir = {
            'status-report': {0: {'stage-weight': 0.5}, 1: {'stage-weight': 0.5}},
            'components': [
                {'name': 'a0', 'stage': 0, 'command': {'executable': 'echo'}},
                {'name': 'a1', 'stage': 0, 'command': {'executable': 'echo'}},
                {'name': 'b', 'stage': 1, 'command': {'executable': 'echo'}},
            ],
        }
        concrete = experiment.model.frontends.flowir.FlowIRConcrete(flowir, None, {})

        stages = [Obj(name='stage%d' % i, referenceName='stage%d' % i, index=i) for i in range(2)]
        status_file = experiment.model.data.Status(
            os.path.join(root, 'output', 'status.txt'), {}, [s.name for s in stages])

        exp = Obj(
            instanceDirectory=Obj(resolvePath=lambda p: os.path.join(root, p), mtx_output=threading.RLock(),
                                  outputDir=os.path.join(root, 'output'), location=root),
            experimentGraph=Obj(configuration=Obj(get_flowir_concrete=lambda return_copy=True: concrete)),
            _stages=stages,
            statusFile=status_file,
        )

        monitor = experiment.runtime.output.StatusMonitor(exp, report_components=False)

        # The weights are those of the package (they add up to 1.0)
        assert monitor.stageWeights == [0.5, 0.5], monitor.stageWeights

        # Run the action of the monitor synchronously instead of in a polling thread
        actions = []

        def create_monitor(interval, action, cancelEvent=None, lastAction=True, name=None, default_polling_time=5.0):
            actions.append(action)
            return lambda: None

        experiment.runtime.monitor.CreateMonitor = create_monitor

        def check_status(controller):
            del actions[:]
            monitor.run(controller)
            actions[0](False)
            with open(os.path.join(root, 'output', 'status.txt')) as f:
                on_disk = dict(l.strip().split('=', 1) for l in f if '=' in l)
            assert float(on_disk['total-progress']) == status_file.totalProgress()
            return status_file.totalProgress()

        a0 = make_component(0, 'a0', FINISHED)
        a1 = make_component(0, 'a1', RUNNING)
        b = make_component(1, 'b', FINISHED)

        failures = []

        def expect(label, total, expected):
            ok = (0.0 <= total <= 1.0) and abs(total - expected) < 1e-9
            print('%-72s total-progress=%-6.4f expected=%-6.4f %s' % (label, total, expected, 'OK' if ok else 'VIOLATION'))
            if not ok:
                failures.append(label)

        # 1. No interleaving: stage1 stays in transit for the whole duration of CheckStatus
        ctrl = make_controller([a0, a1, b], done=['stage0.a0'], current_stage=stages[0], pending_finished_checks={})
        expect('stage1 in transit (finishedCheck pending)', check_status(ctrl), 0.75)

        # 2. No interleaving: stage1 has already been observed as finished before CheckStatus begins
        ctrl = make_controller([a0, a1, b], done=['stage0.a0', 'stage1.b'], current_stage=stages[0],
                               pending_finished_checks={})
        expect('stage1 finished before CheckStatus', check_status(ctrl), 0.75)

        # 3. The interleaving: finishedCheck(stage1.b) runs while CheckStatus computes the progress of stage1
        ctrl = make_controller([a0, a1, b], done=['stage0.a0'], current_stage=stages[0],
                               pending_finished_checks={'before-second-query': ['stage1.b']})
        expect('finishedCheck(stage1.b) marks it done between the two locked queries', check_status(ctrl), 0.75)

        # 4. Everything is done -> 1.0
        a1.state = FINISHED
        ctrl = make_controller([a0, a1, b], done=['stage0.a0', 'stage0.a1', 'stage1.b'], current_stage=stages[1],
                               pending_finished_checks={})
        expect('all stages completed', check_status(ctrl), 1.0)

        if failures:
            print('C20 VIOLATED: %s' % failures)
            return 1
        print('C20 holds')
        return 0
    finally:
        shutil.rmtree(root, ignore_errors=True)


if __name__ == '__main__':
    sys.exit(main())
