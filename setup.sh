#!/bin/sh
# Builds /verif/.venv offline: CPython 3.12 (same as the runtime) + verification wheels from
# /opt/veriftools/wheels + a .pth that overlays /venv's site-packages (repo deps and the
# editable install of /repo/python, so checks always see /repo's current working tree).
set -e
cd "$(dirname "$0")"
PY=/root/.pyenv/versions/3.12.1/bin/python3.12
[ -x "$PY" ] || PY=/venv/bin/python
if [ ! -x .venv/bin/python ] || ! .venv/bin/python -c "import z3, crosshair, deal, icontract" 2>/dev/null; then
    rm -rf .venv
    "$PY" -m venv .venv
    PIP_NO_INDEX=1 .venv/bin/pip install -q --no-index --find-links /opt/veriftools/wheels \
        z3-solver crosshair-tool icontract deal hypothesis cvc5 jsonschema
    SP=$(.venv/bin/python -c "import sysconfig; print(sysconfig.get_paths()['purelib'])")
    echo "import site; site.addsitedir('/venv/lib/python3.12/site-packages')" > "$SP/_repo_overlay.pth"
fi
.venv/bin/python -c "import z3, experiment.model.codes; print('setup ok: z3', z3.get_version_string())"
